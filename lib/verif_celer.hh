// Celeritas-facing shared helpers: classification of the library's own debug assertions
// (DESIGN 2.1), and the counting / adversarial random engine used by C04, C15, C20.
#pragma once

#include <cstring>
#include <random>
#include <stdexcept>
#include <string>

#include "corecel/Assert.hh"
#include "celeritas/random/distribution/GenerateCanonical.hh"
#include "celeritas/random/detail/GenerateCanonical32.hh"

#include "verif_common.hh"

namespace verif
{
//---------------------------------------------------------------------------//
// Debug assertions (only active in the asan variant, CELERITAS_DEBUG=ON).
//  "bounds": a failing index/range assertion in the container layer = memory-safety
//            event, same standing as an ASan report (violation of the property checked)
//  "diagnostic": any other library assertion; aborts the case only, never a verdict by
//            itself (the case is judged by our monitors in the plain variant).
inline bool is_bounds_assertion(celeritas::DebugError const& e)
{
    char const* f = e.details().file ? e.details().file : "";
    static char const* const files[] = {"corecel/data/Collection.hh",
                                        "corecel/cont/Span.hh",
                                        "corecel/cont/Array.hh",
                                        "corecel/data/StackAllocator.hh",
                                        "corecel/data/detail/CollectionImpl.hh",
                                        "corecel/cont/detail/SpanImpl.hh",
                                        "orange/detail/LevelStateAccessor.hh",
                                        "corecel/data/CollectionBuilder.hh",
                                        "corecel/data/DedupeCollectionBuilder.hh"};
    for (auto* s : files)
        if (std::strstr(f, s))
            return true;
    return false;
}

inline std::string short_file(char const* f)
{
    if (!f)
        return "?";
    char const* s = std::strstr(f, "/src/");
    return s ? std::string(s + 5) : std::string(f);
}

inline std::string describe(celeritas::DebugError const& e)
{
    auto const& d = e.details();
    return short_file(d.file) + ":" + std::to_string(d.line) + ": " + (d.condition ? d.condition : "");
}

// Key for a bounds assertion violation (line numbers stripped)
inline std::string bounds_key(std::string const& prop, celeritas::DebugError const& e)
{
    auto const& d = e.details();
    return prop + "/bounds-assert/" + short_file(d.file) + "/" + (d.condition ? d.condition : "");
}

//---------------------------------------------------------------------------//
struct DrawLimitExceeded : std::runtime_error
{
    DrawLimitExceeded() : std::runtime_error("draw limit exceeded") {}
};

// 32-bit engine that counts draws, enforces a watchdog limit, and optionally splices runs
// of extreme words (all-zero, all-one, alternating) into an otherwise random stream.  Such
// streams are legitimate outputs of a uniform 32-bit generator: they reach canonical
// u = 0 and u = 1 - 2^-53.
class HostileEngine
{
  public:
    using result_type = unsigned int;
    static constexpr result_type min() { return 0u; }
    static constexpr result_type max() { return 0xffffffffu; }

    // p_extreme: probability per draw of starting an extreme run (0 = plain random)
    explicit HostileEngine(std::uint64_t seed, double p_extreme = 0.0, std::uint64_t limit = 1000000)
        : g_(seed), p_(p_extreme), limit_(limit)
    {
    }

    result_type operator()()
    {
        if (++count_ > limit_)
            throw DrawLimitExceeded();
        if (run_ > 0)
        {
            --run_;
            ++extreme_;
            switch (kind_)
            {
                case 0: return 0u;
                case 1: return 0xffffffffu;
                case 2: return (run_ & 1) ? 0u : 0xffffffffu;
                case 3: return (run_ & 1) ? 0xffffffffu : 0u;
                case 4: return 0x000007ffu;  // tiny but non-zero canonical
                default: return 0xfffff800u;
            }
        }
        if (p_ > 0 && uniform01() < p_)
        {
            run_ = 1 + int(g_.next() % 6);
            kind_ = int(g_.next() % 6);
        }
        return result_type(g_.next() >> 32);
    }

    std::uint64_t count() const { return count_; }
    std::uint64_t extreme_count() const { return extreme_; }
    void reset_count()
    {
        count_ = 0;
        extreme_ = 0;
    }
    void set_limit(std::uint64_t l) { limit_ = l; }
    // force the next n draws to be the given extreme kind
    void force(int kind, int n)
    {
        kind_ = kind;
        run_ = n;
    }

  private:
    double uniform01() { return double(g_.next() >> 11) * (1.0 / 9007199254740992.0); }
    SplitMix64 g_;
    double p_;
    std::uint64_t limit_;
    std::uint64_t count_ = 0, extreme_ = 0;
    int run_ = 0, kind_ = 0;
};

}  // namespace verif

namespace celeritas
{
// Same construction as for XorwowRngEngine: canonical reals from 32-bit words via the
// library's own GenerateCanonical32 (two words -> 53-bit double in [0,1)).
template<class RealType>
class GenerateCanonical<verif::HostileEngine, RealType>
{
  public:
    using real_type = RealType;
    using result_type = RealType;
    CELER_FORCEINLINE_FUNCTION result_type operator()(verif::HostileEngine& rng)
    {
        return detail::GenerateCanonical32<RealType>()(rng);
    }
};
}  // namespace celeritas
