// Shared harness machinery: deterministic PRNG, case bookkeeping, three-valued verdicts,
// coverage cells, result-file writer.  Header-only; used by every engine.
#pragma once

#include <algorithm>
#include <chrono>
#include <cmath>
#include <cstdint>
#include <cstdio>
#include <cstdlib>
#include <cstring>
#include <fstream>
#include <iostream>
#include <map>
#include <set>
#include <sstream>
#include <string>
#include <vector>

#include <nlohmann/json.hpp>

namespace verif
{
using json = nlohmann::json;

//---------------------------------------------------------------------------//
// SplitMix64: all harness randomness derives from VERIF_SEED through this.
struct SplitMix64
{
    std::uint64_t s;
    explicit SplitMix64(std::uint64_t seed = 1) : s(seed) {}
    std::uint64_t next()
    {
        std::uint64_t z = (s += 0x9e3779b97f4a7c15ull);
        z = (z ^ (z >> 30)) * 0xbf58476d1ce4e5b9ull;
        z = (z ^ (z >> 27)) * 0x94d049bb133111ebull;
        return z ^ (z >> 31);
    }
};

inline std::uint64_t mix_seed(std::uint64_t a, std::uint64_t b)
{
    SplitMix64 m(a * 0x9e3779b97f4a7c15ull + b + 0x632be59bd9b4e019ull);
    m.next();
    return m.next();
}

// Convenience generator on top of SplitMix64
class Rng
{
  public:
    using result_type = std::uint64_t;
    explicit Rng(std::uint64_t seed = 1) : g_(seed) { g_.next(); }
    static constexpr result_type min() { return 0; }
    static constexpr result_type max() { return ~result_type(0); }
    result_type operator()() { return g_.next(); }
    std::uint64_t u64() { return g_.next(); }
    std::uint32_t u32() { return std::uint32_t(g_.next() >> 32); }
    // uniform in [0,1)
    double uniform() { return double(g_.next() >> 11) * (1.0 / 9007199254740992.0); }
    double uniform(double a, double b) { return a + (b - a) * uniform(); }
    double loguniform(double a, double b)
    {
        return std::exp(uniform(std::log(a), std::log(b)));
    }
    // integer in [lo, hi] inclusive
    std::int64_t integer(std::int64_t lo, std::int64_t hi)
    {
        std::uint64_t span = std::uint64_t(hi - lo) + 1;
        return lo + std::int64_t(span == 0 ? g_.next() : g_.next() % span);
    }
    bool coin(double p = 0.5) { return uniform() < p; }
    template<class T>
    T const& pick(std::vector<T> const& v)
    {
        return v[std::size_t(integer(0, std::int64_t(v.size()) - 1))];
    }
    double normal()
    {
        double u1 = 1.0 - uniform(), u2 = uniform();
        return std::sqrt(-2 * std::log(u1)) * std::cos(6.283185307179586 * u2);
    }
    void unit3(double* d)
    {
        double mu = uniform(-1, 1), phi = uniform(0, 6.283185307179586);
        double s = std::sqrt(std::max(0.0, 1 - mu * mu));
        d[0] = s * std::cos(phi);
        d[1] = s * std::sin(phi);
        d[2] = mu;
    }

  private:
    SplitMix64 g_;
};

//---------------------------------------------------------------------------//
// ulp helpers
inline double next_up(double x, int n = 1)
{
    for (int i = 0; i < n; ++i)
        x = std::nextafter(x, INFINITY);
    return x;
}
inline double next_down(double x, int n = 1)
{
    for (int i = 0; i < n; ++i)
        x = std::nextafter(x, -INFINITY);
    return x;
}
inline std::uint64_t bits_of(double x)
{
    std::uint64_t b;
    std::memcpy(&b, &x, sizeof b);
    return b;
}
inline std::string hexd(double x)
{
    char buf[64];
    std::snprintf(buf, sizeof buf, "%a", x);
    return buf;
}

//---------------------------------------------------------------------------//
// Command line shared by all engines
struct Args
{
    std::string property;
    std::string tier = "quick";
    std::uint64_t seed = 1;
    std::string out;
    std::string replay;
    double scale = 1.0;  // budget multiplier (asan/tsan replicas use < 1)
    std::map<std::string, std::string> extra;

    bool thorough() const { return tier == "thorough"; }
    // budget helper: quick count, thorough count, scaled
    std::uint64_t budget(std::uint64_t quick, std::uint64_t thorough_n) const
    {
        double n = double(thorough() ? thorough_n : quick) * scale;
        return std::max<std::uint64_t>(1, std::uint64_t(n));
    }
    std::string get(std::string const& k, std::string const& def = "") const
    {
        auto it = extra.find(k);
        return it == extra.end() ? def : it->second;
    }
    bool has(std::string const& k) const { return extra.count(k) != 0; }
};

inline Args parse_args(int argc, char** argv)
{
    Args a;
    if (char const* s = std::getenv("VERIF_SEED"))
        a.seed = std::strtoull(s, nullptr, 10);
    if (char const* t = std::getenv("VERIF_TIER"))
        a.tier = t;
    for (int i = 1; i < argc; ++i)
    {
        std::string k = argv[i];
        auto val = [&]() -> std::string {
            if (i + 1 >= argc)
            {
                std::cerr << "missing value for " << k << "\n";
                std::exit(2);
            }
            return argv[++i];
        };
        if (k == "--property")
            a.property = val();
        else if (k == "--tier")
            a.tier = val();
        else if (k == "--seed")
            a.seed = std::strtoull(val().c_str(), nullptr, 10);
        else if (k == "--out")
            a.out = val();
        else if (k == "--replay")
            a.replay = val();
        else if (k == "--scale")
            a.scale = std::atof(val().c_str());
        else if (k.rfind("--", 0) == 0)
            a.extra[k.substr(2)] = val();
        else
        {
            std::cerr << "unknown argument " << k << "\n";
            std::exit(2);
        }
    }
    if (a.tier != "quick" && a.tier != "thorough")
    {
        std::cerr << "bad tier " << a.tier << "\n";
        std::exit(2);
    }
    return a;
}

//---------------------------------------------------------------------------//
// Result of one engine run for one property.
//  * evaluations : cases judged (held + violated + inconclusive)
//  * cells       : coverage cells hit by HELD, non-trivial cases (name -> count)
//  * violations  : each with a stable key (property/monitor/site), detail, and the case
//  * samples     : a few actual cases written out
class Report
{
  public:
    Report(std::string property, std::string engine, Args const& a)
        : property_(std::move(property)), engine_(std::move(engine)), args_(a)
    {
        t0_ = std::chrono::steady_clock::now();
    }

    void held(std::string const& cell, std::uint64_t n = 1)
    {
        evaluations_ += n;
        held_ += n;
        if (!cell.empty())
            cells_[cell] += n;
    }
    // Add a coverage cell without counting a case (sub-observation inside a counted case)
    void cell(std::string const& c, std::uint64_t n = 1) { cells_[c] += n; }
    // Held but trivial (not counted as a coverage cell)
    void held_trivial(std::uint64_t n = 1)
    {
        evaluations_ += n;
        held_ += n;
        trivial_ += n;
    }
    void inconclusive(std::string const& why, std::uint64_t n = 1)
    {
        evaluations_ += n;
        inconclusive_ += n;
        inconclusive_why_[why] += n;
    }
    // Record a violation; at most max_per_key witnesses are stored per key.
    void violation(std::string const& key, std::string const& detail, json witness = json())
    {
        evaluations_ += 1;
        auto& v = violations_[key];
        v.count += 1;
        if (v.witnesses.size() < 3)
        {
            json w;
            w["detail"] = detail;
            w["case"] = std::move(witness);
            v.witnesses.push_back(std::move(w));
        }
    }
    // a violation that does not add to evaluations (found within an already-counted case)
    void violation_in_case(std::string const& key, std::string const& detail, json witness = json())
    {
        violation(key, detail, std::move(witness));
        evaluations_ -= 1;
    }
    void sample(json s, std::size_t max_samples = 8)
    {
        if (samples_.size() < max_samples)
            samples_.push_back(std::move(s));
    }
    bool want_sample(std::size_t max_samples = 8) const
    {
        return samples_.size() < max_samples;
    }
    void observe(std::string const& k, std::uint64_t n = 1) { observed_[k] += n; }
    void observe_max(std::string const& k, double v)
    {
        auto it = observed_max_.find(k);
        if (it == observed_max_.end() || v > it->second)
            observed_max_[k] = v;
    }
    void set_rule(std::string r) { rule_ = std::move(r); }
    void assume(std::string a) { assumptions_.push_back(std::move(a)); }
    void set_exhaustive(std::string const& subspace) { exhaustive_.push_back(subspace); }
    void note(std::string const& k, json v) { notes_[k] = std::move(v); }

    std::uint64_t num_violations() const
    {
        std::uint64_t n = 0;
        for (auto const& kv : violations_)
            n += kv.second.count;
        return n;
    }
    std::uint64_t evaluations() const { return evaluations_; }
    std::uint64_t num_held() const { return held_; }

    json to_json() const
    {
        json j;
        j["property"] = property_;
        j["engine"] = engine_;
        j["tier"] = args_.tier;
        j["seed"] = args_.seed;
        j["scale"] = args_.scale;
        j["evaluations"] = evaluations_;
        j["held"] = held_;
        j["held_trivial"] = trivial_;
        j["inconclusive"] = inconclusive_;
        j["inconclusive_why"] = inconclusive_why_;
        j["cells"] = cells_;
        j["rule"] = rule_;
        j["samples"] = samples_;
        j["observed"] = observed_;
        j["observed_max"] = observed_max_;
        j["assumptions"] = assumptions_;
        j["exhaustive_subspaces"] = exhaustive_;
        j["notes"] = notes_;
        json vs = json::array();
        for (auto const& kv : violations_)
        {
            json v;
            v["key"] = kv.first;
            v["count"] = kv.second.count;
            v["witnesses"] = kv.second.witnesses;
            vs.push_back(std::move(v));
        }
        j["violations"] = std::move(vs);
        j["wall_s"] = std::chrono::duration<double>(std::chrono::steady_clock::now() - t0_).count();
        return j;
    }

    // Write and return process exit code (0 always: the driver decides the verdict from
    // the file; 2 = could not write)
    int finish() const
    {
        json j = to_json();
        if (args_.out.empty())
        {
            std::cout << j.dump(1) << std::endl;
            return 0;
        }
        std::ofstream f(args_.out);
        if (!f)
        {
            std::cerr << "cannot write " << args_.out << "\n";
            return 2;
        }
        f << j.dump(1) << "\n";
        return f.good() ? 0 : 2;
    }

  private:
    struct V
    {
        std::uint64_t count = 0;
        std::vector<json> witnesses;
    };
    std::string property_, engine_;
    Args args_;
    std::chrono::steady_clock::time_point t0_;
    std::uint64_t evaluations_ = 0, held_ = 0, trivial_ = 0, inconclusive_ = 0;
    std::map<std::string, std::uint64_t> cells_, inconclusive_why_, observed_;
    std::map<std::string, double> observed_max_;
    std::map<std::string, V> violations_;
    std::vector<json> samples_;
    std::vector<std::string> assumptions_, exhaustive_;
    std::string rule_;
    json notes_ = json::object();
};

// Merge helper for multi-threaded engines: add counts of `b` into `a` is not provided;
// engines keep one Report per thread and the driver merges result files.

template<class T>
inline json jarr(T const* p, std::size_t n)
{
    json a = json::array();
    for (std::size_t i = 0; i < n; ++i)
        a.push_back(p[i]);
    return a;
}
template<class A>
inline json jarr3(A const& a)
{
    return json::array({a[0], a[1], a[2]});
}

}  // namespace verif
