// REFERENCE POINT LOCATOR over celeritas::OrangeInput (the geometry *definition*).
//
// Independent oracle for "which volume instance contains this point": it is written from
// scratch over the input structures of src/orange/OrangeInput.hh (UnitInput surfaces,
// volume faces + postfix logic, background volume, daughter_map with transforms,
// RectArrayInput grids) and shares no code with the ORANGE navigator:
//   * own surface functions in long double, from the surface classes' public parameters
//     only (position(), radius_sq(), origin(), normal(), second()/first()/cross()/zeroth(),
//     tangent_sq(), r_b()/displacement_angle()/tmin()/tmax()/sign());
//   * own postfix (RPN) logic evaluator (tokens are indices into the volume's face list);
//   * own transform application (daughter-to-parent x_parent = R x + t, so going down is
//     x = R^T (x_parent - t)), from Translation::translation() / Transformation::rotation();
//   * own rect-array cell search; exhaustive loop over volumes (no BIH, no bounding boxes,
//     no connectivity, none of the runtime OrangeParams data).
//
// Semantics implemented (= what the input means):
//   * Sense of a surface at a point: f(p) > 0 "outside" (true), f(p) < 0 "inside" (false).
//   * A volume contains the point iff its logic evaluates true on the senses of its faces.
//   * In a unit, the point belongs to the unique non-background volume that contains it; if
//     none does and the unit's last volume has zorder == background, to that volume.
//     Two or more non-background claims => `overlap` (invalid input; first claim is used).
//     No claim and no background => `nowhere` (gap in the input).
//   * If the volume has an entry in daughter_map the point is transformed down into the
//     daughter universe and located there (recursively). Path = instance path.
//   * Rect array: cell (i,j,k) with grid[ax][i] <= x < grid[ax][i+1]; local volume index
//     (i*ny + j)*nz + k (x slowest), which is the order of RectArrayInput::daughters.
//     The outermost grid planes are *not* boundaries (the array is truncated by the
//     parent cell; ORANGE documents this: outer planes are removed to avoid coincident
//     surfaces), so points beyond them are clamped into the edge cells and the overshoot is
//     reported in `array_overshoot`.
//   * Global volume id = (number of volumes of all universes preceding it in input order)
//     + local volume index, where a rect array has one volume per cell. This is the
//     numbering OrangeParams uses (volumes are appended universe by universe).
//
// Margin: for every surface *used as a face by some volume* of every universe on the path
// (and every interior grid plane of rect arrays) a LOWER BOUND `dist` of the Euclidean
// distance from the point to the zero set of that surface is computed:
//   planes, spheres, cylinders : exact distance;
//   cones                      : distance to the nearer generating line (<= true distance);
//   simple / general quadrics  : rigorous bound  d >= 2|f| / (g + sqrt(g^2 + 2 L |f|)),
//                                g = |grad f(p)|, L = 2 ||A||_F  (Lipschitz constant of the
//                                gradient); equals |f|/|grad f| to first order;
//   involutes                  : first order (|f|/|grad f| with a safety factor 1/2) to the
//                                curve, the radial band edges and the angular cut.
// `margin` = min over those surfaces. Because every sense (hence every logic value at every
// level, and the array cell) is constant inside the ball B(p, margin), the instance path is
// constant in that ball (for inputs without involutes: rigorously).  margin == 0 means the
// point is on a surface.
//
// API summary
//   RefLocator loc(orange_input);                 // copies what it needs; input may be moved later
//   Result r = loc.locate(pos[3] (double or long double), near_radius = 0, dir[3] = nullptr);
//     r.path            vector<LevelEntry>{universe, volume, local_pos, rot_to_global, origin_global}
//     r.global_volume   OrangeParams-compatible VolumeId value of the deepest level (-1: nowhere)
//     r.margin          lower bound of the distance to the nearest surface on the path
//     r.nearest         NearSurface{level, universe, surface, type, dist, f, normal_global,
//                       on_special (point exactly on centre/axis/apex), axis_dist, is_face}
//     r.near            every surface on the path with dist < near_radius (same record)
//     r.ray_margin      (dir given) ray parameter up to which the path cannot change
//     r.overlap / r.nowhere / r.bad_logic / r.valid() / r.outside() / r.same_path(other)
//     r.array_overshoot distance beyond the outer planes of a rect array (0 if inside)
//   loc.tolerance_at(pos)  max(tol.abs, tol.rel*|x|_inf);  loc.volume_flags(u,v), is_background(u,v),
//   is_array(u), faces(u,v), surface(u,s), daughter_transform_kind(u,v), daughter_xform(u,v),
//   volume_offset(u), num_volumes(), num_universes().
//   Free functions: eval_surface(VariantSurface, Vec3) -> SurfValue{f, dist, normal, on_special, planar},
//   surface_type(VariantSurface), surface_type_name(SurfaceType), make_xform(VariantTransform).
//
// Thread safety: a RefLocator is immutable after construction; locate() is const and
// re-entrant.
#pragma once

#include <cmath>
#include <cstdint>
#include <limits>
#include <string>
#include <type_traits>
#include <variant>
#include <vector>

#include "orange/OrangeInput.hh"
#include "orange/OrangeTypes.hh"
#include "orange/surf/VariantSurface.hh"
#include "orange/transform/VariantTransform.hh"

namespace verif
{
namespace refloc
{
using ld = long double;

struct Vec3
{
    ld v[3] = {0, 0, 0};
    ld& operator[](int i) { return v[i]; }
    ld const& operator[](int i) const { return v[i]; }
};
inline ld dot(Vec3 const& a, Vec3 const& b) { return a[0] * b[0] + a[1] * b[1] + a[2] * b[2]; }
inline ld norm(Vec3 const& a) { return std::sqrt(dot(a, a)); }
inline Vec3 scaled(Vec3 const& a, ld s) { return Vec3{{a[0] * s, a[1] * s, a[2] * s}}; }

struct Mat3
{
    ld m[3][3] = {{1, 0, 0}, {0, 1, 0}, {0, 0, 1}};
};
inline Vec3 mul(Mat3 const& A, Vec3 const& x)
{
    Vec3 r;
    for (int i = 0; i < 3; ++i)
        r[i] = A.m[i][0] * x[0] + A.m[i][1] * x[1] + A.m[i][2] * x[2];
    return r;
}
inline Vec3 mul_transpose(Mat3 const& A, Vec3 const& x)
{
    Vec3 r;
    for (int i = 0; i < 3; ++i)
        r[i] = A.m[0][i] * x[0] + A.m[1][i] * x[1] + A.m[2][i] * x[2];
    return r;
}
inline Mat3 mul(Mat3 const& A, Mat3 const& B)
{
    Mat3 C;
    for (int i = 0; i < 3; ++i)
        for (int j = 0; j < 3; ++j)
        {
            ld s = 0;
            for (int k = 0; k < 3; ++k)
                s += A.m[i][k] * B.m[k][j];
            C.m[i][j] = s;
        }
    return C;
}

//---------------------------------------------------------------------------//
// Value of one surface at a local point
struct SurfValue
{
    ld f = 0;  // sign gives the sense: > 0 outside, < 0 inside
    ld dist = 0;  // lower bound on the distance to the zero set (>= 0)
    Vec3 normal;  // unit vector along grad f (local frame); zero if undefined (centre/axis)
    bool on_special = false;  // point exactly at a centre / on an axis / at a cone apex
    bool planar = false;  // the zero set is a plane (f is the exact signed distance)
    ld axis_dist = -1;  // spheres / cylinders: distance of the point from the centre / axis
};

inline char const* surface_type_name(celeritas::SurfaceType t)
{
    static char const* const names[] = {"px", "py", "pz", "cxc", "cyc", "czc", "sc", "cx", "cy",
                                        "cz", "p", "s", "kx", "ky", "kz", "sq", "gq", "inv"};
    auto i = static_cast<unsigned>(t);
    return i < sizeof(names) / sizeof(*names) ? names[i] : "?";
}

namespace detail
{
inline void other_axes(int t, int& u, int& v)
{
    // same convention as the surface documentation: (U,V) are the remaining axes in
    // increasing order
    u = (t == 0) ? 1 : 0;
    v = (t == 2) ? 1 : 2;
}

// Generic quadric  f = x^T A x + b.x + c  with symmetric A
inline SurfValue eval_quadric(ld const A[3][3], Vec3 const& b, ld c, Vec3 const& p)
{
    SurfValue r;
    Vec3 Ap, g;
    ld frob = 0;
    for (int i = 0; i < 3; ++i)
    {
        Ap[i] = A[i][0] * p[0] + A[i][1] * p[1] + A[i][2] * p[2];
        for (int j = 0; j < 3; ++j)
            frob += A[i][j] * A[i][j];
    }
    r.f = dot(p, Ap) + dot(b, p) + c;
    for (int i = 0; i < 3; ++i)
        g[i] = 2 * Ap[i] + b[i];
    ld gn = norm(g);
    ld L = 2 * std::sqrt(frob);
    ld af = std::fabs(r.f);
    ld den = gn + std::sqrt(gn * gn + 2 * L * af);
    r.dist = den > 0 ? 2 * af / den : std::numeric_limits<ld>::infinity();
    if (gn > 0)
        r.normal = scaled(g, 1 / gn);
    else
        r.on_special = true;
    return r;
}

template<celeritas::Axis T>
inline SurfValue eval(celeritas::PlaneAligned<T> const& s, Vec3 const& p)
{
    SurfValue r;
    int t = static_cast<int>(T);
    r.f = p[t] - ld(s.position());
    r.dist = std::fabs(r.f);
    r.normal[t] = 1;
    r.planar = true;
    return r;
}

inline SurfValue eval(celeritas::Plane const& s, Vec3 const& p)
{
    SurfValue r;
    Vec3 n{{ld(s.normal()[0]), ld(s.normal()[1]), ld(s.normal()[2])}};
    ld nn = norm(n);
    r.f = (dot(n, p) - ld(s.displacement())) / nn;
    r.dist = std::fabs(r.f);
    r.normal = scaled(n, 1 / nn);
    r.planar = true;
    return r;
}

inline SurfValue eval_cyl(int t, ld ou, ld ov, ld rsq, Vec3 const& p)
{
    SurfValue r;
    int u, v;
    other_axes(t, u, v);
    ld du = p[u] - ou, dv = p[v] - ov;
    ld rho = std::hypot(du, dv);
    r.f = rho - std::sqrt(rsq);
    r.dist = std::fabs(r.f);
    r.axis_dist = rho;
    if (rho > 0)
    {
        r.normal[u] = du / rho;
        r.normal[v] = dv / rho;
    }
    else
        r.on_special = true;
    return r;
}

template<celeritas::Axis T>
inline SurfValue eval(celeritas::CylCentered<T> const& s, Vec3 const& p)
{
    return eval_cyl(static_cast<int>(T), 0, 0, ld(s.radius_sq()), p);
}

template<celeritas::Axis T>
inline SurfValue eval(celeritas::CylAligned<T> const& s, Vec3 const& p)
{
    return eval_cyl(static_cast<int>(T), ld(s.origin_u()), ld(s.origin_v()), ld(s.radius_sq()), p);
}

inline SurfValue eval_sph(Vec3 const& o, ld rsq, Vec3 const& p)
{
    SurfValue r;
    Vec3 d{{p[0] - o[0], p[1] - o[1], p[2] - o[2]}};
    ld rho = norm(d);
    r.f = rho - std::sqrt(rsq);
    r.dist = std::fabs(r.f);
    r.axis_dist = rho;
    if (rho > 0)
        r.normal = scaled(d, 1 / rho);
    else
        r.on_special = true;
    return r;
}

inline SurfValue eval(celeritas::SphereCentered const& s, Vec3 const& p)
{
    return eval_sph(Vec3{}, ld(s.radius_sq()), p);
}

inline SurfValue eval(celeritas::Sphere const& s, Vec3 const& p)
{
    Vec3 o{{ld(s.origin()[0]), ld(s.origin()[1]), ld(s.origin()[2])}};
    return eval_sph(o, ld(s.radius_sq()), p);
}

template<celeritas::Axis T>
inline SurfValue eval(celeritas::ConeAligned<T> const& s, Vec3 const& p)
{
    // (u-u0)^2 + (v-v0)^2 - t^2 (w-w0)^2 = 0 : "inside" is around the axis
    SurfValue r;
    int t = static_cast<int>(T), u, v;
    other_axes(t, u, v);
    ld du = p[u] - ld(s.origin()[u]), dv = p[v] - ld(s.origin()[v]);
    ld dw = p[t] - ld(s.origin()[t]);
    ld tsq = ld(s.tangent_sq());
    ld tn = std::sqrt(tsq);
    ld rho = std::hypot(du, dv);
    // signed distance to the generating line rho = tan * |w| in the (rho, w) half plane
    r.f = (rho - tn * std::fabs(dw)) / std::sqrt(1 + tsq);
    r.dist = std::fabs(r.f);
    Vec3 g;
    g[u] = 2 * du;
    g[v] = 2 * dv;
    g[t] = -2 * tsq * dw;
    ld gn = norm(g);
    if (gn > 0)
        r.normal = scaled(g, 1 / gn);
    else
        r.on_special = true;
    return r;
}

inline SurfValue eval(celeritas::SimpleQuadric const& s, Vec3 const& p)
{
    ld A[3][3] = {{0, 0, 0}, {0, 0, 0}, {0, 0, 0}};
    for (int i = 0; i < 3; ++i)
        A[i][i] = ld(s.second()[i]);
    Vec3 b{{ld(s.first()[0]), ld(s.first()[1]), ld(s.first()[2])}};
    return eval_quadric(A, b, ld(s.zeroth()), p);
}

inline SurfValue eval(celeritas::GeneralQuadric const& s, Vec3 const& p)
{
    // a x^2 + b y^2 + c z^2 + d xy + e yz + f zx + g x + h y + i z + j
    ld A[3][3];
    A[0][0] = ld(s.second()[0]);
    A[1][1] = ld(s.second()[1]);
    A[2][2] = ld(s.second()[2]);
    A[0][1] = A[1][0] = ld(s.cross()[0]) / 2;
    A[1][2] = A[2][1] = ld(s.cross()[1]) / 2;
    A[0][2] = A[2][0] = ld(s.cross()[2]) / 2;
    Vec3 b{{ld(s.first()[0]), ld(s.first()[1]), ld(s.first()[2])}};
    return eval_quadric(A, b, ld(s.zeroth()), p);
}

inline SurfValue eval(celeritas::Involute const& s, Vec3 const& p)
{
    // Parametric definition (class documentation):
    //   x = rb (cos(t+a) + t sin(t+a)),  y = rb (sin(t+a) - t cos(t+a)),  t in [tmin,tmax]
    // A point at radius rho has t_p = sqrt(rho^2/rb^2 - 1); the involute of the same base
    // circle through it touches the circle at polar angle theta = phi + atan(t_p) and has
    // displacement angle a_p = theta - t_p.  Involutes of one base circle are parallel
    // curves at normal distance rb*|a_p - a|.  "Inside" (documented convention): in the
    // radial band, with theta (taken as the largest representative not above tmax + a)
    // below tmax + a and a_p > a.  Clockwise involutes are the mirror image x -> -x.
    SurfValue r;
    constexpr ld two_pi = 6.283185307179586476925286766559005768L;
    ld const inf = std::numeric_limits<ld>::infinity();
    ld x = p[0] - ld(s.origin()[0]);
    ld y = p[1] - ld(s.origin()[1]);
    bool mirrored = (s.sign() == celeritas::Chirality::right);
    if (mirrored)
        x = -x;
    ld rb = ld(s.r_b());
    ld a = ld(s.displacement_angle());
    ld tmin = ld(s.tmin()), tmax = ld(s.tmax());
    ld rho = std::hypot(x, y);
    ld rho_min = rb * std::sqrt(1 + tmin * tmin);
    ld rho_max = rb * std::sqrt(1 + tmax * tmax);
    ld d_band = std::min(std::fabs(rho - rho_min), std::fabs(rho - rho_max));
    if (rho < rho_min || rho > rho_max || rho <= rb)
    {
        // outside the radial band: "outside" by definition
        r.f = d_band > 0 ? d_band : 0;
        r.dist = d_band;
        if (rho > 0)
        {
            r.normal[0] = (mirrored ? -x : x) / rho;
            r.normal[1] = y / rho;
        }
        return r;
    }
    ld tp = std::sqrt(rho * rho / (rb * rb) - 1);
    ld phi = std::atan2(y, x);
    ld theta = std::fmod(phi + std::atan(tp), two_pi);
    if (theta < 0)
        theta += two_pi;
    ld k = std::floor((tmax + a - theta) / two_pi);
    if (k > 0)
        theta += k * two_pi;
    ld ap = theta - tp;
    bool inside = (theta < tmax + a) && (ap > a);
    // distances (first order, factor 1/2) to the sets where the sense can change
    ld d_curve = rb * std::fabs(ap - a);
    ld lever = rb * tp;  // |grad theta| = 1/(rb t_p)
    ld d_cut = inf;
    {
        // angular cut theta == tmax + a (mod 2 pi)
        ld w = std::fmod(tmax + a - theta, two_pi);
        if (w < 0)
            w += two_pi;
        d_cut = lever * std::min(w, two_pi - w);
    }
    ld d = std::min(d_band, std::min(d_curve, d_cut) / 2);
    r.dist = d;
    r.f = inside ? -d : d;
    // normal of the involute through the point: along the tangent line of the base circle,
    // i.e. direction (sin(theta), -cos(theta)) up to sign
    ld nx = std::sin(theta), ny = -std::cos(theta);
    r.normal[0] = mirrored ? -nx : nx;
    r.normal[1] = ny;
    return r;
}
}  // namespace detail

//---------------------------------------------------------------------------//
// Evaluate any surface of the variant at a local point
inline SurfValue eval_surface(celeritas::VariantSurface const& vs, Vec3 const& p)
{
    return std::visit([&p](auto const& s) { return detail::eval(s, p); }, vs);
}

inline celeritas::SurfaceType surface_type(celeritas::VariantSurface const& vs)
{
    return std::visit(
        [](auto const& s) {
            using S = std::decay_t<decltype(s)>;
            return S::surface_type();
        },
        vs);
}

//---------------------------------------------------------------------------//
// daughter-to-parent transform  x_parent = R x + t
struct Xform
{
    Mat3 R;
    Vec3 t;
    bool has_rotation = false;
    bool has_translation = false;
    Vec3 down(Vec3 const& parent) const
    {
        Vec3 d{{parent[0] - t[0], parent[1] - t[1], parent[2] - t[2]}};
        return has_rotation ? mul_transpose(R, d) : d;
    }
    Vec3 rotate_down(Vec3 const& dir) const { return has_rotation ? mul_transpose(R, dir) : dir; }
    Vec3 up(Vec3 const& local) const
    {
        Vec3 d = has_rotation ? mul(R, local) : local;
        return Vec3{{d[0] + t[0], d[1] + t[1], d[2] + t[2]}};
    }
};

inline Xform make_xform(celeritas::VariantTransform const& vt)
{
    Xform x;
    std::visit(
        [&x](auto const& tr) {
            using T = std::decay_t<decltype(tr)>;
            if constexpr (std::is_same_v<T, celeritas::Translation>)
            {
                for (int i = 0; i < 3; ++i)
                    x.t[i] = ld(tr.translation()[i]);
                x.has_translation = true;
            }
            else if constexpr (std::is_same_v<T, celeritas::Transformation>)
            {
                for (int i = 0; i < 3; ++i)
                {
                    x.t[i] = ld(tr.translation()[i]);
                    for (int j = 0; j < 3; ++j)
                        x.R.m[i][j] = ld(tr.rotation()[i][j]);
                }
                x.has_rotation = true;
                x.has_translation = true;
            }
        },
        vt);
    return x;
}

//---------------------------------------------------------------------------//
struct LevelEntry
{
    int universe = -1;
    int volume = -1;  // local volume (array: linear cell index); -1 = nowhere
    Vec3 local_pos;  // point in this universe's frame
    Mat3 rot_to_global;  // accumulated rotation: v_global = rot_to_global * v_local
    Vec3 origin_global;  // x_global = rot_to_global * x_local + origin_global
    bool is_array = false;

    Vec3 to_global(Vec3 const& local) const
    {
        Vec3 g = mul(rot_to_global, local);
        return Vec3{{g[0] + origin_global[0], g[1] + origin_global[1], g[2] + origin_global[2]}};
    }
};

struct NearSurface
{
    int level = -1;
    int universe = -1;
    int surface = -1;  // local surface index; arrays: 1000000*(axis+1) + plane index
    std::string type;  // "px", "sc", ... or "grid"
    ld dist = std::numeric_limits<ld>::infinity();  // lower bound of distance (>= 0)
    ld f = 0;  // signed (sense)
    Vec3 normal_global;  // unit grad direction rotated to the global frame (0 if undefined)
    bool on_special = false;  // local point exactly on the centre/axis/apex of this surface
    ld axis_dist = -1;  // spheres / cylinders: distance from the centre / axis (else -1)
    bool is_face = false;  // surface is a face of the volume found at its level
};

struct Result
{
    std::vector<LevelEntry> path;
    long global_volume = -1;  // OrangeParams-compatible id of the deepest volume (-1 nowhere)
    ld margin = std::numeric_limits<ld>::infinity();
    NearSurface nearest;  // surface attaining the margin
    // Only if a direction was given: lower bound of the ray parameter t > 0 at which the
    // sense of any surface on the path can change along pos + t*dir (planes and grid planes:
    // exact intersection parameter, +inf when heading away/parallel; curved: `dist`).
    // The instance path is constant for t in [0, ray_margin).
    ld ray_margin = std::numeric_limits<ld>::infinity();
    bool overlap = false;
    bool nowhere = false;
    bool bad_logic = false;
    ld array_overshoot = 0;  // > 0: point beyond the outer planes of a rect array by this much
    std::vector<NearSurface> near;  // surfaces with dist < near_radius (if requested)

    bool outside() const { return path.empty() || path.front().volume == 0; }
    bool valid() const { return !overlap && !nowhere && !bad_logic; }
    // Same instance path (universe, volume at every level)?
    bool same_path(Result const& o) const
    {
        if (path.size() != o.path.size())
            return false;
        for (std::size_t i = 0; i < path.size(); ++i)
            if (path[i].universe != o.path[i].universe || path[i].volume != o.path[i].volume)
                return false;
        return true;
    }
    std::string path_string() const
    {
        std::string s;
        for (auto const& e : path)
            s += (s.empty() ? "" : "/") + std::to_string(e.universe) + ":" + std::to_string(e.volume);
        return s;
    }
};

//---------------------------------------------------------------------------//
class RefLocator
{
  public:
    explicit RefLocator(celeritas::OrangeInput const& inp)
    {
        using namespace celeritas;
        long offset = 0;
        units_.resize(inp.universes.size());
        for (std::size_t ui = 0; ui < inp.universes.size(); ++ui)
        {
            Univ& U = units_[ui];
            U.volume_offset = offset;
            if (auto const* u = std::get_if<UnitInput>(&inp.universes[ui]))
            {
                U.is_array = false;
                U.surfaces = u->surfaces;
                U.used.assign(u->surfaces.size(), false);
                U.volumes.resize(u->volumes.size());
                for (std::size_t vi = 0; vi < u->volumes.size(); ++vi)
                {
                    auto const& v = u->volumes[vi];
                    Vol& V = U.volumes[vi];
                    for (auto f : v.faces)
                    {
                        V.faces.push_back(int(f.unchecked_get()));
                        if (f.unchecked_get() < U.used.size())
                            U.used[f.unchecked_get()] = true;
                    }
                    V.logic.assign(v.logic.begin(), v.logic.end());
                    V.background = (v.zorder == ZOrder::background);
                    V.flags = v.flags;
                }
                // the background (if any) is the last volume
                U.background = -1;
                if (!U.volumes.empty() && U.volumes.back().background)
                    U.background = int(U.volumes.size()) - 1;
                for (auto const& kv : u->daughter_map)
                {
                    Daughter d;
                    d.universe = int(kv.second.universe_id.unchecked_get());
                    d.xf = make_xform(kv.second.transform);
                    std::size_t vol = kv.first.unchecked_get();
                    if (vol < U.volumes.size())
                    {
                        U.volumes[vol].daughter = int(U.daughters.size());
                        U.daughters.push_back(d);
                    }
                }
                offset += long(u->volumes.size());
            }
            else
            {
                auto const& r = std::get<RectArrayInput>(inp.universes[ui]);
                U.is_array = true;
                for (int ax = 0; ax < 3; ++ax)
                    U.grid[ax].assign(r.grid[ax].begin(), r.grid[ax].end());
                for (auto const& din : r.daughters)
                {
                    Daughter d;
                    d.universe = int(din.universe_id.unchecked_get());
                    d.xf = make_xform(din.transform);
                    U.daughters.push_back(d);
                }
                offset += long(r.daughters.size());
            }
        }
        num_volumes_ = offset;
        tol_rel_ = inp.tol.rel;
        tol_abs_ = inp.tol.abs;
    }

    long num_volumes() const { return num_volumes_; }
    std::size_t num_universes() const { return units_.size(); }
    long volume_offset(int universe) const { return units_[universe].volume_offset; }
    double tol_rel() const { return tol_rel_; }
    double tol_abs() const { return tol_abs_; }
    // documented geometry tolerance at a position: max(abs, rel * max|x_i|)
    double tolerance_at(double const* pos) const
    {
        double r = tol_abs_;
        for (int i = 0; i < 3; ++i)
            r = std::max(r, tol_rel_ * std::fabs(pos[i]));
        return r;
    }

    // Volume flags and simple descriptors (for coverage cells)
    unsigned volume_flags(int universe, int volume) const
    {
        auto const& U = units_[universe];
        if (U.is_array || volume < 0 || volume >= int(U.volumes.size()))
            return 0;
        return U.volumes[volume].flags;
    }
    bool is_array(int universe) const { return units_[universe].is_array; }
    bool is_background(int universe, int volume) const
    {
        auto const& U = units_[universe];
        return !U.is_array && volume >= 0 && volume == U.background;
    }
    // transform kind of the daughter placed in (universe, volume): 0 none/identity,
    // 1 translation, 2 rotation(+translation), -1 no daughter
    int daughter_transform_kind(int universe, int volume) const
    {
        auto const& U = units_[universe];
        int di = -1;
        if (U.is_array)
            di = volume;
        else if (volume >= 0 && volume < int(U.volumes.size()))
            di = U.volumes[volume].daughter;
        if (di < 0 || di >= int(U.daughters.size()))
            return -1;
        auto const& x = U.daughters[di].xf;
        return x.has_rotation ? 2 : (x.has_translation ? 1 : 0);
    }

    //-----------------------------------------------------------------------//
    // Locate a global point. near_radius > 0 additionally fills Result::near with every
    // surface (on the path) whose distance bound is below near_radius.
    Result locate(ld const* pos, ld near_radius = 0, ld const* dir = nullptr) const
    {
        Result res;
        ld const inf = std::numeric_limits<ld>::infinity();
        Vec3 p{{pos[0], pos[1], pos[2]}};
        Vec3 dl;  // direction in the local frame
        if (dir)
            dl = Vec3{{dir[0], dir[1], dir[2]}};
        Mat3 rot;  // identity
        Vec3 org;  // global position of the local origin
        int ui = 0;
        for (int level = 0; level < 64; ++level)
        {
            Univ const& U = units_[ui];
            LevelEntry e;
            e.universe = ui;
            e.local_pos = p;
            e.rot_to_global = rot;
            e.origin_global = org;
            e.is_array = U.is_array;
            Daughter const* dau = nullptr;
            if (U.is_array)
            {
                int idx[3];
                for (int ax = 0; ax < 3; ++ax)
                {
                    auto const& g = U.grid[ax];
                    int n = int(g.size());
                    // cell search: largest i with g[i] <= x, clamped to valid cells
                    int i = 0;
                    while (i + 2 < n && ld(g[i + 1]) <= p[ax])
                        ++i;
                    idx[ax] = i;
                    if (p[ax] < ld(g.front()))
                        res.array_overshoot = std::max(res.array_overshoot, ld(g.front()) - p[ax]);
                    if (p[ax] > ld(g.back()))
                        res.array_overshoot = std::max(res.array_overshoot, p[ax] - ld(g.back()));
                    // interior planes only
                    for (int k = 1; k + 1 < n; ++k)
                    {
                        ld f = p[ax] - ld(g[k]);
                        ld d = std::fabs(f);
                        bool is_face = (k == i || k == i + 1);
                        if (dir)
                        {
                            ld t = (f == 0) ? 0 : ((f * dl[ax] < 0) ? -f / dl[ax] : inf);
                            res.ray_margin = std::min(res.ray_margin, t);
                        }
                        if (d < res.margin || d < near_radius)
                        {
                            NearSurface ns;
                            ns.level = level;
                            ns.universe = ui;
                            ns.surface = 1000000 * (ax + 1) + k;
                            ns.type = "grid";
                            ns.dist = d;
                            ns.f = f;
                            Vec3 nl;
                            nl[ax] = 1;
                            ns.normal_global = mul(rot, nl);
                            ns.is_face = is_face;
                            if (d < res.margin)
                            {
                                res.margin = d;
                                res.nearest = ns;
                            }
                            if (d < near_radius)
                                res.near.push_back(ns);
                        }
                    }
                }
                int ny = int(U.grid[1].size()) - 1, nz = int(U.grid[2].size()) - 1;
                e.volume = (idx[0] * ny + idx[1]) * nz + idx[2];
                if (e.volume >= 0 && e.volume < int(U.daughters.size()))
                    dau = &U.daughters[e.volume];
            }
            else
            {
                // senses of all used surfaces
                std::size_t ns = U.surfaces.size();
                std::vector<SurfValue> val(ns);
                std::vector<char> sense(ns, 0);
                for (std::size_t si = 0; si < ns; ++si)
                {
                    if (!U.used[si])
                        continue;
                    val[si] = eval_surface(U.surfaces[si], p);
                    sense[si] = val[si].f > 0 ? 1 : 0;
                }
                // volume search: every volume, own logic evaluation
                int found = -1;
                for (std::size_t vi = 0; vi < U.volumes.size(); ++vi)
                {
                    Vol const& V = U.volumes[vi];
                    if (V.background)
                        continue;
                    bool ok = true;
                    bool in = eval_logic(V, sense, ok);
                    if (!ok)
                        res.bad_logic = true;
                    if (in)
                    {
                        if (found < 0)
                            found = int(vi);
                        else
                            res.overlap = true;
                    }
                }
                if (found < 0)
                    found = U.background;
                e.volume = found;
                // margins over all used surfaces
                for (std::size_t si = 0; si < ns; ++si)
                {
                    if (!U.used[si])
                        continue;
                    ld d = val[si].dist;
                    if (dir)
                    {
                        ld t = d;
                        if (val[si].planar)
                        {
                            ld nd = dot(val[si].normal, dl);
                            ld f = val[si].f;
                            t = (f == 0) ? 0 : ((f * nd < 0) ? -f / nd : inf);
                        }
                        res.ray_margin = std::min(res.ray_margin, t);
                    }
                    if (d < res.margin || d < near_radius)
                    {
                        NearSurface nsf;
                        nsf.level = level;
                        nsf.universe = ui;
                        nsf.surface = int(si);
                        nsf.type = surface_type_name(surface_type(U.surfaces[si]));
                        nsf.dist = d;
                        nsf.f = val[si].f;
                        nsf.normal_global = mul(rot, val[si].normal);
                        nsf.on_special = val[si].on_special;
                        nsf.axis_dist = val[si].axis_dist;
                        if (found >= 0)
                            for (int f : U.volumes[found].faces)
                                if (f == int(si))
                                    nsf.is_face = true;
                        if (d < res.margin)
                        {
                            res.margin = d;
                            res.nearest = nsf;
                        }
                        if (d < near_radius)
                            res.near.push_back(nsf);
                    }
                }
                if (found >= 0 && U.volumes[found].daughter >= 0)
                    dau = &U.daughters[U.volumes[found].daughter];
            }
            res.path.push_back(e);
            if (e.volume < 0)
            {
                res.nowhere = true;
                break;
            }
            if (!dau)
                break;
            // descend
            p = dau->xf.down(p);
            if (dir)
                dl = dau->xf.rotate_down(dl);
            {
                Vec3 rt = mul(rot, dau->xf.t);
                org = Vec3{{org[0] + rt[0], org[1] + rt[1], org[2] + rt[2]}};
            }
            if (dau->xf.has_rotation)
                rot = mul(rot, dau->xf.R);
            ui = dau->universe;
            if (ui < 0 || ui >= int(units_.size()))
            {
                res.nowhere = true;
                break;
            }
        }
        if (!res.path.empty() && res.path.back().volume >= 0)
            res.global_volume = units_[res.path.back().universe].volume_offset + res.path.back().volume;
        return res;
    }

    Result locate(double const* pos, ld near_radius = 0, double const* dir = nullptr) const
    {
        ld p[3] = {pos[0], pos[1], pos[2]};
        if (!dir)
            return locate(p, near_radius);
        ld d[3] = {dir[0], dir[1], dir[2]};
        return locate(p, near_radius, d);
    }

    // daughter-to-parent transform of the daughter placed in (universe, volume)
    // (identity if there is none)
    Xform daughter_xform(int universe, int volume) const
    {
        auto const& U = units_[universe];
        int di = -1;
        if (U.is_array)
            di = volume;
        else if (volume >= 0 && volume < int(U.volumes.size()))
            di = U.volumes[volume].daughter;
        if (di < 0 || di >= int(U.daughters.size()))
            return Xform{};
        return U.daughters[di].xf;
    }

    // Faces (local surface indices) and their types of a unit volume: for classification
    struct FaceInfo
    {
        int surface;
        celeritas::SurfaceType type;
    };
    std::vector<FaceInfo> faces(int universe, int volume) const
    {
        std::vector<FaceInfo> r;
        auto const& U = units_[universe];
        if (U.is_array || volume < 0 || volume >= int(U.volumes.size()))
            return r;
        for (int f : U.volumes[volume].faces)
            if (f >= 0 && f < int(U.surfaces.size()))
                r.push_back({f, surface_type(U.surfaces[f])});
        return r;
    }
    celeritas::VariantSurface const& surface(int universe, int s) const { return units_[universe].surfaces[s]; }

  private:
    struct Daughter
    {
        int universe = -1;
        Xform xf;
    };
    struct Vol
    {
        std::vector<int> faces;
        std::vector<celeritas::logic_int> logic;
        bool background = false;
        unsigned flags = 0;
        int daughter = -1;
    };
    struct Univ
    {
        bool is_array = false;
        long volume_offset = 0;
        std::vector<celeritas::VariantSurface> surfaces;
        std::vector<char> used;
        std::vector<Vol> volumes;
        int background = -1;
        std::vector<Daughter> daughters;
        std::vector<double> grid[3];
    };

    // Own RPN evaluator: operands are face indices (-> sense of faces[idx]) or "true"
    static bool eval_logic(Vol const& V, std::vector<char> const& sense, bool& ok)
    {
        using namespace celeritas;
        bool stack[128];
        int sp = 0;
        for (logic_int tok : V.logic)
        {
            if (tok < logic::lbegin)
            {
                if (tok >= V.faces.size() || sp >= 128)
                {
                    ok = false;
                    return false;
                }
                stack[sp++] = sense[V.faces[tok]] != 0;
            }
            else if (tok == logic::ltrue)
            {
                if (sp >= 128)
                {
                    ok = false;
                    return false;
                }
                stack[sp++] = true;
            }
            else if (tok == logic::lnot)
            {
                if (sp < 1)
                {
                    ok = false;
                    return false;
                }
                stack[sp - 1] = !stack[sp - 1];
            }
            else if (tok == logic::land || tok == logic::lor)
            {
                if (sp < 2)
                {
                    ok = false;
                    return false;
                }
                bool b = stack[--sp];
                bool a = stack[sp - 1];
                stack[sp - 1] = (tok == logic::land) ? (a && b) : (a || b);
            }
            else
            {
                ok = false;  // parentheses are not part of the postfix input
                return false;
            }
        }
        if (sp != 1)
        {
            ok = false;
            return false;
        }
        return stack[0];
    }

    std::vector<Univ> units_;
    long num_volumes_ = 0;
    double tol_rel_ = 0, tol_abs_ = 0;
};

}  // namespace refloc
}  // namespace verif
