#!/bin/bash
# Apply a seeded change to /repo, run the check(s) of its property, undo the change.
#   bin/try_seeded.sh <seeded-id> [property ...]      (default property: from meta.json)
# Prints the VIOLATION lines and the exit code of every check; /repo is restored even when a
# check fails.  Used for self-validation only (never by the registered checks).
set -u
cd "$(dirname "$0")/.."
id="${1:?seeded id}"; shift
dir="seeded/$id"
[ -f "$dir/patch.diff" ] || { echo "no $dir/patch.diff" >&2; exit 2; }
props=("$@")
if [ ${#props[@]} -eq 0 ]; then
  props=($(python3 -c "import json;m=json.load(open('$dir/meta.json'));p=m['property'];print(' '.join(p if isinstance(p,list) else [p]))"))
fi
if [ -n "$(git -C /repo status --porcelain --untracked-files=no)" ]; then
  echo "/repo has uncommitted changes; refusing" >&2; exit 2
fi
git -C /repo apply "$PWD/$dir/patch.diff" || { echo "patch does not apply" >&2; exit 2; }
trap 'git -C /repo checkout -- . ' EXIT
rc_all=0
for p in "${props[@]}"; do
  out=$(VERIF_TIER="${VERIF_TIER:-quick}" bin/check "$p" 2>/dev/null)
  rc=$?
  echo "== seeded/$id vs $p: exit $rc"
  echo "$out" | grep -E "^(VIOLATION|FAIL|OK|INCONCLUSIVE|HARNESS)" | cut -c1-220
  [ $rc -eq 1 ] || rc_all=1
done
exit $rc_all
