#!/bin/bash
# Like bin/try_seeded.sh but against the scratch worktree (outside /repo and /verif) with its
# own build root and evidence directory, so that it can run while other checks use /repo:
#   bin/try_seeded_scratch.sh <seeded-id> [property ...]
# Self-validation only; the result that counts is bin/try_seeded.sh (patch applied to /repo).
set -u
cd "$(dirname "$0")/.."
id="${1:?seeded id}"; shift
dir="$PWD/seeded/$id"
WT="${VERIF_SCRATCH_WT:-/var/tmp/lead/wt}"
export VERIF_REPO="$WT" VERIF_BUILD_ROOT="${VERIF_SCRATCH_BUILD:-/var/tmp/lead/vb}" VERIF_EVIDENCE_DIR="${VERIF_SCRATCH_EV:-/var/tmp/lead/ev}"
props=("$@")
if [ ${#props[@]} -eq 0 ]; then
  props=($(python3 -c "import json;m=json.load(open('$dir/meta.json'));p=m['property'];print(' '.join(p if isinstance(p,list) else [p]))"))
fi
git -C "$WT" checkout -q -- . || exit 2
git -C "$WT" apply "$dir/patch.diff" || { echo "patch does not apply" >&2; exit 2; }
trap 'git -C "$WT" checkout -q -- . ' EXIT
rc_all=0
for p in "${props[@]}"; do
  out=$(VERIF_TIER="${VERIF_TIER:-quick}" bin/check "$p" 2>/dev/null)
  rc=$?
  echo "== seeded/$id vs $p (scratch): exit $rc"
  echo "$out" | grep -E "^(VIOLATION|FAIL|OK|INCONCLUSIVE|HARNESS)" | cut -c1-220
  [ $rc -eq 1 ] || rc_all=1
done
exit $rc_all
