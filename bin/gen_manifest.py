#!/usr/bin/env python3
"""Generate MANIFEST.json from config/checks.json (single source of truth)."""
import json, os
root = os.path.dirname(os.path.dirname(os.path.abspath(__file__)))
import sys
sys.path.insert(0, os.path.join(root, "bin"))
import verifcfg
cfg = verifcfg.load()
props = [json.loads(l) for l in open(os.path.join(root, "properties.jsonl"))]
checks, na = [], []
for p in props:
    pid = p["id"]
    c = cfg["checks"].get(pid)
    if not c or c.get("disabled"):
        na.append({"property_id": pid, "reason": (c or {}).get("na_reason") or cfg.get("na_default", {}).get(pid) or
                   "no check registered yet: the monitor for this property is not built in the committed tree (design in DESIGN.md section 4); nothing is claimed"})
        continue
    m = c["manifest"]
    checks.append({
        "property_id": pid,
        "quick_cmd": "bin/check %s --tier quick" % pid,
        "thorough_cmd": "bin/check %s --tier thorough" % pid,
        "evidence_file": "/verif/evidence/%s.json" % pid,
        "replay_cmd_template": "bin/check %s --replay {path}" % pid,
        "engine": c["engine"],
        "level_claimed": {"category": c.get("level", "exploration"), "text": m["text"], "design_ref": m.get("design_ref", "DESIGN.md section 4, " + pid)},
        "level_note": m["note"],
        "technique": m["technique"],
    })
engines = {}
for pid, c in cfg["checks"].items():
    if c.get("disabled"): continue
    e = engines.setdefault(c["engine"], {"name": c["engine"], "path": "engines/%s" % c["engine"], "serves_properties": [], "kind_free_text": cfg.get("engine_kinds", {}).get(c["engine"], "C++ harness driving the real celeritas code with online monitors")})
    e["serves_properties"].append(pid)
man = {
    "version": 1,
    "setup_cmd": "bin/setup.sh",
    "hooks": cfg["hooks"],
    "engines": sorted(engines.values(), key=lambda e: e["name"]),
    "checks": checks,
    "notes": cfg.get("notes", ""),
    "not_applicable": na,
}
json.dump(man, open(os.path.join(root, "MANIFEST.json"), "w"), indent=1)
print("MANIFEST.json: %d checks, %d not_applicable" % (len(checks), len(na)))
