#!/bin/bash
# One-time setup after a fresh restore: build all three variants (celeritas + engines).
# Variants are built one after another (each uses all cores).
cd "$(dirname "$0")/.."
rc=0
for v in plain asan tsan; do
  bin/build.sh "$v" || rc=2
done
exit $rc
