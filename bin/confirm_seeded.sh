#!/bin/bash
# Confirm a candidate seeded change in the scratch worktree (outside /repo and /verif):
#   bin/confirm_seeded.sh <dir with patch.diff, build_demo.sh> [ctest regex]
# 1. demo passes on the unchanged worktree  2. patch applies, tree builds, existing tests pass
# 3. demo fails with the patch.  The worktree is restored afterwards.
set -u
src="${1:?candidate dir}"; regex="${2:-.}"
WT="${VERIF_SCRATCH_WT:-/var/tmp/lead/wt}"
B="$WT/_build"
cd "$WT" || exit 2
git checkout -q -- . && git clean -fdq -e _build
echo "--- demo on unchanged tree"
( cd "$src" && bash ./build_demo.sh "$WT" "$B" ) > "$src/confirm_demo_clean.log" 2>&1; rc_clean=$?
echo "demo(clean) exit $rc_clean"
git apply "$src/patch.diff" || { echo "patch does not apply"; exit 2; }
echo "--- build with patch"
cmake --build "$B" -j "${VERIF_JOBS:-16}" -- -k 0 > "$src/confirm_build.log" 2>&1
echo "build exit $? ($(grep -c 'FAILED:' "$src/confirm_build.log") failed targets)"
echo "--- existing tests with patch"
ctest --test-dir "$B" -R "$regex" -j 12 --timeout 900 > "$src/confirm_ctest.log" 2>&1
grep -E "tests passed|\*\*\*Failed|\*\*\*Exception|\*\*\*Timeout" "$src/confirm_ctest.log" | head -20
echo "--- demo with patch"
( cd "$src" && bash ./build_demo.sh "$WT" "$B" ) > "$src/confirm_demo_patched.log" 2>&1; rc_pat=$?
echo "demo(patched) exit $rc_pat"
git checkout -q -- . && git clean -fdq -e _build
cmake --build "$B" -j "${VERIF_JOBS:-16}" -- -k 0 > /dev/null 2>&1
[ $rc_clean -eq 0 ] && [ $rc_pat -ne 0 ] && echo "CONFIRMED" || echo "NOT CONFIRMED"
