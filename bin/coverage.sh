#!/bin/bash
# Reach measurement (not a check): which lines of each property's anchored source files do
# the quick-tier workloads of that property's check actually execute?
#   bin/coverage.sh [Cxx ...]          (default: all claimed properties)
# Builds the plain variant once more with gcc --coverage in a separate build root
# (_build/covroot/plain), runs only the plain runs of each check there, and aggregates the
# gcov line counts of the anchored files (a header is counted over every translation unit
# that includes it, harness included: the header-only kernels are compiled into the engines).
# Output: notes/anchor_coverage.json + notes/anchor_coverage.md.  Verdicts of these runs are
# ignored (evidence goes to a scratch directory); the registered checks are unaffected.
set -u
cd "$(dirname "$0")/.."
ROOT="$PWD"
export VERIF_BUILD_ROOT="$ROOT/_build/covroot"
export VERIF_EXTRA_FLAGS="--coverage -fprofile-update=atomic"
export VERIF_ONLY_VARIANT=plain
export VERIF_EVIDENCE_DIR="$VERIF_BUILD_ROOT/evidence"
mkdir -p "$VERIF_EVIDENCE_DIR" "$VERIF_BUILD_ROOT/cov"
props=("$@")
if [ ${#props[@]} -eq 0 ]; then
  props=($(python3 -c "import json;print(' '.join(c['property_id'] for c in json.load(open('MANIFEST.json'))['checks']))"))
fi
bin/build.sh plain || exit 2
for p in "${props[@]}"; do
  find "$VERIF_BUILD_ROOT/plain" -name '*.gcda' -delete
  t0=$(date +%s)
  VERIF_TIER="${VERIF_TIER:-quick}" bin/check "$p" > "$VERIF_BUILD_ROOT/cov/$p.out" 2>&1
  echo "[coverage] $p check exit $? in $(( $(date +%s) - t0 )) s"
  python3 bin/coverage_report.py collect "$p" "$VERIF_BUILD_ROOT/plain" "$VERIF_BUILD_ROOT/cov/$p.lines.json" || exit 2
done
python3 bin/coverage_report.py report "$VERIF_BUILD_ROOT/cov" notes/anchor_coverage.json notes/anchor_coverage.md
