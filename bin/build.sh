#!/bin/bash
# Configure + build one variant of (celeritas from $VERIF_REPO working tree + harness
# engines).  Usage: build.sh <variant> [target ...]
#   variant: plain | asan | tsan
# Serialised per variant with flock so concurrent checks can share a build tree.
set -u
variant="${1:?variant}"; shift
targets=("$@")
VERIF_ROOT="$(cd "$(dirname "$0")/.." && pwd)"
REPO="${VERIF_REPO:-/repo}"
BROOT="${VERIF_BUILD_ROOT:-$VERIF_ROOT/_build}"
B="$BROOT/$variant"
mkdir -p "$B"
JOBS="${VERIF_JOBS:-16}"

case "$variant" in
  plain) FLAGS="-O2 -g1 -DNDEBUG -DCELERITAS_VERIF" ;;
  asan)  FLAGS="-O1 -g1 -fno-omit-frame-pointer -fsanitize=address,undefined -fno-sanitize-recover=all -DCELERITAS_VERIF" ;;
  tsan)  FLAGS="-O1 -g1 -fno-omit-frame-pointer -fsanitize=thread -DCELERITAS_VERIF" ;;
  *) echo "unknown variant $variant" >&2; exit 2 ;;
esac
# measurement builds only (bin/coverage.sh): extra flags such as --coverage, in a separate build root
FLAGS="$FLAGS${VERIF_EXTRA_FLAGS:+ $VERIF_EXTRA_FLAGS}"

exec 9>"$B/.lock"
flock 9

log="$B/build.log"
# configuration key: repo, explicit engine list, and the set of engines that register checks
cfgkey="$REPO|${VERIF_ENGINES:-}|${VERIF_EXTRA_FLAGS:-}|$(cd "$VERIF_ROOT" && ls engines/*/checks.json 2>/dev/null | tr '\n' ' ')"
do_build() {
  if [ ! -f "$B/build.ninja" ] || [ "$(cat "$B/.repo" 2>/dev/null)" != "$cfgkey" ]; then
    if [ "$(cut -d'|' -f1 "$B/.repo" 2>/dev/null)" != "$REPO" ]; then
      rm -rf "$B/CMakeCache.txt" "$B/CMakeFiles"
    fi
    cmake -G Ninja -S "$VERIF_ROOT/cmake" -B "$B" \
      -DVERIF_REPO="$REPO" -DVERIF_VARIANT="$variant" \
      -DCMAKE_BUILD_TYPE=None -DCMAKE_CXX_COMPILER=/usr/bin/g++ \
      -DCMAKE_CXX_FLAGS="$FLAGS -Wno-error" \
      -Dnlohmann_json_DIR=/root/miniconda/share/cmake/nlohmann_json \
      -DVERIF_ENGINES="${VERIF_ENGINES:-}" \
      -DCMAKE_EXPORT_COMPILE_COMMANDS=OFF || return 2
    echo "$cfgkey" > "$B/.repo"
  fi
  if [ ${#targets[@]} -eq 0 ]; then
    cmake --build "$B" -j "$JOBS" || return 2
  else
    cmake --build "$B" -j "$JOBS" --target "${targets[@]}" || return 2
  fi
  return 0
}
do_build > "$log" 2>&1
rc=$?
if [ $rc -ne 0 ]; then
  echo "BUILD FAILED variant=$variant (see $log)" >&2
  tail -40 "$log" >&2
  exit 2
fi
exit 0
