#!/usr/bin/env python3
"""Aggregate gcov line counts for the anchored files of a property (see bin/coverage.sh).

  coverage_report.py collect <Cxx> <build dir> <out.json>
  coverage_report.py report  <dir with *.lines.json> <out.json> <out.md>
"""
import concurrent.futures as cf
import json
import os
import subprocess
import sys

ROOT = os.path.dirname(os.path.dirname(os.path.abspath(__file__)))
REPO = os.environ.get("VERIF_REPO", "/repo")


def anchors(prop):
    for line in open(os.path.join(ROOT, "properties.jsonl")):
        d = json.loads(line)
        if d["id"] == prop:
            return d["anchors"]["files"]
    raise SystemExit("unknown property " + prop)


def gcov_json(gcda):
    d = os.path.dirname(gcda)
    r = subprocess.run(["gcov", "--json-format", "--stdout", os.path.basename(gcda)], cwd=d,
                       stdout=subprocess.PIPE, stderr=subprocess.DEVNULL)
    out = []
    for chunk in r.stdout.decode(errors="replace").splitlines():
        chunk = chunk.strip()
        if not chunk.startswith("{"):
            continue
        try:
            out.append(json.loads(chunk))
        except ValueError:
            pass
    return out


def collect(prop, bdir, outp):
    want = {os.path.realpath(os.path.join(REPO, f)): f for f in anchors(prop)}
    gcdas = []
    for dp, _, fs in os.walk(bdir):
        gcdas += [os.path.join(dp, f) for f in fs if f.endswith(".gcda")]
    inst = {f: set() for f in want.values()}
    hit = {f: set() for f in want.values()}
    fn_hit = {f: {} for f in want.values()}
    with cf.ThreadPoolExecutor(max_workers=16) as ex:
        for docs in ex.map(gcov_json, gcdas):
            for doc in docs:
                cwd = doc.get("current_working_directory", "")
                for fe in doc.get("files", []):
                    p = fe["file"]
                    if not os.path.isabs(p):
                        p = os.path.join(cwd, p)
                    key = want.get(os.path.realpath(p))
                    if key is None:
                        continue
                    for ln in fe.get("lines", []):
                        inst[key].add(ln["line_number"])
                        if ln["count"] > 0:
                            hit[key].add(ln["line_number"])
                    for fn in fe.get("functions", []):
                        name = fn.get("demangled_name") or fn.get("name")
                        fn_hit[key][name] = fn_hit[key].get(name, 0) + fn.get("execution_count", 0)
    res = {"property": prop, "gcda_files": len(gcdas), "files": {}}
    for f in want.values():
        missed = sorted(inst[f] - hit[f])
        res["files"][f] = {
            "instrumented_lines": len(inst[f]), "executed_lines": len(hit[f]), "missed_lines": missed,
            "functions": len(fn_hit[f]),
            "functions_never_called": sorted(n for n, c in fn_hit[f].items() if c == 0)[:200],
            "built": bool(inst[f]),
        }
    json.dump(res, open(outp, "w"), indent=1)
    tot = sum(v["instrumented_lines"] for v in res["files"].values())
    got = sum(v["executed_lines"] for v in res["files"].values())
    print("[coverage] %s: %d/%d instrumented lines of %d anchored files executed (%d gcda)"
          % (prop, got, tot, len(want), len(gcdas)))


def ranges(nums):
    out, start, prev = [], None, None
    for n in nums:
        if start is None:
            start = prev = n
        elif n <= prev + 2:
            prev = n
        else:
            out.append((start, prev)); start = prev = n
    if start is not None:
        out.append((start, prev))
    return ",".join("%d" % a if a == b else "%d-%d" % (a, b) for a, b in out)


def report(d, outj, outm):
    allres = {}
    for f in sorted(os.listdir(d)):
        if f.endswith(".lines.json"):
            r = json.load(open(os.path.join(d, f)))
            allres[r["property"]] = r
    json.dump(allres, open(outj, "w"), indent=1)
    with open(outm, "w") as md:
        md.write("# Lines of the anchored files executed by each check's quick-tier workload\n\n"
                 "Measured by `bin/coverage.sh` (gcc `--coverage` build of the plain variant, plain runs of the\n"
                 "check only; a header is counted over every translation unit that includes it). This is a\n"
                 "*reach* measurement: an executed line is one the monitors could observe, not one they judged.\n"
                 "Files marked *not built* are not part of the verification build (apps, device code).\n\n")
        for p, r in allres.items():
            tot = sum(v["instrumented_lines"] for v in r["files"].values())
            got = sum(v["executed_lines"] for v in r["files"].values())
            md.write("## %s — %d / %d lines (%.1f %%)\n\n| file | executed / instrumented | missed lines |\n|---|---|---|\n"
                     % (p, got, tot, 100.0 * got / max(tot, 1)))
            for f, v in r["files"].items():
                if not v["built"]:
                    md.write("| %s | *not built / no executable lines* | |\n" % f)
                    continue
                md.write("| %s | %d / %d | %s |\n" % (f, v["executed_lines"], v["instrumented_lines"],
                                                      ranges(v["missed_lines"])[:400]))
            md.write("\n")
    print("[coverage] wrote", outj, outm)


if __name__ == "__main__":
    if sys.argv[1] == "collect":
        collect(sys.argv[2], sys.argv[3], sys.argv[4])
    elif sys.argv[1] == "report":
        report(sys.argv[2], sys.argv[3], sys.argv[4])
    else:
        raise SystemExit(__doc__)
