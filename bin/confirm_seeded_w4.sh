#!/bin/bash
# Confirm a wave-4 candidate in the sub-agent's own scratch worktree (outside /repo, /verif):
#   bin/confirm_seeded_w4.sh <candidate dir> <worktree> <ctest regex>
# 1. demo passes on the unchanged worktree  2. patch applies, libraries + the test executables
# matching the regex build, those existing tests pass  3. demo fails with the patch.
# The worktree is restored afterwards.  (Waves 1-3 re-ran the complete suite in a lead
# worktree; in wave 4 the machine time went to the sub-agents' builds, so the existing tests
# re-run here are those of the component the patch touches -- the regex is recorded in
# meta.json.)
set -u
src="$(cd "${1:?candidate dir}" && pwd)"; WT="${2:?worktree}"; regex="${3:?ctest regex}"
B="$WT/_build"; J="${VERIF_JOBS:-12}"
cd "$WT" || exit 2
git checkout -q -- . || exit 2
tgts() { ctest --test-dir "$B" -N -R "$regex" 2>/dev/null | sed -n 's/^ *Test *#[0-9]*: *//p' | sed 's#[:].*##' | tr '/' '_' | sort -u; }
echo "--- libraries on the unchanged tree"
cmake --build "$B" -j "$J" --target celeritas orange geocel corecel > "$src/confirm_build_clean.log" 2>&1 || { echo "clean build failed"; exit 2; }
echo "--- demo on unchanged tree"
( cd "$src" && DEMO_OUT="$(mktemp -d /var/tmp/w4demo.XXXX)" bash ./build_demo.sh "$WT" "$B" ) > "$src/confirm_demo_clean.log" 2>&1; rc_clean=$?
echo "demo(clean) exit $rc_clean"
git apply "$src/patch.diff" || { echo "patch does not apply"; exit 2; }
echo "--- build with patch (libraries + matching tests)"
all=$(ninja -C "$B" -t targets all 2>/dev/null | sed 's/:.*//')
want=""
for t in $(tgts); do echo "$all" | grep -qx "$t" && want="$want $t"; done
cmake --build "$B" -j "$J" --target celeritas orange geocel corecel $want > "$src/confirm_build.log" 2>&1
echo "build exit $? ($(echo $want | wc -w) test targets, $(grep -c 'FAILED:' "$src/confirm_build.log") failed)"
echo "--- existing tests with patch: ctest -R '$regex'"
ctest --test-dir "$B" -R "$regex" -j 8 --timeout 900 > "$src/confirm_ctest.log" 2>&1
grep -E "tests passed|\*\*\*Failed|\*\*\*Exception|\*\*\*Timeout|Not Run" "$src/confirm_ctest.log" | head -20
echo "--- demo with patch"
( cd "$src" && DEMO_OUT="$(mktemp -d /var/tmp/w4demo.XXXX)" bash ./build_demo.sh "$WT" "$B" ) > "$src/confirm_demo_patched.log" 2>&1; rc_pat=$?
echo "demo(patched) exit $rc_pat"
git checkout -q -- .
rm -rf /var/tmp/w4demo.*
[ $rc_clean -eq 0 ] && [ $rc_pat -ne 0 ] && echo "CONFIRMED" || echo "NOT CONFIRMED"
