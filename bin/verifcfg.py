"""Load config/checks.json merged with every engines/*/checks.json fragment."""
import glob, json, os
ROOT = os.path.dirname(os.path.dirname(os.path.abspath(__file__)))

def load():
    cfg = json.load(open(os.path.join(ROOT, "config", "checks.json")))
    cfg.setdefault("checks", {})
    for p in sorted(glob.glob(os.path.join(ROOT, "engines", "*", "checks.json"))):
        frag = json.load(open(p))
        for k, v in frag.get("checks", {}).items():
            if k in cfg["checks"]:
                raise SystemExit("duplicate check config for %s in %s" % (k, p))
            cfg["checks"][k] = v
    return cfg
