#!/usr/bin/env python3
"""Validate MANIFEST.json and evidence/*.json against the schemas in /root/.vp"""
import json, sys, glob, os
try:
    import jsonschema
except ImportError:
    sys.path.insert(0, "/opt/veriftools/pyvenv/lib/python3.11/site-packages")
    import jsonschema
root = os.path.dirname(os.path.dirname(os.path.abspath(__file__)))
ok = True
def check(path, schema):
    global ok
    try:
        jsonschema.validate(json.load(open(path)), json.load(open(schema)))
        print("valid  ", path)
    except Exception as e:
        ok = False
        print("INVALID", path, str(e)[:400])
check(os.path.join(root, "MANIFEST.json"), "/root/.vp/MANIFEST.schema.json")
for p in sorted(glob.glob(os.path.join(root, "evidence", "*.json"))):
    check(p, "/root/.vp/EVIDENCE.schema.json")
m = json.load(open(os.path.join(root, "MANIFEST.json")))
props = [json.loads(l)["id"] for l in open(os.path.join(root, "properties.jsonl"))]
claimed = [c["property_id"] for c in m["checks"]]
na = [c["property_id"] for c in m.get("not_applicable", [])]
for p in props:
    if (p in claimed) == (p in na):
        ok = False
        print("property", p, "must be in exactly one of checks / not_applicable")
sys.exit(0 if ok else 1)
