// Engine `csg` -- property C10: CSG logic rewriting and encoding preserve the region's
// boolean function.
//
// Real code driven: orangeinp::CsgTree (insert / exchange / simplify), orangeinp::simplify,
// simplify_up, replace_and_simplify, transform_negated_joins (DeMorganSimplifier),
// calc_surfaces, build_infix_string (InfixStringBuilder), oid::PostfixLogicBuilder (with
// and without surface remapping), detail::InternalSurfaceFlagger, detail::SenseEvaluator,
// and the run-time evaluators rt::LogicEvaluator / LogicStack /
// InfixEvaluator, plus OrangeParams' refusal of logic deeper than the logic stack.
//
// Oracle: a truth-table model.  Every generated expression is built twice: in the real
// CsgTree and in a harness-side model whose value is a bit vector over ALL 2^n sense
// assignments (n <= 12; 4096 sampled assignments for larger n).  The meaning of the
// "original" is what the model says the inserted expression means (never what the tree
// stores).  Rewritten trees are evaluated by an own recursive evaluator of the Node variant
// types; logic vectors by the real LogicEvaluator AND by an own bit-parallel postfix
// interpreter (to attribute a mismatch to builder or evaluator).
#include <algorithm>
#include <array>
#include <cctype>
#include <cstdint>
#include <functional>
#include <sstream>
#include <string>
#include <utility>
#include <variant>
#include <vector>

#include "corecel/Assert.hh"
#include "corecel/cont/Span.hh"
#include "orange/OrangeInput.hh"
#include "orange/OrangeParams.hh"
#include "orange/OrangeTypes.hh"
#include "orange/orangeinp/CsgTree.hh"
#include "orange/orangeinp/CsgTreeUtils.hh"
#include "orange/orangeinp/CsgTypes.hh"
#include "orange/orangeinp/detail/InternalSurfaceFlagger.hh"
#include "orange/orangeinp/detail/PostfixLogicBuilder.hh"
#include "orange/orangeinp/detail/SenseEvaluator.hh"
#include "orange/surf/PlaneAligned.hh"
#include "orange/surf/VariantSurface.hh"
#include "orange/univ/detail/InfixEvaluator.hh"
#include "orange/univ/detail/LogicEvaluator.hh"
#include "orange/univ/detail/LogicStack.hh"

#include "verif_celer.hh"
#include "verif_common.hh"

using namespace celeritas;
using namespace celeritas::orangeinp;
using verif::json;
using u64 = std::uint64_t;
namespace oid = celeritas::orangeinp::detail;
namespace rt = celeritas::detail;

namespace
{
//---------------------------------------------------------------------------//
// Truth tables: one bit per sense assignment.  NW words are live (set per case).
constexpr int MAXW = 64;  // 4096 assignments
int NW = 1;

struct TT
{
    u64 w[MAXW];
};

inline TT tt_fill(bool b)
{
    TT r;
    for (int i = 0; i < NW; ++i)
        r.w[i] = b ? ~u64(0) : u64(0);
    return r;
}
inline TT tt_not(TT const& a)
{
    TT r;
    for (int i = 0; i < NW; ++i)
        r.w[i] = ~a.w[i];
    return r;
}
inline void tt_and_eq(TT& a, TT const& b)
{
    for (int i = 0; i < NW; ++i)
        a.w[i] &= b.w[i];
}
inline void tt_or_eq(TT& a, TT const& b)
{
    for (int i = 0; i < NW; ++i)
        a.w[i] |= b.w[i];
}
inline bool tt_eq(TT const& a, TT const& b)
{
    for (int i = 0; i < NW; ++i)
        if (a.w[i] != b.w[i])
            return false;
    return true;
}
inline bool tt_any(TT const& a)
{
    for (int i = 0; i < NW; ++i)
        if (a.w[i])
            return true;
    return false;
}
inline bool tt_all(TT const& a)
{
    for (int i = 0; i < NW; ++i)
        if (~a.w[i])
            return false;
    return true;
}
inline bool tt_bit(TT const& a, int j)
{
    return (a.w[j >> 6] >> (j & 63)) & 1u;
}
// first assignment index where a and b differ inside mask, or -1
inline int tt_first_diff(TT const& a, TT const& b, TT const& mask)
{
    for (int i = 0; i < NW; ++i)
    {
        u64 d = (a.w[i] ^ b.w[i]) & mask.w[i];
        if (d)
            return i * 64 + __builtin_ctzll(d);
    }
    return -1;
}
inline int tt_first_set(TT const& a)
{
    for (int i = 0; i < NW; ++i)
        if (a.w[i])
            return i * 64 + __builtin_ctzll(a.w[i]);
    return -1;
}

//---------------------------------------------------------------------------//
// The set of sense assignments of one case
struct Assign
{
    int n = 0;
    bool exhaustive = true;
    int A = 64;
    std::vector<unsigned> sid;  // local index -> surface id
    std::vector<TT> col;  // local index -> value of the surface under each assignment

    int index_of(unsigned s) const
    {
        for (int i = 0; i < n; ++i)
            if (sid[i] == s)
                return i;
        return -1;
    }
    json describe(int j) const
    {
        json o = json::object();
        for (int i = 0; i < n; ++i)
            o[std::to_string(sid[i])] = tt_bit(col[i], j) ? "+" : "-";
        return o;
    }
};

void make_assign(Assign& as, std::vector<unsigned> const& sids, verif::Rng& rng)
{
    as.n = int(sids.size());
    as.sid = sids;
    as.col.assign(as.n, TT{});
    if (as.n <= 12)
    {
        as.exhaustive = true;
        as.A = std::max(64, 1 << as.n);
        NW = as.A / 64;
        static u64 const pat[6] = {0xAAAAAAAAAAAAAAAAull, 0xCCCCCCCCCCCCCCCCull,
                                   0xF0F0F0F0F0F0F0F0ull, 0xFF00FF00FF00FF00ull,
                                   0xFFFF0000FFFF0000ull, 0xFFFFFFFF00000000ull};
        for (int i = 0; i < as.n; ++i)
            for (int w = 0; w < NW; ++w)
                as.col[i].w[w] = i < 6 ? pat[i] : (((w >> (i - 6)) & 1) ? ~u64(0) : u64(0));
    }
    else
    {
        as.exhaustive = false;
        as.A = 4096;
        NW = 64;
        for (int i = 0; i < as.n; ++i)
        {
            for (int w = 0; w < NW; ++w)
                as.col[i].w[w] = rng.u64();
            // assignment 0: all inside, assignment 1: all outside
            as.col[i].w[0] = (as.col[i].w[0] & ~u64(3)) | u64(2);
        }
    }
}

//---------------------------------------------------------------------------//
char const* kind_of(Node const& n)
{
    static char const* const names[] = {"true", "false", "alias", "not", "surf", "join"};
    if (auto* j = std::get_if<Joined>(&n))
        return j->op == op_and ? "and" : (j->op == op_or ? "or" : "join?");
    return names[n.index()];
}

std::string tree_str(CsgTree const& t)
{
    std::ostringstream os;
    os << t;
    os << " volumes=[";
    for (auto v : t.volumes())
        os << v.unchecked_get() << ' ';
    os << ']';
    return os.str();
}

//---------------------------------------------------------------------------//
// Own recursive evaluator of the Node variants over all assignments at once.
struct TreeEval
{
    CsgTree const& t;
    Assign const& as;
    int flip = -1;  // local surface index whose sense is flipped (-1: none)
    std::vector<TT> memo;
    std::vector<unsigned char> st;
    bool cycle = false;
    bool bad_ref = false;
    bool unknown_surface = false;

    TreeEval(CsgTree const& tree, Assign const& a, int flip_index = -1)
        : t(tree), as(a), flip(flip_index), memo(tree.size()), st(tree.size(), 0)
    {
    }

    bool broken() const { return cycle || bad_ref || unknown_surface; }
    char const* why() const
    {
        return cycle ? "cycle" : bad_ref ? "dangling-node-id" : "unknown-surface";
    }

    TT const& operator()(NodeId nid)
    {
        static TT zero{};
        if (!nid || nid.unchecked_get() >= t.size())
        {
            bad_ref = true;
            return zero;
        }
        auto i = nid.unchecked_get();
        if (st[i] == 2)
            return memo[i];
        if (st[i] == 1)
        {
            cycle = true;
            return zero;
        }
        st[i] = 1;
        Node const& node = t[nid];
        TT r;
        if (std::holds_alternative<True>(node))
            r = tt_fill(true);
        else if (std::holds_alternative<False>(node))
            r = tt_fill(false);
        else if (auto* a = std::get_if<Aliased>(&node))
            r = (*this)(a->node);
        else if (auto* ng = std::get_if<Negated>(&node))
            r = tt_not((*this)(ng->node));
        else if (auto* s = std::get_if<Surface>(&node))
        {
            int k = s->id ? as.index_of(s->id.unchecked_get()) : -1;
            if (k < 0)
            {
                unknown_surface = true;
                r = tt_fill(false);
            }
            else
                r = (k == flip) ? tt_not(as.col[k]) : as.col[k];
        }
        else
        {
            auto const& j = std::get<Joined>(node);
            bool is_and = (j.op == op_and);
            r = tt_fill(is_and);
            for (NodeId d : j.nodes)
            {
                TT const& c = (*this)(d);
                if (is_and)
                    tt_and_eq(r, c);
                else
                    tt_or_eq(r, c);
            }
        }
        memo[i] = r;
        st[i] = 2;
        return memo[i];
    }
};

//---------------------------------------------------------------------------//
// Case definition (replayable from workload + seed + index)
struct Step
{
    char kind = 'S';  // 'T','F' (predefined 0,1), 'S' surface, 'N' not, 'A' and, 'O' or
    unsigned sid = 0;
    std::vector<int> args;  // indices of earlier steps
};

struct CaseDef
{
    std::string workload;
    u64 seed = 0, index = 0;
    std::vector<unsigned> sids;
    std::vector<Step> steps;
    std::vector<int> volumes;
    bool feat_dup = false, feat_compl = false;
    u64 plan_seed = 0;
    bool all_replacements = false;
    std::string tier = "quick";
};

json steps_json(CaseDef const& cd)
{
    json a = json::array();
    for (std::size_t i = 0; i < cd.steps.size(); ++i)
    {
        auto const& s = cd.steps[i];
        json e = json::array();
        e.push_back(std::string(1, s.kind));
        if (s.kind == 'S')
            e.push_back(s.sid);
        for (int x : s.args)
            e.push_back(x);
        a.push_back(std::move(e));
    }
    return a;
}

std::string logic_str(std::vector<logic_int> const& l)
{
    std::ostringstream os;
    for (auto v : l)
    {
        if (logic::is_operator_token(v))
            os << logic::to_char(static_cast<logic::OperatorToken>(v));
        else
            os << v;
        os << ' ';
    }
    return os.str();
}

int depth_bucket(int d)
{
    return d <= 2 ? d : d <= 4 ? 3 : d <= 8 ? 5 : d <= 16 ? 9 : 17;
}

//---------------------------------------------------------------------------//
// Parser/evaluator for InfixStringBuilder output:
//   expr := 'T' | 'F' | ('+'|'-') digits | '!' expr | ('all'|'any') '(' expr {', ' expr} ')'
struct InfixStringParser
{
    std::string const& s;
    Assign const& as;
    std::size_t p = 0;
    bool ok = true;

    TT expr()
    {
        if (p >= s.size())
        {
            ok = false;
            return tt_fill(false);
        }
        char c = s[p];
        if (c == 'T' || c == 'F')
        {
            ++p;
            return tt_fill(c == 'T');
        }
        if (c == '!')
        {
            ++p;
            return tt_not(expr());
        }
        if (c == '+' || c == '-')
        {
            ++p;
            if (p >= s.size() || !isdigit((unsigned char)s[p]))
            {
                ok = false;
                return tt_fill(false);
            }
            unsigned long v = 0;
            while (p < s.size() && isdigit((unsigned char)s[p]))
                v = v * 10 + (s[p++] - '0');
            int k = as.index_of(unsigned(v));
            if (k < 0)
            {
                ok = false;
                return tt_fill(false);
            }
            // '+' is Sense::outside == true (positive side of the surface)
            return c == '+' ? as.col[k] : tt_not(as.col[k]);
        }
        bool is_and;
        if (s.compare(p, 4, "all(") == 0)
            is_and = true;
        else if (s.compare(p, 4, "any(") == 0)
            is_and = false;
        else
        {
            ok = false;
            return tt_fill(false);
        }
        p += 4;
        TT r = expr();
        while (ok && s.compare(p, 2, ", ") == 0)
        {
            p += 2;
            TT c2 = expr();
            if (is_and)
                tt_and_eq(r, c2);
            else
                tt_or_eq(r, c2);
        }
        if (!ok || p >= s.size() || s[p] != ')')
        {
            ok = false;
            return r;
        }
        ++p;
        return r;
    }
};

//---------------------------------------------------------------------------//
// Own bit-parallel interpreter of a postfix logic vector
struct PostfixResult
{
    bool well_formed = true;
    char const* problem = "";
    int max_depth = 0;
    TT value;
};

PostfixResult
interpret_postfix(std::vector<logic_int> const& lgc, std::vector<TT const*> const& face_col)
{
    PostfixResult r;
    std::vector<TT> stack;
    auto bad = [&](char const* why) {
        r.well_formed = false;
        r.problem = why;
        return r;
    };
    if (lgc.empty())
        return bad("empty-logic");
    for (logic_int v : lgc)
    {
        if (!logic::is_operator_token(v))
        {
            if (v >= face_col.size())
                return bad("face-index-out-of-range");
            stack.push_back(*face_col[v]);
        }
        else if (v == logic::ltrue)
            stack.push_back(tt_fill(true));
        else if (v == logic::lnot)
        {
            if (stack.empty())
                return bad("stack-underflow");
            stack.back() = tt_not(stack.back());
        }
        else if (v == logic::land || v == logic::lor)
        {
            if (stack.size() < 2)
                return bad("stack-underflow");
            TT b = stack.back();
            stack.pop_back();
            if (v == logic::land)
                tt_and_eq(stack.back(), b);
            else
                tt_or_eq(stack.back(), b);
        }
        else
            return bad("non-postfix-token");
        r.max_depth = std::max<int>(r.max_depth, int(stack.size()));
    }
    if (stack.size() != 1)
        return bad("unbalanced");
    r.value = stack.back();
    return r;
}

//---------------------------------------------------------------------------//
// Harness translation of a (negation-pushed) tree node into the explicit infix token
// encoding documented in InfixEvaluator.hh: parenthesised groups of one operator, `lnot`
// only directly in front of a face.  Returns false if the node is not representable.
struct InfixTokens
{
    CsgTree const& t;
    std::vector<LocalSurfaceId> const& faces;  // sorted
    std::vector<logic_int> out;

    NodeId dealias(NodeId n) const
    {
        int guard = 0;
        while (auto* a = std::get_if<Aliased>(&t[n]))
        {
            n = a->node;
            if (++guard > 1000)
                break;
        }
        return n;
    }
    bool face(Surface const& s)
    {
        auto it = std::lower_bound(faces.begin(), faces.end(), s.id);
        if (it == faces.end() || *it != s.id)
            return false;
        out.push_back(logic_int(it - faces.begin()));
        return true;
    }
    bool emit(NodeId n, bool root, bool paren_root)
    {
        Node const& node = t[dealias(n)];
        if (auto* s = std::get_if<Surface>(&node))
            return face(*s);
        if (std::holds_alternative<True>(node))
        {
            if (!root)
                return false;
            out.push_back(logic::ltrue);
            return true;
        }
        if (auto* ng = std::get_if<Negated>(&node))
        {
            auto* s = std::get_if<Surface>(&t[dealias(ng->node)]);
            if (!s)
                return false;
            out.push_back(logic::lnot);
            return face(*s);
        }
        if (auto* j = std::get_if<Joined>(&node))
        {
            if (j->nodes.size() < 2)
                return false;
            bool paren = !root || paren_root;
            if (paren)
                out.push_back(logic::lopen);
            bool first = true;
            for (NodeId d : j->nodes)
            {
                if (!first)
                    out.push_back(j->op);
                first = false;
                if (!emit(d, false, false))
                    return false;
            }
            if (paren)
                out.push_back(logic::lclose);
            return true;
        }
        return false;
    }
};

//---------------------------------------------------------------------------//
struct Runner
{
    verif::Report& rep;
    CaseDef const& cd;
    verif::Rng plan;

    CsgTree tree;
    Assign as;
    std::vector<NodeId> id;  // per step
    std::vector<TT> tt;  // per step: model value
    std::vector<int> depth;  // per step
    std::vector<TT> orig;  // per raw node id: model value
    std::vector<unsigned> sids_sorted;
    TT all_mask;

    bool feat_shared = false;
    std::string root_kind = "?";
    int root_depth = 0;
    bool trivial_case = false;
    bool stop = false;  // a violation / abort ended the case
    std::string context;  // how the tree being encoded was produced (for witnesses)
    json history = json::array();  // exchanges / simplifications applied to the working copy

    Runner(verif::Report& r, CaseDef const& c) : rep(r), cd(c), plan(c.plan_seed) {}

    //-----------------------------------------------------------------------//
    json witness(json extra = json::object()) const
    {
        json w;
        w["workload"] = cd.workload;
        w["tier"] = cd.tier;
        w["seed"] = cd.seed;
        w["index"] = cd.index;
        w["surface_ids"] = cd.sids;
        w["steps"] = steps_json(cd);
        w["volume_steps"] = cd.volumes;
        w["exhaustive_assignments"] = as.exhaustive;
        for (auto it = extra.begin(); it != extra.end(); ++it)
            w[it.key()] = it.value();
        return w;
    }

    std::string cell(std::string const& stage) const
    {
        return stage + "/root=" + root_kind + "/dup" + (cd.feat_dup ? "1" : "0") + "compl"
               + (cd.feat_compl ? "1" : "0") + "shared" + (feat_shared ? "1" : "0") + "/D"
               + std::to_string(depth_bucket(root_depth));
    }

    void fail(std::string const& key, std::string const& detail, json extra)
    {
        rep.violation(key, detail, witness(std::move(extra)));
        stop = true;
    }

    void done(std::string const& stage, bool nontrivial = true)
    {
        if (trivial_case || !nontrivial)
            rep.held_trivial();
        else
            rep.held(cell(stage));
    }

    // Run f; classify library exceptions per the engine guide.  true = completed.
    template<class F>
    bool guarded(std::string const& stage, F&& f, bool* rejected = nullptr)
    {
        try
        {
            f();
            return true;
        }
        catch (DebugError const& e)
        {
            if (verif::is_bounds_assertion(e))
                rep.violation(verif::bounds_key("C10", e), verif::describe(e),
                              witness({{"stage", stage}}));
            else
            {
                rep.inconclusive("debug-assert: " + verif::describe(e));
                rep.observe("assert:" + verif::describe(e));
            }
        }
        catch (RuntimeError const& e)
        {
            if (rejected)
                *rejected = true;
            rep.inconclusive("rejected input: " + stage);
        }
        catch (std::bad_variant_access const&)
        {
            rep.violation("C10/exception/" + stage + "/bad_variant_access",
                          "std::bad_variant_access thrown on an input satisfying the documented "
                          "preconditions",
                          witness({{"stage", stage}}));
        }
        stop = true;
        return false;
    }

    //-----------------------------------------------------------------------//
    // Build the tree and the model in parallel; check insert-time simplification
    bool build()
    {
        verif::Rng arng(verif::mix_seed(cd.plan_seed, 77));
        make_assign(as, cd.sids, arng);
        all_mask = tt_fill(true);
        sids_sorted = cd.sids;
        std::sort(sids_sorted.begin(), sids_sorted.end());

        std::size_t ns = cd.steps.size();
        id.assign(ns, NodeId{});
        tt.assign(ns, TT{});
        depth.assign(ns, 0);
        id[0] = CsgTree::true_node_id();
        id[1] = CsgTree::false_node_id();
        tt[0] = tt_fill(true);
        tt[1] = tt_fill(false);

        bool ok = guarded("insert", [&] {
            for (std::size_t s = 2; s < ns; ++s)
            {
                Step const& st = cd.steps[s];
                Node node;
                if (st.kind == 'S')
                {
                    node = Surface{LocalSurfaceId{st.sid}};
                    tt[s] = as.col[as.index_of(st.sid)];
                }
                else if (st.kind == 'N')
                {
                    node = Negated{id[st.args[0]]};
                    tt[s] = tt_not(tt[st.args[0]]);
                    depth[s] = depth[st.args[0]] + 1;
                }
                else
                {
                    bool is_and = st.kind == 'A';
                    Joined j{is_and ? op_and : op_or, {}};
                    tt[s] = tt_fill(is_and);
                    int d = 0;
                    for (int a : st.args)
                    {
                        j.nodes.push_back(id[a]);
                        if (is_and)
                            tt_and_eq(tt[s], tt[a]);
                        else
                            tt_or_eq(tt[s], tt[a]);
                        d = std::max(d, depth[a]);
                    }
                    depth[s] = d + 1;
                    node = std::move(j);
                }
                id[s] = tree.insert(std::move(node)).first;
            }
            for (int v : cd.volumes)
                tree.insert_volume(id[v]);
        });
        if (!ok)
            return false;

        // Every returned node must mean what the model says the inserted expression means
        TreeEval ev(tree, as);
        for (std::size_t s = 0; s < ns; ++s)
        {
            TT const& got = ev(id[s]);
            if (ev.broken())
            {
                fail(std::string("C10/insert/") + ev.why(),
                     "tree returned by insert() is not evaluable",
                     {{"step", s}, {"tree", tree_str(tree)}});
                return false;
            }
            int j = tt_first_diff(got, tt[s], all_mask);
            if (j >= 0)
            {
                char const* k = cd.steps[s].kind == 'S'   ? "surface"
                                : cd.steps[s].kind == 'N' ? "negated"
                                : cd.steps[s].kind == 'A' ? "joined-and"
                                : cd.steps[s].kind == 'O' ? "joined-or"
                                                          : "constant";
                fail(std::string("C10/insert/") + k,
                     "node returned by CsgTree::insert differs from the inserted expression",
                     {{"step", s}, {"node", id[s].unchecked_get()}, {"assignment", as.describe(j)},
                      {"expected", tt_bit(tt[s], j)}, {"tree_value", tt_bit(got, j)},
                      {"tree", tree_str(tree)}});
                return false;
            }
        }
        orig.resize(tree.size());
        for (std::size_t i = 0; i < tree.size(); ++i)
            orig[i] = ev(NodeId(i));

        // features of the first volume root
        int v0 = cd.volumes.front();
        root_kind = kind_of(tree[id[v0]]);
        if (id[v0] == CsgTree::false_node_id())
            root_kind = "false";
        root_depth = depth[v0];
        trivial_case = true;
        for (int v : cd.volumes)
        {
            Node const& n = tree[id[v]];
            if (std::holds_alternative<Joined>(n)
                || (std::holds_alternative<Negated>(n) && id[v] != CsgTree::false_node_id()))
                trivial_case = false;
        }
        // shared: a non-leaf node with two or more parents
        std::vector<int> parents(tree.size(), 0);
        for (std::size_t i = 2; i < tree.size(); ++i)
        {
            Node const& n = tree[NodeId(i)];
            if (auto* ng = std::get_if<Negated>(&n))
                ++parents[ng->node.unchecked_get()];
            else if (auto* j = std::get_if<Joined>(&n))
                for (auto d : j->nodes)
                    ++parents[d.unchecked_get()];
        }
        for (std::size_t i = 2; i < tree.size(); ++i)
            if (parents[i] >= 2 && !std::holds_alternative<Surface>(tree[NodeId(i)]))
                feat_shared = true;
        return true;
    }

    //-----------------------------------------------------------------------//
    // All node ids of `t` (same ids as the raw tree) keep their value inside `mask`
    bool check_nodes(CsgTree const& t, TT const& mask, std::string const& key,
                     std::string const& what, json extra)
    {
        extra["history"] = history;
        if (t.size() != orig.size())
        {
            extra["tree"] = tree_str(t);
            fail("C10/rewrite/node-count", what + ": number of nodes changed", extra);
            return false;
        }
        TreeEval ev(t, as);
        for (std::size_t i = 0; i < t.size(); ++i)
        {
            TT const& got = ev(NodeId(i));
            if (ev.broken())
            {
                extra["tree"] = tree_str(t);
                extra["raw_tree"] = tree_str(tree);
                extra["node"] = i;
                fail(std::string("C10/rewrite/") + ev.why(),
                     what + ": rewritten tree is not evaluable", extra);
                return false;
            }
            int j = tt_first_diff(got, orig[i], mask);
            if (j >= 0)
            {
                extra["tree"] = tree_str(t);
                extra["raw_tree"] = tree_str(tree);
                extra["node"] = i;
                extra["is_volume"]
                    = std::find(t.volumes().begin(), t.volumes().end(), NodeId(i))
                      != t.volumes().end();
                extra["assignment"] = as.describe(j);
                extra["original_value"] = tt_bit(orig[i], j);
                extra["rewritten_value"] = tt_bit(got, j);
                fail(key, what + ": value of a node changed", extra);
                return false;
            }
        }
        if (t.volumes() != tree.volumes())
        {
            fail("C10/rewrite/volumes", what + ": volume list changed", extra);
            return false;
        }
        return true;
    }

    //-----------------------------------------------------------------------//
    // Encodings of the given targets (node of `t`, expected value) inside `mask`
    using Target = std::pair<NodeId, TT>;

    bool check_encodings(CsgTree const& t, std::string const& stage,
                         std::vector<Target> const& targets, TT const& mask)
    {
        TreeEval ev(t, as);
        oid::InternalSurfaceFlagger flagger(t);
        std::vector<LocalSurfaceId> existing;
        bool ok = guarded(stage + "/calc_surfaces", [&] { existing = calc_surfaces(t); });
        if (!ok)
            return false;
        if (!std::is_sorted(existing.begin(), existing.end())
            || std::adjacent_find(existing.begin(), existing.end()) != existing.end())
        {
            fail("C10/calc-surfaces/not-sorted-unique", "calc_surfaces result not sorted/unique",
                 {{"stage", stage}, {"tree", tree_str(t)}});
            return false;
        }
        std::vector<LocalSurfaceId> all_ids;
        for (unsigned s : sids_sorted)
            all_ids.push_back(LocalSurfaceId{s});

        for (Target const& tg : targets)
        {
            NodeId node = tg.first;
            TT const& expect = tg.second;
            json base = {{"stage", stage}, {"node", node.unchecked_get()}, {"tree", tree_str(t)}};

            TT const tree_value = ev(node);
            if (ev.broken())
            {
                fail("C10/encode/" + std::string(ev.why()), "tree not evaluable", base);
                return false;
            }

            //---- postfix: no remap, remap with calc_surfaces, remap with all original ids
            std::vector<LocalSurfaceId> faces_nomap;
            for (int mode = 0; mode < 3; ++mode)
            {
                char const* mname = mode == 0 ? "nomap" : "remap";
                std::vector<LocalSurfaceId> const* mapping
                    = mode == 0 ? nullptr : mode == 1 ? &existing : &all_ids;
                if (mode == 2 && existing == all_ids)
                    continue;
                oid::PostfixLogicBuilder::result_type res;
                ok = guarded(stage + "/postfix-build", [&] {
                    if (mapping)
                        res = oid::PostfixLogicBuilder{t, *mapping}(node);
                    else
                        res = oid::PostfixLogicBuilder{t}(node);
                });
                if (!ok)
                    return false;
                auto const& faces = res.first;
                auto const& lgc = res.second;
                json jb = base;
                jb["mode"] = mname;
                jb["logic"] = logic_str(lgc);
                {
                    json jf = json::array();
                    for (auto f : faces)
                        jf.push_back(f.unchecked_get());
                    jb["faces"] = jf;
                }
                // structural invariants: sorted unique faces
                if (!std::is_sorted(faces.begin(), faces.end())
                    || std::adjacent_find(faces.begin(), faces.end()) != faces.end())
                {
                    fail("C10/postfix-struct/faces-not-sorted-unique",
                         "face list is not sorted and unique", jb);
                    return false;
                }
                // resolve each face to a surface column
                std::vector<TT const*> face_col;
                std::vector<int> face_local;
                for (auto f : faces)
                {
                    long sidv = -1;
                    if (!mapping)
                        sidv = f.unchecked_get();
                    else if (f.unchecked_get() < mapping->size())
                        sidv = (*mapping)[f.unchecked_get()].unchecked_get();
                    int k = sidv < 0 ? -1 : as.index_of(unsigned(sidv));
                    if (k < 0)
                    {
                        fail("C10/postfix-struct/unknown-face",
                             "face does not name a surface of the tree / of the mapping", jb);
                        return false;
                    }
                    face_col.push_back(&as.col[k]);
                    face_local.push_back(k);
                }
                PostfixResult pr = interpret_postfix(lgc, face_col);
                if (!pr.well_formed)
                {
                    fail(std::string("C10/postfix-struct/") + pr.problem,
                         "logic vector is not a well-formed postfix expression over its faces", jb);
                    return false;
                }
                {
                    std::vector<char> used(faces.size(), 0);
                    for (auto v : lgc)
                        if (!logic::is_operator_token(v))
                            used[v] = 1;
                    if (std::find(used.begin(), used.end(), 0) != used.end())
                    {
                        fail("C10/postfix-struct/unused-face", "face never referenced by the logic",
                             jb);
                        return false;
                    }
                }
                int j = tt_first_diff(pr.value, expect, mask);
                if (j >= 0)
                {
                    jb["assignment"] = as.describe(j);
                    jb["expected"] = tt_bit(expect, j);
                    jb["postfix_value"] = tt_bit(pr.value, j);
                    jb["tree_value"] = tt_bit(tree_value, j);
                    fail(std::string("C10/postfix-build/") + mname,
                         "postfix logic (own interpreter) differs from the original function", jb);
                    return false;
                }
                rep.observe_max("max_postfix_depth", pr.max_depth);
                if (mode == 0)
                    faces_nomap = faces;
                if (mode == 2)
                    continue;  // same token semantics as mode 1

                //---- real run-time evaluator on every assignment
                if (pr.max_depth > int(rt::LogicStack::max_stack_depth()))
                {
                    // LogicStack::push precondition (size != 32) cannot be met; production
                    // refuses such input in OrangeParams (checked by the depth workload)
                    rep.observe("postfix:deeper-than-logic-stack");
                    continue;
                }
                int bad_j = -1;
                bool got_bad = false;
                ok = guarded(stage + "/logic-eval", [&] {
                    rt::LogicEvaluator eval(
                        Span<logic_int const>{lgc.data(), lgc.size()});
                    std::vector<Sense> senses(faces.size());
                    for (int a = 0; a < as.A; ++a)
                    {
                        for (std::size_t k = 0; k < faces.size(); ++k)
                            senses[k] = to_sense(tt_bit(*face_col[k], a));
                        bool got = eval(Span<Sense const>{senses.data(), senses.size()});
                        if (got != tt_bit(pr.value, a))
                        {
                            bad_j = a;
                            got_bad = got;
                            break;
                        }
                    }
                });
                if (!ok)
                    return false;
                if (bad_j >= 0)
                {
                    jb["assignment"] = as.describe(bad_j);
                    jb["LogicEvaluator"] = got_bad;
                    jb["reference_interpreter"] = tt_bit(pr.value, bad_j);
                    fail("C10/logic-eval/LogicEvaluator",
                         "LogicEvaluator result differs from a reference postfix interpreter on the "
                         "same logic vector",
                         jb);
                    return false;
                }
                rep.observe("assignments_evaluated_postfix", u64(as.A));
            }

            //---- infix string
            {
                std::string str;
                ok = guarded(stage + "/infix-string", [&] { str = build_infix_string(t, node); });
                if (!ok)
                    return false;
                InfixStringParser ps{str, as};
                TT v = ps.expr();
                json jb = base;
                jb["infix"] = str;
                if (!ps.ok || ps.p != str.size())
                {
                    fail("C10/infix-string/unparseable",
                         "InfixStringBuilder output does not follow its documented grammar", jb);
                    return false;
                }
                int j = tt_first_diff(v, expect, mask);
                if (j >= 0)
                {
                    jb["assignment"] = as.describe(j);
                    jb["expected"] = tt_bit(expect, j);
                    jb["infix_value"] = tt_bit(v, j);
                    fail("C10/infix-string/InfixStringBuilder",
                         "infix string differs from the original function", jb);
                    return false;
                }
            }

            //---- simple flag soundness (function of the tree as the run time sees it)
            {
                bool internal = true;
                ok = guarded(stage + "/flagger", [&] { internal = flagger(node); });
                if (!ok)
                    return false;
                rep.observe(internal ? "flag:internal" : "flag:simple");
                if (!internal)
                {
                    for (auto f : faces_nomap)
                    {
                        int k = as.index_of(f.unchecked_get());
                        TreeEval evf(t, as, k);
                        TT both = evf(node);
                        tt_and_eq(both, tree_value);
                        int j = tt_first_set(both);
                        if (j >= 0)
                        {
                            json jb = base;
                            jb["assignment"] = as.describe(j);
                            jb["flipped_surface"] = f.unchecked_get();
                            // site: the flagger looks at tree[negated.node] without
                            // dereferencing aliases; a negation of an ALIAS of a join is a
                            // distinct branch from a negation of a join
                            bool neg_alias_join = reaches_negated_alias_of_join(t, node);
                            jb["context"] = context;
                            fail(neg_alias_join
                                     ? "C10/simple-flag/negated-alias-of-join"
                                     : "C10/simple-flag/InternalSurfaceFlagger",
                                 "volume flagged free of internal surfaces stays inside when a "
                                 "single face sense is flipped (not an intersection of half-spaces)",
                                 jb);
                            return false;
                        }
                    }
                    if (tt_any(tree_value) && !faces_nomap.empty())
                        rep.observe("flag:simple-checked-nonempty");
                }
            }

            //---- run-time infix evaluator on a harness translation (where representable)
            {
                InfixTokens tk{t, faces_nomap, {}};
                bool paren_root = plan.coin();
                if (tk.emit(node, true, paren_root))
                {
                    int bad_j = -1;
                    bool got_bad = false;
                    std::vector<int> face_local;
                    for (auto f : faces_nomap)
                        face_local.push_back(as.index_of(f.unchecked_get()));
                    ok = guarded(stage + "/infix-eval", [&] {
                        rt::InfixEvaluator eval(
                            Span<logic_int const>{tk.out.data(), tk.out.size()});
                        for (int a = 0; a < as.A; ++a)
                        {
                            bool got = eval([&](FaceId fid) {
                                return tt_bit(as.col[face_local[fid.unchecked_get()]], a);
                            });
                            if (got != tt_bit(tree_value, a))
                            {
                                bad_j = a;
                                got_bad = got;
                                break;
                            }
                        }
                    });
                    if (!ok)
                        return false;
                    if (bad_j >= 0)
                    {
                        json jb = base;
                        jb["assignment"] = as.describe(bad_j);
                        jb["infix_tokens"] = logic_str(tk.out);
                        jb["InfixEvaluator"] = got_bad;
                        jb["tree_value"] = tt_bit(tree_value, bad_j);
                        fail("C10/infix-eval/InfixEvaluator",
                             "InfixEvaluator result differs from the tree's function on an explicit "
                             "infix encoding of it",
                             jb);
                        return false;
                    }
                    rep.observe("infix:evaluated");
                }
                else
                    rep.observe("infix:not-representable");
            }

            //---- construction-time SenseEvaluator (n <= 3, surfaces 0..n-1 = x,y,z planes)
            if (as.n <= 3 && as.exhaustive && !sids_sorted.empty()
                && sids_sorted.back() == unsigned(as.n - 1))
            {
                std::vector<VariantSurface> surfs = {PlaneX{0.0}, PlaneY{0.0}, PlaneZ{0.0}};
                int bad_j = -1;
                ok = guarded(stage + "/sense-eval", [&] {
                    for (int a = 0; a < (1 << as.n); ++a)
                    {
                        Real3 pos{1, 1, 1};
                        for (int k = 0; k < as.n; ++k)
                            pos[as.sid[k]] = tt_bit(as.col[k], a) ? 1.0 : -1.0;
                        oid::SenseEvaluator se(t, surfs, pos);
                        bool got = (se(node) == SignedSense::inside);
                        if (got != tt_bit(tree_value, a))
                        {
                            bad_j = a;
                            break;
                        }
                    }
                });
                if (!ok)
                    return false;
                if (bad_j >= 0)
                {
                    json jb = base;
                    jb["assignment"] = as.describe(bad_j);
                    fail("C10/sense-eval/SenseEvaluator",
                         "SenseEvaluator disagrees with the tree's function", jb);
                    return false;
                }
            }
        }
        return true;
    }

    std::vector<Target> volume_targets(CsgTree const& t) const
    {
        std::vector<Target> r;
        for (std::size_t i = 0; i < t.volumes().size(); ++i)
            r.push_back({t.volumes()[i], orig[tree.volumes()[i].unchecked_get()]});
        return r;
    }

    // Is a Negated node whose operand is an Aliased node resolving to a Joined node
    // reachable from `root`?
    static bool reaches_negated_alias_of_join(CsgTree const& t, NodeId root)
    {
        std::vector<char> seen(t.size(), 0);
        std::vector<NodeId> todo{root};
        while (!todo.empty())
        {
            NodeId n = todo.back();
            todo.pop_back();
            if (!(n < t.size()) || seen[n.unchecked_get()])
                continue;
            seen[n.unchecked_get()] = 1;
            Node const& node = t[n];
            if (auto* a = std::get_if<Aliased>(&node))
                todo.push_back(a->node);
            else if (auto* j = std::get_if<Joined>(&node))
                for (auto d : j->nodes)
                    todo.push_back(d);
            else if (auto* ng = std::get_if<Negated>(&node))
            {
                todo.push_back(ng->node);
                if (ng->node < t.size() && std::holds_alternative<Aliased>(t[ng->node]))
                {
                    NodeId d = ng->node;
                    int guard = 0;
                    while (d < t.size() && std::holds_alternative<Aliased>(t[d]) && ++guard < 1000)
                        d = std::get<Aliased>(t[d]).node;
                    if (d < t.size() && std::holds_alternative<Joined>(t[d]))
                        return true;
                }
            }
        }
        return false;
    }

    static bool demorgan_precondition(CsgTree const& t)
    {
        // "The CsgTree being simplified shouldn't contain alias nodes or double negations."
        for (std::size_t i = 2; i < t.size(); ++i)
        {
            Node const& n = t[NodeId(i)];
            if (std::holds_alternative<Aliased>(n))
                return false;
            if (auto* ng = std::get_if<Negated>(&n))
                if (std::holds_alternative<Negated>(t[ng->node]))
                    return false;
        }
        return true;
    }

    //-----------------------------------------------------------------------//
    void stage_raw()
    {
        context = "raw inserted tree";
        if (!check_encodings(tree, "raw", volume_targets(tree), all_mask))
            return;
        done("encode-raw");
    }

    //-----------------------------------------------------------------------//
    // Exchange nodes with logically equivalent ones (found with the model), then simplify
    void stage_exchange(CsgTree& t2)
    {
        std::size_t n = tree.size();
        if (n <= 2)
            return;
        int n_ex = int(plan.integer(1, 3));
        std::string kinds;
        NodeId min_x;
        for (int e = 0; e < n_ex && !stop; ++e)
        {
            NodeId x(plan.integer(2, long(n) - 1));
            TT const& f = orig[x.unchecked_get()];
            Node repl;
            std::string rk;
            for (int attempt = 0; attempt < 24 && rk.empty(); ++attempt)
            {
                int c = int(plan.integer(0, 6));
                auto lower = [&]() { return NodeId(plan.integer(0, long(x.unchecked_get()) - 1)); };
                if (c == 0)
                {
                    if (tt_all(f))
                        repl = True{}, rk = "true";
                    else if (!tt_any(f))
                        repl = False{}, rk = "false";
                }
                else if (c == 1)
                {
                    NodeId y = lower();
                    if (tt_eq(tt_not(orig[y.unchecked_get()]), f))
                        repl = Negated{y}, rk = "negated";
                }
                else if (c == 2)
                {
                    NodeId y = lower();
                    if (tt_eq(orig[y.unchecked_get()], f))
                    {
                        if (plan.coin())
                            repl = Aliased{y}, rk = "aliased";
                        else
                            repl = Joined{plan.coin() ? op_and : op_or, {y}}, rk = "join1";
                    }
                }
                else if (c == 3 || c == 4)
                {
                    // a different join of lower nodes with the same value: accumulate
                    // supersets (and) / subsets (or) of f in random order until f is reached
                    bool is_and = plan.coin();
                    std::vector<NodeId> cands;
                    for (unsigned y = 0; y < x.unchecked_get(); ++y)
                    {
                        TT m = orig[y];
                        if (is_and)
                            tt_and_eq(m, f);
                        else
                            tt_or_eq(m, f);
                        if (tt_eq(m, f))  // f implies y (and) / y implies f (or)
                            cands.push_back(NodeId(y));
                    }
                    std::shuffle(cands.begin(), cands.end(), plan);
                    std::vector<NodeId> ch;
                    TT acc = tt_fill(is_and);
                    for (NodeId y : cands)
                    {
                        TT nacc = acc;
                        if (is_and)
                            tt_and_eq(nacc, orig[y.unchecked_get()]);
                        else
                            tt_or_eq(nacc, orig[y.unchecked_get()]);
                        if (!tt_eq(nacc, acc) || plan.coin(0.15))
                        {
                            ch.push_back(y);
                            acc = nacc;
                        }
                        if (tt_eq(acc, f) && plan.coin(0.7))
                            break;
                    }
                    if (tt_eq(acc, f) && !ch.empty())
                        repl = Joined{is_and ? op_and : op_or, ch}, rk = is_and ? "and" : "or";
                }
                else
                {
                    // its own definition, re-ordered, with duplicates and the identity element
                    if (auto* j = std::get_if<Joined>(&t2[x]))
                    {
                        Joined nj = *j;
                        nj.nodes.push_back(nj.nodes[plan.integer(0, long(nj.nodes.size()) - 1)]);
                        if (plan.coin())
                            nj.nodes.push_back(nj.op == op_and ? CsgTree::true_node_id()
                                                               : CsgTree::false_node_id());
                        std::reverse(nj.nodes.begin(), nj.nodes.end());
                        repl = std::move(nj);
                        rk = "self-join";
                    }
                    else if (auto* ng = std::get_if<Negated>(&t2[x]))
                    {
                        repl = Negated{ng->node};
                        rk = "self-negated";
                    }
                }
            }
            if (rk.empty())
                continue;
            history.push_back("exchange(" + std::to_string(x.unchecked_get()) + ", " + to_string(repl)
                              + ")");
            if (!guarded("exchange", [&] { t2.exchange(x, std::move(repl)); }))
                return;
            history.push_back("-> " + tree_str(t2));
            if (!check_nodes(t2, all_mask, "C10/exchange/" + rk,
                             "CsgTree::exchange with a logically equivalent node",
                             {{"exchanged_node", x.unchecked_get()}, {"replacement_kind", rk}}))
                return;
            if (kinds.find(rk) == std::string::npos)
                kinds += (kinds.empty() ? "" : "+") + rk;
            if (!min_x || x < min_x)
                min_x = x;
        }
        if (stop)
            return;
        int fn = int(plan.integer(0, 3));
        char const* fname = fn == 0   ? "simplify"
                            : fn == 1 ? "simplify-from-min"
                            : fn == 2 ? "simplify_up"
                                      : "CsgTree::simplify";
        if (fn == 1 && !min_x)
            fn = 0, fname = "simplify";
        bool ok = guarded(fname, [&] {
            if (fn == 0)
                orangeinp::simplify(&t2, NodeId{2});
            else if (fn == 1)
                orangeinp::simplify(&t2, min_x);
            else if (fn == 2)
                simplify_up(&t2, NodeId(plan.integer(2, long(n) - 1)));
            else
                for (int i = 0, m = int(plan.integer(1, 8)); i < m; ++i)
                    t2.simplify(NodeId(plan.integer(2, long(n) - 1)));
        });
        if (!ok)
            return;
        history.push_back(std::string(fname) + " -> " + tree_str(t2));
        if (!check_nodes(t2, all_mask, std::string("C10/simplify/") + fname,
                         std::string(fname) + " after equivalent exchanges", {{"exchanges", kinds}}))
            return;
        context = std::string("exchanges [") + kinds + "] then " + fname;
        if (!check_encodings(t2, "simplified", volume_targets(t2), all_mask))
            return;
        done(std::string("exchange-simplify/") + fname + "/" + (kinds.empty() ? "none" : kinds),
             !kinds.empty());
    }

    //-----------------------------------------------------------------------//
    void one_replacement(CsgTree const& src, char const* src_name, NodeId k, bool b)
    {
        CsgTree t3 = src;
        TT mask = b ? orig[k.unchecked_get()] : tt_not(orig[k.unchecked_get()]);
        std::string kk = kind_of(src[k]);
        std::vector<NodeId> unknown;
        bool rejected = false;
        bool ok = guarded(
            "replace_and_simplify",
            [&] { unknown = replace_and_simplify(&t3, k, b ? Node{True{}} : Node{False{}}); },
            &rejected);
        if (!ok)
        {
            stop = false;  // a refusal ends this replacement only
            if (rejected)
                rep.observe(tt_any(mask) ? "replace:refused-satisfiable"
                                         : "replace:refused-unsatisfiable");
            return;
        }
        json info = {{"replaced_node", k.unchecked_get()}, {"replaced_kind", kk},
                     {"constant", b}, {"source", src_name}, {"source_tree", tree_str(src)}};
        if (!check_nodes(t3, mask, std::string("C10/replace/") + (b ? "true" : "false") + "/" + kk,
                         "replace_and_simplify (assignments consistent with the constant)", info))
            return;
        for (NodeId u : unknown)
            rep.observe(u < t3.size() && std::holds_alternative<Surface>(t3[u])
                            ? "replace:unknown-surface-returned"
                            : "replace:unknown-nonsurface-returned");
        context = std::string("replace_and_simplify on ") + src_name + " tree";
        if (!check_encodings(t3, "replaced", volume_targets(t3), mask))
            return;
        if (!tt_any(mask))
        {
            rep.held_trivial();  // no consistent assignment: nothing compared
            return;
        }
        done(std::string("replace=") + (b ? "T" : "F") + "/K=" + kk + "/" + src_name);
        // DeMorgan on a replaced tree when it satisfies the precondition
        if (demorgan_precondition(t3) && plan.coin(0.5))
            stage_demorgan(t3, "replaced", mask);
    }

    void stage_replace(CsgTree const& src, char const* src_name)
    {
        std::size_t n = src.size();
        if (n <= 2)
            return;
        if (cd.all_replacements)
        {
            for (std::size_t k = 2; k < n && !stop; ++k)
                for (int b = 0; b < 2 && !stop; ++b)
                    one_replacement(src, src_name, NodeId(k), b != 0);
            return;
        }
        int reps = plan.coin(0.3) ? 2 : 1;
        for (int r = 0; r < reps && !stop; ++r)
        {
            NodeId k;
            if (plan.coin(0.4) && !src.volumes().empty())
                k = src.volumes()[plan.integer(0, long(src.volumes().size()) - 1)];
            else
                k = NodeId(plan.integer(2, long(n) - 1));
            if (k.unchecked_get() < 2)
                continue;
            one_replacement(src, src_name, k, plan.coin());
        }
    }

    //-----------------------------------------------------------------------//
    void stage_demorgan(CsgTree const& src, char const* src_name, TT const& mask)
    {
        bool had_negjoin = false;
        for (std::size_t i = 2; i < src.size(); ++i)
            if (auto* ng = std::get_if<Negated>(&src[NodeId(i)]))
                if (std::holds_alternative<Joined>(src[ng->node]))
                    had_negjoin = true;
        CsgTree t4;
        if (!guarded("transform_negated_joins", [&] { t4 = transform_negated_joins(src); }))
            return;
        json info = {{"source", src_name}, {"source_tree", tree_str(src)}, {"tree", tree_str(t4)}};
        if (t4.volumes().size() != src.volumes().size())
        {
            fail("C10/demorgan/volume-count", "transform_negated_joins changed the number of volumes",
                 info);
            return;
        }
        TreeEval ev(t4, as);
        std::vector<Target> targets;
        for (std::size_t i = 0; i < t4.volumes().size(); ++i)
        {
            TT const& expect = orig[tree.volumes()[i].unchecked_get()];
            TT const& got = ev(t4.volumes()[i]);
            if (ev.broken())
            {
                fail(std::string("C10/demorgan/") + ev.why(), "simplified tree is not evaluable",
                     info);
                return;
            }
            int j = tt_first_diff(got, expect, mask);
            if (j >= 0)
            {
                info["volume_index"] = i;
                info["assignment"] = as.describe(j);
                info["original_value"] = tt_bit(expect, j);
                info["rewritten_value"] = tt_bit(got, j);
                fail("C10/demorgan/volume-value",
                     "transform_negated_joins changed the function of a volume", info);
                return;
            }
            targets.push_back({t4.volumes()[i], expect});
        }
        // negated joins reachable from the volumes would make the tree unusable for the infix
        // evaluator; recorded, not judged (C10 is about truth values)
        bool remains = false;
        for (std::size_t i = 2; i < t4.size(); ++i)
            if (auto* ng = std::get_if<Negated>(&t4[NodeId(i)]))
                if (std::holds_alternative<Joined>(t4[ng->node]))
                    remains = true;
        rep.observe(remains ? "demorgan:negated-join-remains" : "demorgan:no-negated-join-left");
        context = std::string("transform_negated_joins on ") + src_name + " tree";
        if (!check_encodings(t4, "demorgan", targets, mask))
            return;
        done(std::string("demorgan/") + src_name + "/negjoin" + (had_negjoin ? "1" : "0"));
    }

    //-----------------------------------------------------------------------//
    void run()
    {
        if (!build())
            return;
        done("insert");
        stage_raw();
        if (stop)
            return;
        if (demorgan_precondition(tree))
            stage_demorgan(tree, "raw", all_mask);
        if (stop)
            return;
        CsgTree t2 = tree;
        stage_exchange(t2);
        if (stop)
            return;
        if (demorgan_precondition(t2) && plan.coin(0.5))
            stage_demorgan(t2, "simplified", all_mask);
        if (stop)
            return;
        stage_replace(tree, "raw");
        if (stop)
            return;
        if (!cd.all_replacements || plan.coin(0.25))
            stage_replace(t2, "simplified");
        if (rep.want_sample(6) && !trivial_case)
        {
            json s = {{"workload", cd.workload}, {"index", cd.index}, {"raw_tree", tree_str(tree)},
                      {"n_surfaces", as.n}, {"assignments", as.A},
                      {"volume0_infix", build_infix_string(tree, tree.volumes().front())}};
            auto res = oid::PostfixLogicBuilder{tree}(tree.volumes().front());
            s["volume0_postfix"] = logic_str(res.second);
            rep.sample(std::move(s), 6);
        }
    }
};

//---------------------------------------------------------------------------//
// (a) exhaustive enumeration of expression trees
struct Enumerator
{
    int n_surf;  // leaves are steps 2 .. 2+n_surf-1 (+ constants 0,1 if with_const)
    bool with_const;
    std::vector<Step>& steps;

    using Fn = std::function<void(int)>;

    void leaves(Fn const& f) const
    {
        for (int l = with_const ? 0 : 2; l < 2 + n_surf; ++l)
            f(l);
    }
    // all expressions with exactly k internal nodes; binary joins (+ ternary if tern)
    void expr(int k, bool tern, Fn const& f)
    {
        if (k == 0)
        {
            leaves(f);
            return;
        }
        expr(k - 1, tern, [&](int c) {
            steps.push_back({'N', 0, {c}});
            f(int(steps.size()) - 1);
            steps.pop_back();
        });
        for (char op : {'A', 'O'})
        {
            for (int i = 0; i <= k - 1; ++i)
                expr(i, tern, [&](int a) {
                    expr(k - 1 - i, tern, [&](int b) {
                        steps.push_back({op, 0, {a, b}});
                        f(int(steps.size()) - 1);
                        steps.pop_back();
                    });
                });
            if (!tern)
                continue;
            for (int i = 0; i <= k - 1; ++i)
                for (int j = 0; i + j <= k - 1; ++j)
                    expr(i, false, [&](int a) {
                        expr(j, false, [&](int b) {
                            expr(k - 1 - i - j, false, [&](int c) {
                                steps.push_back({op, 0, {a, b, c}});
                                f(int(steps.size()) - 1);
                                steps.pop_back();
                            });
                        });
                    });
        }
    }
};

void classify_features(CaseDef& cd)
{
    // duplicates / complementary operands as generated (before the tree's own dedup)
    for (auto const& s : cd.steps)
    {
        if (s.kind != 'A' && s.kind != 'O')
            continue;
        for (std::size_t i = 0; i < s.args.size(); ++i)
            for (std::size_t j = i + 1; j < s.args.size(); ++j)
            {
                int a = s.args[i], b = s.args[j];
                if (a == b)
                    cd.feat_dup = true;
                auto is_not_of = [&](int x, int y) {
                    return cd.steps[x].kind == 'N' && cd.steps[x].args[0] == y;
                };
                if (is_not_of(a, b) || is_not_of(b, a) || (a + b == 1 && a * b == 0))
                    cd.feat_compl = true;
            }
    }
}

void run_exhaustive(verif::Report& rep, verif::Args const& args, long only_index, u64 stride = 1,
                    u64 phase = 0)
{
    u64 counter = 0;
    auto run_family = [&](int k, bool with_const, bool tern, char const* name) {
        CaseDef cd;
        cd.workload = name;
        cd.sids = {0, 1, 2};
        cd.steps = {{'T', 0, {}}, {'F', 0, {}}, {'S', 0, {}}, {'S', 1, {}}, {'S', 2, {}}};
        cd.all_replacements = true;
        cd.tier = args.tier;
        Enumerator en{3, with_const, cd.steps};
        en.expr(k, tern, [&](int root) {
            u64 idx = counter++;
            if (only_index >= 0 ? long(idx) != only_index : idx % stride != phase)
                return;
            cd.index = idx;
            cd.seed = 0;
            cd.plan_seed = verif::mix_seed(0xC10, idx);
            cd.volumes = {root};
            // one internal sub-expression as a second volume
            for (int s = 5; s < root; ++s)
                if (cd.steps[s].kind != 'S')
                {
                    cd.volumes.push_back(s);
                    break;
                }
            cd.feat_dup = cd.feat_compl = false;
            classify_features(cd);
            Runner r(rep, cd);
            r.run();
        });
    };
    bool th = args.thorough();
    // binary/unary trees, leaves = 3 surfaces and both constants, up to 3 internal nodes
    for (int k = 0; k <= 3; ++k)
        run_family(k, true, false, "exhaustive");
    // 4 internal nodes: surfaces as leaves (quick) / also constants (thorough)
    run_family(4, th, false, "exhaustive");
    // trees containing ternary joins, up to 3 internal nodes
    for (int k = 1; k <= 3; ++k)
        run_family(k, th || k < 3, true, "exhaustive");
    rep.note("exhaustive_cases", counter);
}

//---------------------------------------------------------------------------//
// (b) random DAGs
CaseDef gen_random(u64 seed, u64 index)
{
    verif::Rng rng(verif::mix_seed(seed, index));
    CaseDef cd;
    cd.workload = "random";
    cd.seed = seed;
    cd.index = index;
    cd.plan_seed = verif::mix_seed(seed ^ 0x5eedull, index);

    double r = rng.uniform();
    int n = r < 0.55   ? int(rng.integer(1, 5))
            : r < 0.85 ? int(rng.integer(6, 8))
            : r < 0.95 ? int(rng.integer(9, 10))
            : r < 0.98 ? int(rng.integer(11, 12))
                       : int(rng.integer(13, 20));
    // surface ids: dense 0..n-1, sparse, or large
    int idmode = int(rng.integer(0, 3));
    std::vector<unsigned> pool;
    if (idmode == 0)
        for (int i = 0; i < n; ++i)
            pool.push_back(unsigned(i));
    else
    {
        unsigned base = idmode == 3 ? unsigned(rng.integer(1000, 100000)) : 0u;
        std::vector<unsigned> all;
        for (int i = 0; i < 4 * n; ++i)
            all.push_back(base + unsigned(i));
        std::shuffle(all.begin(), all.end(), rng);
        pool.assign(all.begin(), all.begin() + n);
    }
    std::shuffle(pool.begin(), pool.end(), rng);
    cd.sids = pool;
    std::size_t next_surf = 0;

    int target = std::min(62, 2 + n + int(rng.integer(1, rng.coin(0.3) ? 55 : 20)));
    cd.steps = {{'T', 0, {}}, {'F', 0, {}}};
    auto pick = [&]() -> int {
        int ns = int(cd.steps.size());
        if (ns <= 2 || rng.coin(0.03))
            return int(rng.integer(0, 1));
        if (rng.coin(0.5))
            return int(rng.integer(std::max(2, ns - 4), ns - 1));
        return int(rng.integer(2, ns - 1));
    };
    auto add = [&](Step s) {
        cd.steps.push_back(std::move(s));
        return int(cd.steps.size()) - 1;
    };
    auto add_join = [&](int force_child) {
        char op = rng.coin() ? 'A' : 'O';
        double q = rng.uniform();
        int k = q < 0.02 ? 0 : q < 0.06 ? 1 : q < 0.46 ? 2 : q < 0.72 ? 3 : q < 0.86 ? 4
                                                                                       : int(rng.integer(5, 8));
        std::vector<int> ch;
        if (force_child >= 0)
            ch.push_back(force_child);
        while (int(ch.size()) < k)
            ch.push_back(pick());
        if (!ch.empty() && rng.coin(0.2))
            ch.push_back(ch[rng.integer(0, long(ch.size()) - 1)]);  // duplicate
        if (!ch.empty() && rng.coin(0.2))
        {
            int c = ch[rng.integer(0, long(ch.size()) - 1)];  // complementary pair
            ch.push_back(add({'N', 0, {c}}));
        }
        if (rng.coin(0.05))
            ch.push_back(int(rng.integer(0, 1)));
        std::shuffle(ch.begin(), ch.end(), rng);
        return add({op, 0, ch});
    };
    while (int(cd.steps.size()) < target)
    {
        bool have_operand = cd.steps.size() > 2;
        if (next_surf < cd.sids.size() && (!have_operand || rng.coin(0.35)))
        {
            add({'S', cd.sids[next_surf++], {}});
            continue;
        }
        double a = rng.uniform();
        if (a < 0.22)
            add({'N', 0, {pick()}});
        else if (a < 0.88)
            add_join(-1);
        else
        {
            // negation chain: not(join(not(join(...))))
            int cur = pick();
            for (int lv = 0, m = int(rng.integer(2, 6)); lv < m; ++lv)
            {
                cur = add_join(cur);
                cur = add({'N', 0, {cur}});
            }
        }
    }
    // make sure all surfaces exist in the tree
    while (next_surf < cd.sids.size())
        add({'S', cd.sids[next_surf++], {}});
    // volumes: last internal step + a few others
    int ns = int(cd.steps.size());
    int last = ns - 1;
    while (last > 2 && cd.steps[last].kind == 'S')
        --last;
    cd.volumes.push_back(last);
    for (int i = 0, m = int(rng.integer(0, 3)); i < m; ++i)
        cd.volumes.push_back(int(rng.integer(2, ns - 1)));
    classify_features(cd);
    return cd;
}

//---------------------------------------------------------------------------//
// (c) logic depth: right-nested combs whose postfix needs a deep stack.  Construction of
// the run-time data must refuse logic that the 32-entry LogicStack cannot hold.
void run_depth_case(verif::Report& rep, u64 seed, u64 index)
{
    verif::Rng rng(verif::mix_seed(seed ^ 0xdeefull, index));
    int n = int(rng.integer(2, 3));
    int levels = int(rng.integer(24, 40));
    CaseDef cd;
    cd.workload = "depth";
    cd.seed = seed;
    cd.index = index;
    cd.plan_seed = verif::mix_seed(seed, index);
    for (int i = 0; i < n; ++i)
        cd.sids.push_back(unsigned(i));
    cd.steps = {{'T', 0, {}}, {'F', 0, {}}};
    for (int i = 0; i < n; ++i)
        cd.steps.push_back({'S', unsigned(i), {}});
    // negated literals first so that they have low node ids (children are sorted by id)
    std::vector<int> lits;
    for (int i = 0; i < n; ++i)
    {
        lits.push_back(2 + i);
        cd.steps.push_back({'N', 0, {2 + i}});
        lits.push_back(int(cd.steps.size()) - 1);
    }
    int cur = lits[rng.integer(0, long(lits.size()) - 1)];
    char op = rng.coin() ? 'A' : 'O';
    for (int l = 0; l < levels; ++l)
    {
        int lit = lits[rng.integer(0, long(lits.size()) - 1)];
        cd.steps.push_back({op, 0, {lit, cur}});
        cur = int(cd.steps.size()) - 1;
        op = (op == 'A') ? 'O' : 'A';
    }
    cd.volumes = {cur};
    Runner r(rep, cd);
    if (!r.build())
        return;
    NodeId root = r.tree.volumes().front();
    oid::PostfixLogicBuilder::result_type res;
    if (!r.guarded("depth/postfix-build", [&] { res = oid::PostfixLogicBuilder{r.tree}(root); }))
        return;
    std::vector<TT const*> face_col;
    for (auto f : res.first)
        face_col.push_back(&r.as.col[r.as.index_of(f.unchecked_get())]);
    PostfixResult pr = interpret_postfix(res.second, face_col);
    if (!pr.well_formed || tt_first_diff(pr.value, r.tt[cur], r.all_mask) >= 0)
    {
        r.fail("C10/postfix-build/nomap", "deep comb: postfix logic differs from the function",
               {{"logic", logic_str(res.second)}, {"tree", tree_str(r.tree)}});
        return;
    }
    int const cap = int(rt::LogicStack::max_stack_depth());
    // Hand the logic to the production run-time constructor
    UnitInput unit;
    unit.label = "depth";
    unit.bbox = BBox{{-10, -10, -10}, {10, 10, 10}};
    unit.surfaces = {PlaneX{0.5}, PlaneY{0.25}, PlaneZ{-0.5}};
    unit.surfaces.erase(unit.surfaces.begin() + n, unit.surfaces.end());
    for (int i = 0; i < n; ++i)
        unit.surface_labels.push_back(Label("s" + std::to_string(i)));
    VolumeInput vi;
    vi.label = "comb";
    vi.faces = res.first;
    vi.logic = res.second;
    vi.bbox = BBox::from_infinite();
    vi.zorder = ZOrder::media;
    vi.flags = static_cast<logic_int>(VolumeInput::Flags::internal_surfaces);
    unit.volumes.push_back(vi);
    OrangeInput inp;
    inp.universes.push_back(std::move(unit));
    inp.tol = Tolerance<>::from_default();
    bool accepted = false, refused = false;
    try
    {
        OrangeParams params(std::move(inp));
        accepted = true;
    }
    catch (RuntimeError const&)
    {
        refused = true;
    }
    catch (DebugError const& e)
    {
        rep.inconclusive("debug-assert: " + verif::describe(e));
        rep.observe("assert:" + verif::describe(e));
        return;
    }
    rep.observe_max("depth:max_needed", pr.max_depth);
    if (accepted && pr.max_depth > cap)
    {
        r.fail("C10/depth/accepted-overflow",
               "OrangeParams accepted a volume whose postfix logic needs more stack entries than "
               "LogicStack::max_stack_depth()",
               {{"needed_depth", pr.max_depth}, {"capacity", cap}, {"logic", logic_str(res.second)}});
        return;
    }
    if (refused)
    {
        // documented refusal (max_logic_depth < max_stack_depth): rejected input
        rep.observe(pr.max_depth > cap ? "depth:refused-overflowing" : "depth:refused-conservative");
        if (pr.max_depth > cap)
            rep.held("depth/refused/needed>" + std::to_string(cap));
        else
            rep.inconclusive("rejected input: logic depth refused although it fits the stack");
        return;
    }
    // accepted and fits: the real evaluator must agree on every assignment
    bool ok = true;
    int bad = -1;
    r.guarded("depth/logic-eval", [&] {
        rt::LogicEvaluator eval(
            Span<logic_int const>{res.second.data(), res.second.size()});
        std::vector<Sense> senses(res.first.size());
        for (int a = 0; a < r.as.A && ok; ++a)
        {
            for (std::size_t k = 0; k < senses.size(); ++k)
                senses[k] = to_sense(tt_bit(*face_col[k], a));
            if (eval(Span<Sense const>{senses.data(), senses.size()}) != tt_bit(pr.value, a))
            {
                ok = false;
                bad = a;
            }
        }
    });
    if (r.stop)
        return;
    if (!ok)
    {
        r.fail("C10/logic-eval/LogicEvaluator", "deep comb: LogicEvaluator differs from reference",
               {{"needed_depth", pr.max_depth}, {"assignment", r.as.describe(bad)},
                {"logic", logic_str(res.second)}});
        return;
    }
    rep.held("depth/accepted/needed=" + std::to_string(depth_bucket(pr.max_depth)));
}

}  // namespace

//---------------------------------------------------------------------------//
int main(int argc, char** argv)
{
    verif::Args args = verif::parse_args(argc, argv);
    if (args.property.empty())
        args.property = "C10";
    if (args.property != "C10")
    {
        std::cerr << "csg_engine serves C10 only\n";
        return 2;
    }
    verif::Report rep("C10", "csg", args);
    rep.set_rule(
        "A case is one generated boolean expression DAG over n surfaces, built simultaneously in "
        "the real CsgTree and in a truth-table model (one bit per sense assignment: all 2^n for "
        "n<=12, 4096 sampled for 13<=n<=20). Each evaluation is one (case, rewrite stage): insert "
        "(insert-time simplification/dedup), encode-raw, exchange+simplify (equivalent exchanges "
        "found with the model, then simplify/simplify_up/CsgTree::simplify), replace "
        "(replace_and_simplify of a node by a constant, compared only on assignments where the "
        "original node equals the constant), demorgan (transform_negated_joins), depth (deep "
        "combs through OrangeParams). In every stage all node ids / volumes are re-evaluated by an "
        "own recursive evaluator and each volume is encoded with PostfixLogicBuilder (no remap, "
        "remap), evaluated with LogicEvaluator on every assignment, printed with "
        "InfixStringBuilder and re-parsed, flagged by InternalSurfaceFlagger (simple => flipping "
        "any one face of an inside assignment leaves), and where representable evaluated with "
        "InfixEvaluator. A cell is (stage detail x node type of the first volume root x "
        "{duplicate, complementary, shared} operands x depth bucket). Non-trivial: some volume "
        "root is a join or a negation.");
    rep.assume("Surface senses are independent booleans (the property quantifies over all truth "
               "assignments); Sense::outside == true is the positive literal.");
    rep.assume("DeMorganSimplifier is only given trees without alias nodes or double negations "
               "(its documented precondition).");
    rep.assume("No production builder for the explicit infix token encoding exists at this commit: "
               "InfixEvaluator is driven with a harness translation following the format documented "
               "in InfixEvaluator.hh (one operator per parenthesised group, lnot only before a face).");

    u64 const nshards = std::max<u64>(1, std::strtoull(args.get("nshards", "1").c_str(), nullptr, 10));
    u64 const shard = std::strtoull(args.get("shard", "0").c_str(), nullptr, 10) % nshards;

    if (!args.replay.empty())
    {
        std::ifstream f(args.replay);
        json j = json::parse(f, nullptr, false);
        if (j.is_discarded() || !j.contains("witnesses") || j["witnesses"].empty())
        {
            std::cerr << "cannot read replay file\n";
            return 2;
        }
        json c = j["witnesses"][0]["case"];
        std::string wl = c.value("workload", "random");
        u64 seed = c.value("seed", u64(1)), index = c.value("index", u64(0));
        if (wl == "random")
        {
            CaseDef cd = gen_random(seed, index);
            Runner r(rep, cd);
            r.run();
        }
        else if (wl == "depth")
            run_depth_case(rep, seed, index);
        else
        {
            // the enumeration order depends on the tier the witness was produced with
            verif::Args a2 = args;
            a2.tier = c.value("tier", args.tier);
            run_exhaustive(rep, a2, long(index));
        }
        return rep.finish();
    }

    // (a) exhaustive small trees.  The enumeration is not seed dependent: it is split over
    // the shards by case index; sanitizer replicas (scale < 1) run every (1/scale)-th case.
    {
        u64 sub = args.scale >= 0.999 ? 1 : std::max<u64>(1, u64(1.0 / args.scale + 0.5));
        u64 stride = sub * nshards;
        run_exhaustive(rep, args, -1, stride, (args.seed % sub) * nshards + shard);
        if (sub == 1)
            rep.set_exhaustive(
                std::string("(split over the shards of this run) all expression trees with <= 4 "
                            "internal nodes (not, binary and/or) over 3 surfaces")
                + (args.thorough() ? " and the constants" : " (constants as leaves up to 3 internal nodes)")
                + ", plus all trees with <= 3 internal nodes containing ternary joins; every one "
                  "of the 8 sense assignments; every (node, constant) replacement");
    }

    // (b) random DAGs
    // budgets are totals over the shards of a run
    u64 n_random = std::max<u64>(1, args.budget(20000, 5000000) / nshards);
    for (u64 i = 0; i < n_random; ++i)
    {
        CaseDef cd = gen_random(args.seed, i);
        Runner r(rep, cd);
        r.run();
    }

    // (c) logic depth through the run-time constructor
    u64 n_depth = std::max<u64>(1, args.budget(160, 3200) / nshards);
    for (u64 i = 0; i < n_depth; ++i)
        run_depth_case(rep, args.seed, i);

    return rep.finish();
}
