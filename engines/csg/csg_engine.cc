#include "verif_common.hh"
int main(){return 0;}
