// Engine `rng` (property C13): XORWOW skip-ahead vs an independent GF(2) matrix model.
//
// Oracle: the 160x160 transition matrix T of Marsaglia's xorwow xorshift recurrence,
// written from the paper (NOT from XorwowRngEngine::next), and its powers T^(2^i)
// obtained by repeated squaring.  Everything observed goes through the engine's public
// interface: operator(), discard(n), operator=(Initializer) and reseed_rng().
#include <array>
#include <memory>

#include "corecel/data/CollectionStateStore.hh"
#include "celeritas/random/RngEngine.hh"
#include "celeritas/random/RngParams.hh"
#include "celeritas/random/RngReseed.hh"
#include "celeritas/random/XorwowRngData.hh"
#include "celeritas/random/XorwowRngEngine.hh"
#include "celeritas/random/XorwowRngParams.hh"
#include "celeritas/random/distribution/GenerateCanonical.hh"

#include "verif_common.hh"

using namespace celeritas;
using verif::json;
using u32 = std::uint32_t;
using u64 = std::uint64_t;

namespace
{
//---------------------------------------------------------------------------//
// 160-bit vector over GF(2): 5 words, word i bit j <-> index 32*i+j
struct Vec
{
    std::array<u32, 5> w{{0, 0, 0, 0, 0}};
    bool get(int b) const { return (w[b >> 5] >> (b & 31)) & 1u; }
    void set(int b) { w[b >> 5] |= (1u << (b & 31)); }
    Vec& operator^=(Vec const& o)
    {
        for (int i = 0; i < 5; ++i)
            w[i] ^= o.w[i];
        return *this;
    }
    bool operator==(Vec const& o) const { return w == o.w; }
    bool operator!=(Vec const& o) const { return !(w == o.w); }
    bool zero() const { return w == std::array<u32, 5>{{0, 0, 0, 0, 0}}; }
};

// Marsaglia (2003), "Xorshift RNGs", section 3.1 "xorwow":
//   t=(x^(x>>2)); x=y; y=z; z=w; w=v; v=(v^(v<<4))^(t^(t<<1));
// state ordering (x,y,z,w,v) as in the paper.
Vec reference_step(Vec const& s)
{
    u32 x = s.w[0], y = s.w[1], z = s.w[2], w = s.w[3], v = s.w[4];
    u32 t = (x ^ (x >> 2));
    Vec r;
    r.w[0] = y;
    r.w[1] = z;
    r.w[2] = w;
    r.w[3] = v;
    r.w[4] = (v ^ (v << 4)) ^ (t ^ (t << 1));
    return r;
}

// Matrix stored by columns: col[b] = M * e_b
struct Mat
{
    std::array<Vec, 160> col;
    Vec apply(Vec const& x) const
    {
        Vec r;
        for (int b = 0; b < 160; ++b)
            if (x.get(b))
                r ^= col[b];
        return r;
    }
    static Mat identity()
    {
        Mat m;
        for (int b = 0; b < 160; ++b)
            m.col[b].set(b);
        return m;
    }
    // (this * o): columns of product = this applied to o's columns
    Mat mul(Mat const& o) const
    {
        Mat r;
        for (int b = 0; b < 160; ++b)
            r.col[b] = this->apply(o.col[b]);
        return r;
    }
    bool operator==(Mat const& o) const
    {
        for (int b = 0; b < 160; ++b)
            if (col[b] != o.col[b])
                return false;
        return true;
    }
};

Mat build_T()
{
    Mat T;
    for (int b = 0; b < 160; ++b)
    {
        Vec e;
        e.set(b);
        T.col[b] = reference_step(e);
    }
    return T;
}

// Powers T^(2^i), i = 0..159 (covers every exponent below 2^160)
struct GfModel
{
    std::vector<Mat> pow2;  // pow2[i] = T^(2^i)
    GfModel()
    {
        pow2.reserve(161);
        pow2.push_back(build_T());
        for (int i = 1; i <= 160; ++i)
            pow2.push_back(pow2.back().mul(pow2.back()));
    }
    // x -> T^(n * 2^shift) x, n 64-bit
    Vec advance(Vec x, u64 n, int shift = 0) const
    {
        for (int i = 0; i < 64; ++i)
            if ((n >> i) & 1ull)
                x = pow2[i + shift].apply(x);
        return x;
    }
};

// own SplitMix64 (Vigna's reference constants)
struct RefSplitMix
{
    u64 s;
    u64 operator()()
    {
        u64 z = (s += 0x9e3779b97f4a7c15ull);
        z = (z ^ (z >> 30)) * 0xbf58476d1ce4e5b9ull;
        z = (z ^ (z >> 27)) * 0x94d049bb133111ebull;
        return z ^ (z >> 31);
    }
};

struct RefState
{
    Vec x;
    u32 weyl;
};
RefState reference_seed(u32 seed)
{
    RefSplitMix g{seed};
    RefState r;
    u64 a = g();
    r.x.w[0] = u32(a);
    r.x.w[1] = u32(a >> 32);
    a = g();
    r.x.w[2] = u32(a);
    r.x.w[3] = u32(a >> 32);
    a = g();
    r.x.w[4] = u32(a);
    r.weyl = u32(a >> 32);
    return r;
}

//---------------------------------------------------------------------------//
using HostStore = CollectionStateStore<XorwowRngStateData, MemSpace::host>;
using ParamsRef = NativeCRef<XorwowRngParamsData>;

Vec get_x(XorwowState const& s)
{
    Vec v;
    for (int i = 0; i < 5; ++i)
        v.w[i] = s.xorstate[i];
    return v;
}
void put_x(XorwowState& s, Vec const& v, u32 weyl)
{
    for (int i = 0; i < 5; ++i)
        s.xorstate[i] = v.w[i];
    s.weylstate = weyl;
}
json jvec(Vec const& v)
{
    json a = json::array();
    for (auto w : v.w)
        a.push_back(w);
    return a;
}

struct FixedWordEngine
{
    using result_type = unsigned int;
    static constexpr result_type min() { return 0u; }
    static constexpr result_type max() { return 0xffffffffu; }
    std::vector<u32> words;
    std::size_t i = 0;
    result_type operator()() { return words[(i++) % words.size()]; }
};

struct OneWordEngine
{
    using result_type = unsigned int;
    static constexpr result_type min() { return 0u; }
    static constexpr result_type max() { return 0xffffffffu; }
    u32 word;
    result_type operator()() { return word; }
};

}  // namespace

int main(int argc, char** argv)
{
    auto args = verif::parse_args(argc, argv);
    verif::Report rep("C13", "rng", args);
    verif::Rng rng(verif::mix_seed(args.seed, 0xC13));
    rep.set_rule(
        "cases: (a) single draws, (b) every one of the 64 jump polynomials applied through "
        "the public discard()/Initializer on all 160 GF(2) basis states + random states, "
        "(c) random composite skip counts over all bit lengths, (d) Initializer "
        "(seed,subsequence,offset), (e) reseed_rng for (event,slots) pairs, (f) canonical "
        "reals from extreme words. A cell is (sub-check kind x polynomial index or "
        "bit-length bucket); a case is non-trivial when the skip count is > 0 and the state "
        "is non-zero.");
    rep.assume("Marsaglia's xorwow recurrence as printed in 'Xorshift RNGs' (2003) is the "
               "sequential definition; period 2^160-1 is a cited fact");

    GfModel model;
    // Sanity of the model itself: T^(2^160 - 1) == I  <=> T^(2^160) == T
    {
        if (!(model.pow2[160] == model.pow2[0]))
        {
            std::cerr << "reference model broken: T^(2^160) != T\n";
            return 2;
        }
        rep.observe("model_period_check_T^(2^160)==T", 1);
    }

    auto params = std::make_shared<XorwowRngParams>(unsigned(rng.u32()));
    ParamsRef pref = params->host_ref();
    HostStore store(pref, StreamId{0}, 4);
    auto& st = store.ref().state[TrackSlotId{0}];

    auto fail = [&](std::string const& key, std::string const& what, json w) {
        rep.violation("C13/" + key, what, std::move(w));
    };

    //-----------------------------------------------------------------------//
    // (a) single draw: state -> T x ; weyl += 362437 ; output = weyl + v
    {
        u64 n = args.budget(20000, 2000000);
        for (u64 i = 0; i < n; ++i)
        {
            Vec x;
            for (auto& w : x.w)
                w = rng.u32();
            if (i < 160)
            {
                x = Vec{};
                x.set(int(i));
            }
            u32 weyl = rng.u32();
            put_x(st, x, weyl);
            XorwowRngEngine e(pref, store.ref(), TrackSlotId{0});
            u32 out = e();
            Vec expect = reference_step(x);
            u32 expect_weyl = weyl + 362437u;
            bool ok = get_x(st) == expect && st.weylstate == expect_weyl
                      && out == u32(expect_weyl + expect.w[4]);
            if (!ok)
                fail("draw/state", "single draw differs from reference recurrence",
                     {{"x", jvec(x)}, {"weyl", weyl}, {"got", jvec(get_x(st))}, {"out", out}});
            else
                rep.held(i < 160 ? "draw/basis" : "draw/random");
        }
    }

    //-----------------------------------------------------------------------//
    // linearity (superposition) of discard on the xorshift part: jump(a^b)=jump(a)^jump(b)
    {
        u64 n = args.budget(2000, 200000);
        for (u64 i = 0; i < n; ++i)
        {
            Vec a, b;
            for (auto& w : a.w)
                w = rng.u32();
            for (auto& w : b.w)
                w = rng.u32();
            u64 cnt = rng.u64() >> rng.integer(0, 63);
            auto run = [&](Vec const& v) {
                put_x(st, v, 0);
                XorwowRngEngine e(pref, store.ref(), TrackSlotId{0});
                e.discard(cnt);
                return get_x(st);
            };
            Vec ab = a;
            ab ^= b;
            Vec ra = run(a), rb = run(b), rab = run(ab);
            ra ^= rb;
            if (ra != rab)
                fail("linearity", "discard is not GF(2)-linear in the state",
                     {{"a", jvec(a)}, {"b", jvec(b)}, {"count", cnt}});
            else
                rep.held("linearity/bits" + std::to_string(cnt ? 64 - __builtin_clzll(cnt) : 0));
        }
    }

    //-----------------------------------------------------------------------//
    // (b) each step polynomial i (count = 4^i) and each multiplicity 1..3 on all basis
    // states.  By linearity (checked above) agreement on a basis decides the polynomial
    // for every state.
    for (int i = 0; i < 32; ++i)
    {
        for (int mult = 1; mult <= 3; ++mult)
        {
            u64 cnt = u64(mult) << (2 * i);
            bool ok = true;
            for (int b = 0; b < 160 + 8 && ok; ++b)
            {
                Vec x;
                if (b < 160)
                    x.set(b);
                else
                    for (auto& w : x.w)
                        w = rng.u32();
                u32 weyl = rng.u32();
                put_x(st, x, weyl);
                XorwowRngEngine e(pref, store.ref(), TrackSlotId{0});
                e.discard(cnt);
                Vec expect = model.advance(x, cnt);
                u32 expect_weyl = weyl + u32(cnt) * 362437u;
                if (get_x(st) != expect)
                {
                    ok = false;
                    fail("discard/poly" + std::to_string(i),
                         "discard(m*4^i) differs from T^(m*4^i) x",
                         {{"i", i}, {"mult", mult}, {"x", jvec(x)}, {"got", jvec(get_x(st))},
                          {"expect", jvec(expect)}});
                }
                else if (st.weylstate != expect_weyl)
                {
                    ok = false;
                    fail("discard/weyl", "Weyl counter after discard differs",
                         {{"count", cnt}, {"weyl", weyl}, {"got", st.weylstate},
                          {"expect", expect_weyl}});
                }
            }
            if (ok)
                rep.held("discard/poly" + std::to_string(i) + "/x" + std::to_string(mult), 168);
        }
    }
    rep.set_exhaustive("each of the 32 step jump polynomials x multiplicity 1..3 on all 160 "
                       "basis states (decides all states by linearity)");

    // Subsequence polynomials through the public discard(): a params copy whose `jump`
    // table holds the production `jump_subsequence` table.
    {
        XorwowRngParamsData<Ownership::const_reference, MemSpace::native> alt = pref;
        alt.jump = pref.jump_subsequence;
        for (int i = 0; i < 32; ++i)
        {
            for (int mult = 1; mult <= 3; ++mult)
            {
                u64 cnt = u64(mult) << (2 * i);
                bool ok = true;
                for (int b = 0; b < 160 + 8 && ok; ++b)
                {
                    Vec x;
                    if (b < 160)
                        x.set(b);
                    else
                        for (auto& w : x.w)
                            w = rng.u32();
                    put_x(st, x, 0);
                    XorwowRngEngine e(alt, store.ref(), TrackSlotId{0});
                    e.discard(cnt);
                    Vec expect = model.advance(x, cnt, 67);
                    if (get_x(st) != expect)
                    {
                        ok = false;
                        fail("subsequence/poly" + std::to_string(i),
                             "subsequence jump polynomial differs from T^(m*4^i*2^67) x",
                             {{"i", i}, {"mult", mult}, {"x", jvec(x)},
                              {"got", jvec(get_x(st))}, {"expect", jvec(expect)}});
                    }
                }
                if (ok)
                    rep.held("subsequence/poly" + std::to_string(i) + "/x" + std::to_string(mult),
                             168);
            }
        }
        rep.set_exhaustive("each of the 32 subsequence jump polynomials x multiplicity 1..3 on "
                           "all 160 basis states");
    }

    //-----------------------------------------------------------------------//
    // (c) composite counts: all bit lengths, digit patterns
    {
        u64 n = args.budget(30000, 5000000);
        for (u64 i = 0; i < n; ++i)
        {
            u64 cnt;
            int kind = int(i % 5);
            if (kind == 0)
                cnt = rng.u64() >> rng.integer(0, 63);
            else if (kind == 1)
                cnt = ~0ull >> rng.integer(0, 63);  // all ones of some length
            else if (kind == 2)
            {
                // every base-4 digit equal to d
                u64 d = u64(rng.integer(1, 3));
                cnt = 0;
                int nd = int(rng.integer(1, 32));
                for (int k = 0; k < nd; ++k)
                    cnt |= d << (2 * k);
            }
            else if (kind == 3)
                cnt = (1ull << rng.integer(0, 63)) + u64(rng.integer(-2, 2));
            else
                cnt = rng.u64();
            Vec x;
            for (auto& w : x.w)
                w = rng.u32();
            u32 weyl = rng.u32();
            put_x(st, x, weyl);
            XorwowRngEngine e(pref, store.ref(), TrackSlotId{0});
            e.discard(cnt);
            Vec expect = model.advance(x, cnt);
            u32 expect_weyl = weyl + u32(cnt * 362437ull);
            if (get_x(st) != expect || st.weylstate != expect_weyl)
                fail("discard/composite", "discard(n) differs from n sequential steps (matrix model)",
                     {{"count", cnt}, {"x", jvec(x)}, {"weyl", weyl}, {"got", jvec(get_x(st))},
                      {"got_weyl", st.weylstate}, {"expect", jvec(expect)},
                      {"expect_weyl", expect_weyl}});
            else if (cnt == 0)
                rep.held_trivial();
            else
                rep.held("composite/kind" + std::to_string(kind) + "/bits"
                         + std::to_string(64 - __builtin_clzll(cnt)));
            if (rep.want_sample(4))
                rep.sample({{"kind", "discard"}, {"count", cnt}, {"x", jvec(x)},
                            {"after", jvec(get_x(st))}});
        }
        // small counts: direct comparison with actually drawing n values
        u64 m = args.budget(300, 20000);
        for (u64 i = 0; i < m; ++i)
        {
            u64 cnt = u64(rng.integer(0, 5000));
            Vec x;
            for (auto& w : x.w)
                w = rng.u32();
            u32 weyl = rng.u32();
            put_x(st, x, weyl);
            {
                XorwowRngEngine e(pref, store.ref(), TrackSlotId{0});
                e.discard(cnt);
            }
            XorwowState after_discard = st;
            put_x(st, x, weyl);
            {
                XorwowRngEngine e(pref, store.ref(), TrackSlotId{0});
                for (u64 k = 0; k < cnt; ++k)
                    e();
            }
            if (get_x(st) != get_x(after_discard) || st.weylstate != after_discard.weylstate)
                fail("discard/sequential", "discard(n) differs from drawing n values",
                     {{"count", cnt}, {"x", jvec(x)}, {"weyl", weyl}});
            else
                rep.held("sequential/draws");
        }
    }

    //-----------------------------------------------------------------------//
    // (d) Initializer: state == T^(subseq*2^67 + offset) SplitMix(seed)
    {
        u64 n = args.budget(20000, 2000000);
        for (u64 i = 0; i < n; ++i)
        {
            XorwowRngInitializer init;
            init.seed = {unsigned(rng.u32())};
            int sk = int(i % 4);
            init.subsequence = sk == 0 ? 0
                               : sk == 1 ? u64(rng.integer(0, 1 << 20))
                               : sk == 2 ? (rng.u64() >> rng.integer(0, 63))
                                         : (1ull << rng.integer(0, 63));
            init.offset = (i % 3 == 0) ? 0 : (rng.u64() >> rng.integer(0, 63));
            XorwowRngEngine e(pref, store.ref(), TrackSlotId{1});
            e = init;
            auto const& s1 = store.ref().state[TrackSlotId{1}];
            RefState r = reference_seed(init.seed[0]);
            Vec expect = model.advance(model.advance(r.x, init.subsequence, 67), init.offset);
            u32 expect_weyl = r.weyl + u32(init.offset * 362437ull);
            if (get_x(s1) != expect || s1.weylstate != expect_weyl)
                fail("initializer", "Initializer state differs from seed state advanced by "
                                    "subsequence*2^67+offset",
                     {{"seed", init.seed[0]}, {"subsequence", init.subsequence},
                      {"offset", init.offset}, {"got", jvec(get_x(s1))}, {"expect", jvec(expect)}});
            else
                rep.held("init/sub" + std::to_string(sk) + "/off" + std::to_string(int(i % 3 != 0)));
            if (expect.zero())
                fail("initializer/zero", "all-zero xorshift state reached", {{"seed", init.seed[0]}});
        }
    }

    //-----------------------------------------------------------------------//
    // (e) reseed_rng: slot i of `size` slots for event E is subsequence E*size+i of the
    // seed's sequence; distinct (E,i) -> distinct subsequence index (checked
    // arithmetically), hence segments 2^67 apart.
    {
        u64 n = args.budget(300, 20000);
        std::set<u64> seen_indices;
        for (u64 c = 0; c < n; ++c)
        {
            unsigned seed = unsigned(rng.u32());
            auto rp = std::make_shared<RngParams>(seed);
            size_type size = size_type(rng.integer(1, c % 7 == 0 ? 300 : 17));
            CollectionStateStore<RngStateData, MemSpace::host> rs(
                rp->host_ref(), StreamId{size_type(rng.integer(0, 3))}, size);
            u64 ev = (c % 3 == 0)   ? u64(rng.integer(0, 10))
                     : (c % 3 == 1) ? u64(rng.integer(0, 1 << 30))
                                    : (rng.u64() >> 10) / size;
            StreamId stream{size_type(rng.integer(0, 15))};
            reseed_rng(rp->host_ref(), rs.ref(), stream, UniqueEventId{ev});
            RefState r = reference_seed(seed);
            bool ok = true;
            std::set<std::array<u32, 5>> states;
            for (size_type i = 0; i < size && ok; ++i)
            {
                auto const& s = rs.ref().state[TrackSlotId{i}];
                u64 idx = ev * u64(size) + i;
                Vec expect = model.advance(r.x, idx, 67);
                if (get_x(s) != expect || s.weylstate != r.weyl)
                {
                    ok = false;
                    fail("reseed", "reseeded slot state is not subsequence event*slots+slot of "
                                   "the seed sequence",
                         {{"seed", seed}, {"event", ev}, {"slots", size}, {"slot", i},
                          {"stream", stream.get()}, {"got", jvec(get_x(s))},
                          {"expect", jvec(expect)}});
                }
                states.insert(get_x(s).w);
            }
            if (ok && states.size() != size)
            {
                ok = false;
                fail("reseed/distinct", "two slots of one event share a generator state",
                     {{"seed", seed}, {"event", ev}, {"slots", size}});
            }
            if (ok)
                rep.held(std::string("reseed/ev") + (c % 3 == 0 ? "small" : c % 3 == 1 ? "mid" : "huge")
                         + "/slots" + (size > 17 ? "many" : "few"));
            if (rep.want_sample(6))
                rep.sample({{"kind", "reseed"}, {"seed", seed}, {"event", ev}, {"slots", size},
                            {"slot0", jvec(get_x(rs.ref().state[TrackSlotId{0}]))}});
        }
        // history independence of reseed: same (seed,event,slots) after arbitrary use
        for (u64 c = 0; c < args.budget(100, 5000); ++c)
        {
            unsigned seed = unsigned(rng.u32());
            auto rp = std::make_shared<RngParams>(seed);
            size_type size = size_type(rng.integer(1, 9));
            CollectionStateStore<RngStateData, MemSpace::host> a(rp->host_ref(), StreamId{0}, size);
            CollectionStateStore<RngStateData, MemSpace::host> b(rp->host_ref(), StreamId{3}, size);
            for (size_type i = 0; i < size; ++i)
            {
                RngEngine e(rp->host_ref(), b.ref(), TrackSlotId{i});
                for (int k = 0, m = int(rng.integer(0, 50)); k < m; ++k)
                    e();
            }
            u64 ev = u64(rng.integer(0, 100000));
            reseed_rng(rp->host_ref(), a.ref(), StreamId{0}, UniqueEventId{ev});
            reseed_rng(rp->host_ref(), b.ref(), StreamId{3}, UniqueEventId{ev});
            bool same = true;
            for (size_type i = 0; i < size; ++i)
            {
                auto const& sa = a.ref().state[TrackSlotId{i}];
                auto const& sb = b.ref().state[TrackSlotId{i}];
                same = same && get_x(sa) == get_x(sb) && sa.weylstate == sb.weylstate;
            }
            if (!same)
                fail("reseed/history", "reseeded state depends on stream id or prior use",
                     {{"seed", seed}, {"event", ev}, {"slots", size}});
            else
                rep.held("reseed/history-independent");
        }
    }

    //-----------------------------------------------------------------------//
    // (f) canonical reals in [0,1)
    {
        std::vector<u32> ext = {0u, 0xffffffffu, 0x80000000u, 0x7fffffffu, 1u, 0xfffffffeu,
                                0x001fffffu, 0xffe00000u, 0x000007ffu, 0xfffff800u};
        u64 cases = 0;
        for (u32 a : ext)
            for (u32 b : ext)
            {
                FixedWordEngine e{{a, b}};
                double v = detail::GenerateCanonical32<double>()(e);
                FixedWordEngine ef{{a, b}};
                float f = detail::GenerateCanonical32<float>()(ef);
                ++cases;
                if (!(v >= 0.0 && v < 1.0))
                    fail("canonical/double", "canonical double outside [0,1)",
                         {{"upper", a}, {"lower", b}, {"value", v}});
                else
                    rep.held("canonical/extreme-double");
                // float specialisation (used when real_type == float; public template)
                if (!(f >= 0.0f && f < 1.0f))
                    fail("canonical/float", "canonical float outside [0,1)",
                         {{"sample", a}, {"value", double(f)}});
                else
                    rep.held("canonical/extreme-float");
            }
        {
            // every 32-bit sample in the top 2^20 (conversion to float rounds up there), the
            // bottom 2^12, and a random selection; thorough: all 2^32 samples
            auto check_float = [&](u32 w) {
                OneWordEngine ef{w};
                float f = detail::GenerateCanonical32<float>()(ef);
                if (!(f >= 0.0f && f < 1.0f))
                {
                    fail("canonical/float", "canonical float outside [0,1)", {{"sample", w}, {"value", double(f)}});
                    return false;
                }
                return true;
            };
            bool okf = true;
            u64 nf = 0;
            if (args.thorough() && args.get("shard", "0") == "0")
            {
                for (u64 w = 0; w <= 0xffffffffull && okf; ++w, ++nf)
                    okf = check_float(u32(w));
            }
            else
            {
                for (u64 w = 0xfff00000ull; w <= 0xffffffffull && okf; ++w, ++nf)
                    okf = check_float(u32(w));
                for (u64 w = 0; w < 4096 && okf; ++w, ++nf)
                    okf = check_float(u32(w));
                for (u64 i = 0; i < 1000000 && okf; ++i, ++nf)
                    okf = check_float(rng.u32());
            }
            if (okf)
                rep.held("canonical/float-samples", nf);
        }
        u64 n = args.budget(200000, 50000000);
        put_x(st, reference_seed(unsigned(rng.u32())).x, rng.u32());
        XorwowRngEngine e(pref, store.ref(), TrackSlotId{0});
        double mn = 1, mx = 0;
        bool ok = true;
        for (u64 i = 0; i < n; ++i)
        {
            double v = generate_canonical(e);
            mn = std::min(mn, v);
            mx = std::max(mx, v);
            if (!(v >= 0.0 && v < 1.0))
            {
                ok = false;
                fail("canonical/xorwow", "generate_canonical(xorwow) outside [0,1)", {{"value", v}});
                break;
            }
        }
        if (ok)
            rep.held("canonical/xorwow-stream", n);
        rep.observe_max("canonical_max_seen", mx);
        rep.observe_max("canonical_one_minus_min_seen", 1 - mn);
    }

    return rep.finish();
}
