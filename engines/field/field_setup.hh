// Context (particles, geometries, field maps) and case generator for the `field` engine.
#pragma once

#include <fstream>
#include <memory>
#include <string>
#include <vector>

#include "corecel/data/CollectionStateStore.hh"
#include "corecel/io/Logger.hh"
#include "orange/OrangeData.hh"
#include "orange/OrangeParams.hh"
#include "orange/OrangeTrackView.hh"
#include "celeritas/Constants.hh"
#include "celeritas/Quantities.hh"
#include "celeritas/Units.hh"
#include "celeritas/field/FieldDriverOptions.hh"
#include "celeritas/field/RZMapFieldInput.hh"
#include "celeritas/field/RZMapFieldParams.hh"
#include "celeritas/phys/PDGNumber.hh"
#include "celeritas/phys/ParticleData.hh"
#include "celeritas/phys/ParticleParams.hh"
#include "celeritas/phys/ParticleTrackView.hh"

#include "field_locator.hh"
#include "field_monitors.hh"
#include "verif_common.hh"

namespace fieldv
{
using namespace celeritas;
using verif::json;

// |q| = 1 e, p = 1 MeV/c, B = 1 T: curvature 1/R = 2.99792458 / cm.
// From R = p/(qB) with the exact SI-2019 values: p = 1e6 * e / c [kg m/s], q = e:
// R = 1e6/(c B) m = 1e8/(299792458 B[T]) cm  =>  1/R = 2.99792458 * B[T] / cm
// (check: 10 MeV electron, p = 10.4987 MeV/c, 3.50195 T  ->  R = 1.0000 cm).
constexpr long double curvature_per_tesla_mev = 2.99792458L;

enum Integ
{
    I_DP = 0,
    I_RK4,
    I_ZHELIX,
    N_INTEG
};
inline char const* integ_name(int i)
{
    static char const* n[] = {"dormand-prince", "rk4", "zhelix"};
    return n[i];
}
enum FieldKind
{
    F_UNIFORM = 0,
    F_UNIFORMZ,
    F_RZUNIFORM,  // RZMapField over a map with constant (0,0,Bz)
    F_RZCMS,  // RZMapField over cms-tiny.field.json
    N_FIELD
};
inline char const* field_name(int i)
{
    static char const* n[] = {"uniform", "uniform-z", "rzmap-const", "rzmap-cms"};
    return n[i];
}

enum StartClass
{
    S_INTERIOR = 0,
    S_NEAR,  // interior, close to a face
    S_BND_IN,  // on a boundary after a real crossing, heading in
    S_BND_TAN,  // same, near-tangent
    S_BND_REENT,  // moved to boundary, turned back, (null) crossing: heading back in
    S_BND_REENT_TAN,
    S_BND_POSTFLIP,  // crossed, then direction reversed on the surface
    S_CHAIN_INT,  // follow-up propagation, interior
    S_CHAIN_BND,  // follow-up propagation after a field boundary hit + cross_boundary
    N_START
};
inline char const* start_name(int i)
{
    static char const* n[] = {"interior",
                              "near",
                              "bnd-in",
                              "bnd-tangent",
                              "bnd-reentrant",
                              "bnd-reentrant-tangent",
                              "bnd-postflip",
                              "chain-interior",
                              "chain-boundary"};
    return n[i];
}

struct ParticleDef
{
    char const* name;
    PDGNumber pdg;
    double mass;  // MeV
    int charge;
};

struct GeoCtx
{
    std::string name;
    std::shared_ptr<OrangeParams> params;
    CollectionStateStore<OrangeStateData, MemSpace::host> state;
    std::unique_ptr<RefLocator> loc;
};

struct Ctx
{
    std::vector<ParticleDef> pdefs;
    std::shared_ptr<ParticleParams> particles;
    CollectionStateStore<ParticleStateData, MemSpace::host> pstate;
    std::vector<std::unique_ptr<GeoCtx>> geos;
    std::shared_ptr<RZMapFieldParams> rz_cms;
    RZMapFieldInput rz_cms_input;  // as read (native units)
    double rz_cms_bmax = 0;  // largest |B| on the map nodes [T] (bilinear interpolation cannot exceed it)
    std::string repo;

    explicit Ctx(std::string const& repo_root) : repo(repo_root)
    {
        using namespace units;
        pdefs = {{"electron", pdg::electron(), 0.5109989461, -1},
                 {"positron", pdg::positron(), 0.5109989461, 1},
                 {"mu_minus", pdg::mu_minus(), 105.6583745, -1},
                 {"mu_plus", pdg::mu_plus(), 105.6583745, 1},
                 {"proton", pdg::proton(), 938.27208816, 1},
                 {"anti_proton", pdg::anti_proton(), 938.27208816, -1},
                 {"alpha", pdg::alpha(), 3727.3794066, 2}};
        ParticleParams::Input inp;
        for (auto const& d : pdefs)
            inp.push_back({d.name,
                           d.pdg,
                           MevMass{d.mass},
                           ElementaryCharge{real_type(d.charge)},
                           constants::stable_decay_constant});
        particles = std::make_shared<ParticleParams>(inp);
        pstate = CollectionStateStore<ParticleStateData, MemSpace::host>(particles->host_ref(), 1);

        for (char const* g : {"two-boxes",
                              "three-spheres",
                              "simple-cms",
                              "field-layers",
                              "four-steel-slabs",
                              "one-steel-sphere"})
        {
            auto gc = std::make_unique<GeoCtx>();
            gc->name = g;
            std::string fn = repo + "/test/geocel/data/" + g + ".org.json";
            gc->params = std::make_shared<OrangeParams>(fn);
            gc->state = CollectionStateStore<OrangeStateData, MemSpace::host>(
                gc->params->host_ref(), 2);
            gc->loc = std::make_unique<RefLocator>(fn);
            geos.push_back(std::move(gc));
        }
        {
            std::ifstream f(repo + "/test/celeritas/data/cms-tiny.field.json");
            if (f)
            {
                RZMapFieldInput inp;
                f >> inp;
                rz_cms = std::make_shared<RZMapFieldParams>(inp);
                rz_cms_input = inp;
                for (std::size_t i = 0; i < inp.field_z.size(); ++i)
                    rz_cms_bmax = std::max(rz_cms_bmax, std::hypot(inp.field_z[i], inp.field_r[i]) / units::tesla);
            }
        }
    }

    // Map with the same value (0,0,bz) at every node and zero radial component, covering
    // |z| <= zmax, r <= rmax: inside that region the interpolated field is exactly uniform.
    static std::shared_ptr<RZMapFieldParams> make_const_map(double bz_native, double zmax, double rmax)
    {
        RZMapFieldInput inp;
        inp.num_grid_z = 5;
        inp.num_grid_r = 4;
        inp.min_z = -zmax;
        inp.max_z = zmax;
        inp.min_r = 0;
        inp.max_r = rmax;
        inp.field_z.assign(20, bz_native);
        inp.field_r.assign(20, 0.0);
        return std::make_shared<RZMapFieldParams>(inp);
    }
};

//---------------------------------------------------------------------------//
struct Case
{
    std::uint64_t seed = 0, index = 0;
    int integ = 0, field = 0, geo = 0, particle = 0;
    double p_mev = 0, ekin = 0;
    double B[3] = {0, 0, 0};  // tesla
    FieldDriverOptions opts;
    bool opts_default = true;
    int start = 0;
    Real3 pos0{0, 0, 0}, dir0{0, 0, 1};  // geometry initialisation
    // boundary starts: optional direction set between move_to_boundary and cross_boundary
    // (pre) and after cross_boundary (post)
    bool has_pre = false, has_post = false;
    Real3 pre_dir{0, 0, 1}, post_dir{0, 0, 1};
    double tangent_eta = 0;
    double step = 0;
    int nprop = 1;
    bool fresh_propagator = true;
    bool compare_factory = false;
    int start_volume_hint = -1;

    json to_json() const
    {
        json j;
        j["seed"] = seed;
        j["index"] = index;
        j["integrator"] = integ_name(integ);
        j["field"] = field_name(field);
        j["particle"] = particle;
        j["p_mev"] = p_mev;
        j["ekin_mev"] = ekin;
        j["B_tesla"] = {B[0], B[1], B[2]};
        j["geo"] = geo;
        j["start"] = start_name(start);
        j["pos0"] = verif::jarr3(pos0);
        j["dir0"] = verif::jarr3(dir0);
        if (has_pre)
            j["pre_cross_dir"] = verif::jarr3(pre_dir);
        if (has_post)
            j["post_cross_dir"] = verif::jarr3(post_dir);
        j["step"] = step;
        j["nprop"] = nprop;
        j["fresh_propagator"] = fresh_propagator;
        json o;
        o["minimum_step"] = opts.minimum_step;
        o["delta_chord"] = opts.delta_chord;
        o["delta_intersection"] = opts.delta_intersection;
        o["epsilon_step"] = opts.epsilon_step;
        o["epsilon_rel_max"] = opts.epsilon_rel_max;
        o["pgrow"] = opts.pgrow;
        o["pshrink"] = opts.pshrink;
        o["safety"] = opts.safety;
        o["max_stepping_increase"] = opts.max_stepping_increase;
        o["max_stepping_decrease"] = opts.max_stepping_decrease;
        o["max_nsteps"] = opts.max_nsteps;
        o["max_substeps"] = opts.max_substeps;
        j["options"] = o;
        return j;
    }
};

inline Real3 to_real3(P3 const& p)
{
    return Real3{p[0], p[1], p[2]};
}
inline P3 to_p3(Real3 const& p)
{
    return P3{p[0], p[1], p[2]};
}
inline Real3 unit3(Real3 v)
{
    double n = norm3(v);
    for (auto& x : v)
        x /= n;
    return v;
}
inline Real3 random_dir(verif::Rng& r)
{
    double d[3];
    r.unit3(d);
    return unit3(Real3{d[0], d[1], d[2]});
}

// Kinetic energy for a momentum (cancellation-free)
inline double ekin_from_p(double p, double m)
{
    return p * p / (std::sqrt(p * p + m * m) + m);
}

//---------------------------------------------------------------------------//
// Driver options inside validate_input's ranges (a few deliberately invalid)
inline void draw_options(verif::Rng& r, Case& c, bool* expect_invalid)
{
    FieldDriverOptions o;
    *expect_invalid = false;
    c.opts_default = true;
    if (r.coin(0.45))
    {
        // production defaults, sometimes with the two knobs the tests vary
        if (r.coin(0.3))
            o.max_substeps = short(r.pick(std::vector<int>{1, 2, 5, 10, 100, 1000}));
        c.opts = o;
        return;
    }
    c.opts_default = false;
    o.minimum_step = r.loguniform(1e-9, 1e-3);
    o.delta_intersection = o.minimum_step * (1 + r.loguniform(1e-3, 1e4));
    o.delta_chord = r.loguniform(1e-5, 1.0);
    o.epsilon_step = r.loguniform(1e-9, 1e-1);
    o.epsilon_rel_max = r.loguniform(1e-8, 1e-2);
    o.pgrow = -r.uniform(0.05, 0.5);
    o.pshrink = -r.uniform(0.05, 0.5);
    o.safety = r.uniform(0.5, 0.99);
    o.max_stepping_increase = r.uniform(1.5, 10);
    o.max_stepping_decrease = r.uniform(0.05, 0.5);
    o.max_nsteps = short(r.coin(0.15) ? r.integer(1, 10) : r.coin(0.5) ? 100 : r.integer(11, 1000));
    o.max_substeps = short(r.pick(std::vector<int>{1, 2, 3, 5, 10, 10, 30, 100, 1000}));
    if (r.coin(0.01))
    {
        *expect_invalid = true;
        switch (r.integer(0, 3))
        {
            case 0: o.delta_intersection = o.minimum_step * r.uniform(0.1, 1.0); break;
            case 1: o.safety = 1.0 + r.uniform(0, 1); break;
            case 2: o.max_nsteps = 0; break;
            default: o.epsilon_step = 1.0; break;
        }
    }
    c.opts = o;
}

//---------------------------------------------------------------------------//
// Random point on surface s within the bbox [lo,hi]
inline P3 point_on_surface(verif::Rng& r, RefSurface const& s, P3 const& lo, P3 const& hi)
{
    P3 p{r.uniform(lo[0], hi[0]), r.uniform(lo[1], hi[1]), r.uniform(lo[2], hi[2])};
    double d[3];
    switch (s.kind)
    {
        case RefSurface::px: p[0] = s.d[0]; break;
        case RefSurface::py: p[1] = s.d[0]; break;
        case RefSurface::pz: p[2] = s.d[0]; break;
        case RefSurface::sc:
            r.unit3(d);
            p = {s.d[0] * d[0], s.d[0] * d[1], s.d[0] * d[2]};
            break;
        case RefSurface::s:
            r.unit3(d);
            p = {s.d[0] + s.d[3] * d[0], s.d[1] + s.d[3] * d[1], s.d[2] + s.d[3] * d[2]};
            break;
        case RefSurface::cxc: {
            double a = r.uniform(0, 6.283185307179586);
            p[1] = s.d[0] * std::cos(a);
            p[2] = s.d[0] * std::sin(a);
            break;
        }
        case RefSurface::cyc: {
            double a = r.uniform(0, 6.283185307179586);
            p[0] = s.d[0] * std::cos(a);
            p[2] = s.d[0] * std::sin(a);
            break;
        }
        case RefSurface::czc: {
            double a = r.uniform(0, 6.283185307179586);
            p[0] = s.d[0] * std::cos(a);
            p[1] = s.d[0] * std::sin(a);
            break;
        }
    }
    return p;
}

// Interior point of volume v (rejection sampling in the volume's face bbox, optionally in
// a smaller window so that small features of big volumes are visited)
inline bool sample_interior(verif::Rng& r, RefLocator const& loc, int v, P3* out)
{
    RefVolume const& vol = loc.volume(v);
    for (int t = 0; t < 200; ++t)
    {
        P3 p{r.uniform(vol.lo[0], vol.hi[0]),
             r.uniform(vol.lo[1], vol.hi[1]),
             r.uniform(vol.lo[2], vol.hi[2])};
        if (loc.inside(v, p) && loc.locate(p) == v)
        {
            *out = p;
            return true;
        }
    }
    return false;
}

// Interior point at distance ~eps from a face of v
inline bool sample_near_face(verif::Rng& r, RefLocator const& loc, int v, double eps, P3* out, int* face)
{
    RefVolume const& vol = loc.volume(v);
    for (int t = 0; t < 60; ++t)
    {
        int fi = vol.faces[std::size_t(r.integer(0, std::int64_t(vol.faces.size()) - 1))];
        RefSurface const& s = loc.surface(fi);
        P3 q = point_on_surface(r, s, vol.lo, vol.hi);
        P3 n = s.normal(q);
        for (double sg : {1.0, -1.0})
        {
            P3 p{q[0] + sg * eps * n[0], q[1] + sg * eps * n[1], q[2] + sg * eps * n[2]};
            if (loc.inside(v, p) && loc.locate(p) == v && loc.face_distance(v, p) >= 0.5 * eps)
            {
                *out = p;
                if (face)
                    *face = fi;
                return true;
            }
        }
    }
    return false;
}

//---------------------------------------------------------------------------//
// Draw everything of a case that does not need the real geometry
inline void draw_case(Ctx const& ctx, verif::Rng& r, Case& c, bool* expect_invalid)
{
    // integrator x field
    static int const combos[][2] = {{I_DP, F_UNIFORM},
                                    {I_DP, F_UNIFORM},
                                    {I_DP, F_UNIFORMZ},
                                    {I_DP, F_RZUNIFORM},
                                    {I_DP, F_RZCMS},
                                    {I_RK4, F_UNIFORM},
                                    {I_RK4, F_UNIFORM},
                                    {I_RK4, F_UNIFORMZ},
                                    {I_RK4, F_RZUNIFORM},
                                    {I_RK4, F_RZCMS},
                                    {I_ZHELIX, F_UNIFORMZ},
                                    {I_ZHELIX, F_UNIFORMZ}};
    auto const& cb = combos[r.integer(0, 11)];
    c.integ = cb[0];
    c.field = cb[1];
    if (c.field == F_RZCMS && !ctx.rz_cms)
        c.field = F_RZUNIFORM;
    c.geo = int(r.integer(0, std::int64_t(ctx.geos.size()) - 1));
    if (c.field == F_RZCMS)
        c.geo = 2;  // the map is the CMS solenoid: use simple-cms
    c.particle = int(r.integer(0, std::int64_t(ctx.pdefs.size()) - 1));
    draw_options(r, c, expect_invalid);

    RefLocator const& loc = *ctx.geos[std::size_t(c.geo)]->loc;
    // start volume (never the exterior)
    int v;
    do
    {
        v = int(r.integer(0, loc.num_volumes() - 1));
    } while (loc.volume(v).exterior);
    c.start_volume_hint = v;
    double L = loc.volume(v).scale;

    // field magnitude and momentum: either free, or aiming at a gyroradius / scale ratio
    double bmag = r.loguniform(1e-4, 20.0);
    double q = std::fabs(double(ctx.pdefs[std::size_t(c.particle)].charge));
    if (r.coin(0.6))
    {
        double ratio = r.loguniform(1e-6, 1e6);
        double p = ratio * L * double(curvature_per_tesla_mev) * bmag * q;
        if (p < 1e-2 || p > 1e7)
        {
            // move the field strength as far as allowed, then clamp the momentum
            double pc = std::min(std::max(p, 1e-2), 1e7);
            bmag = std::min(std::max(pc / (ratio * L * double(curvature_per_tesla_mev) * q), 1e-4), 20.0);
            p = pc;
        }
        c.p_mev = p;
    }
    else
    {
        c.p_mev = r.loguniform(1e-2, 1e7);
    }
    c.ekin = ekin_from_p(c.p_mev, ctx.pdefs[std::size_t(c.particle)].mass);
    if (c.field == F_UNIFORM)
    {
        Real3 bd = random_dir(r);
        if (r.coin(0.1))
        {
            // axis-aligned fields are a classic special case
            bd = Real3{0, 0, 0};
            bd[std::size_t(r.integer(0, 2))] = r.coin() ? 1 : -1;
        }
        for (int i = 0; i < 3; ++i)
            c.B[i] = bmag * bd[std::size_t(i)];
    }
    else
    {
        c.B[0] = c.B[1] = 0;
        c.B[2] = r.coin() ? bmag : -bmag;
    }

    if (c.field == F_RZCMS)
    {
        // the drawn value is not used by the map; record the map's largest field strength
        // instead (upper bound of the curvature, used only to recognise regimes)
        c.B[0] = c.B[1] = 0;
        c.B[2] = ctx.rz_cms_bmax;
        bmag = ctx.rz_cms_bmax;
    }

    // start class
    double u = r.uniform();
    // (S_BND_POSTFLIP -- reversing the direction *after* cross_boundary -- is not generated:
    // ORANGE then reports the re-entrant state although the volume has already changed,
    // a sequence the stepping loop never produces.)
    c.start = u < 0.30   ? S_INTERIOR
              : u < 0.45 ? S_NEAR
              : u < 0.67 ? S_BND_IN
              : u < 0.84 ? S_BND_TAN
              : u < 0.92 ? S_BND_REENT
                         : S_BND_REENT_TAN;
    c.tangent_eta = r.loguniform(1e-10, 1e-2);
    c.nprop = r.coin(0.6) ? 1 : int(r.integer(2, 4));
    c.fresh_propagator = r.coin(0.7);
    c.compare_factory = r.coin(0.1);

    // requested step: from 0.1 x minimum_step to ~100 turns (or geometry-relative)
    long double curv = curvature_per_tesla_mev * bmag * q / c.p_mev;  // 1/R_full [1/cm]
    double turn = double(6.283185307179586L / curv);
    double lo = 0.1 * c.opts.minimum_step;
    double um = r.uniform();
    if (um < 0.5)
        c.step = r.loguniform(lo, std::max(2 * lo, std::min(100 * turn, 1e8 * L)));
    else if (um < 0.9)
        c.step = r.loguniform(std::max(lo, 1e-6 * L), 1e3 * L);
    else
        c.step = c.opts.minimum_step * r.loguniform(0.1, 30);
}

}  // namespace fieldv
