// Oracles of the `field` engine (property C08).  Everything here works on plain recorded
// data (start/end snapshots, Propagation result, geometry + driver call traces) and on the
// independent references (analytic helix, analytic locator); nothing calls back into the
// code under test.
#pragma once

#include <cmath>
#include <cstdarg>
#include <string>
#include <vector>

#include "field_setup.hh"

namespace fieldv
{
constexpr double eps_m = 2.220446049250313e-16;

struct Snapshot
{
    Real3 pos{0, 0, 0}, dir{0, 0, 1};
    bool on_boundary = false;
    int volume = -1;
    std::uint64_t energy_bits = 0;
    unsigned particle_id = 0;
};

struct JudgeInput
{
    Case const* c = nullptr;
    GeoCtx const* g = nullptr;
    int k = 0;  // index in the chain
    int start_class = 0;
    double step = 0;
    Snapshot s0, s1;
    Propagation result;
    Trace const* tr = nullptr;
    int charge = 0;
    double p_mev = 0;
};

struct Finding
{
    std::string key, detail;
};

struct Verdict
{
    std::vector<Finding> findings;
    std::string outcome;  // full | boundary | looping | bump | other
    std::string cell;
    bool helix_checked = false;
    std::vector<std::pair<std::string, double>> maxima;  // observe_max
    std::vector<std::string> notes;  // observe
    void add(std::string k, std::string d) { findings.push_back({std::move(k), std::move(d)}); }
};

inline std::string fmt(char const* f, ...)
{
    char buf[512];
    va_list ap;
    va_start(ap, f);
    std::vsnprintf(buf, sizeof buf, f, ap);
    va_end(ap);
    return buf;
}

struct FieldRef
{
    bool uniform = false;  // analytic helix available
    long double bhat[3] = {0, 0, 1};
    long double omega = 0;  // signed curvature q k |B| / p  [1/cm] at the nominal momentum
    double r_full = INFINITY;  // p/(|q| B)
    double p_nominal = 0;  // MeV/c
    // same field and charge, momentum magnitude as found in an ODE state
    FieldRef at_momentum(double p) const
    {
        FieldRef f = *this;
        if (p > 0 && p_nominal > 0)
        {
            f.omega = omega * ((long double)p_nominal / (long double)p);
            f.r_full = omega != 0 ? double(1 / std::fabs(f.omega)) : INFINITY;
            f.p_nominal = p;
        }
        return f;
    }
};

inline FieldRef make_field_ref(Case const& c, int charge, double p_mev)
{
    FieldRef f;
    f.uniform = (c.field != F_RZCMS);
    f.p_nominal = p_mev;
    long double bm = std::sqrt((long double)c.B[0] * c.B[0] + (long double)c.B[1] * c.B[1]
                               + (long double)c.B[2] * c.B[2]);
    if (bm > 0)
    {
        for (int i = 0; i < 3; ++i)
            f.bhat[i] = c.B[i] / bm;
        f.omega = charge * curvature_per_tesla_mev * bm / (long double)p_mev;
        f.r_full = double(1 / std::fabs(f.omega));
    }
    return f;
}

inline double ldnorm(long double const* a, Real3 const& b)
{
    long double s = 0;
    for (int i = 0; i < 3; ++i)
        s += (a[i] - b[std::size_t(i)]) * (a[i] - b[std::size_t(i)]);
    return double(std::sqrt(s));
}

// distance from point p to the line through a, b
inline double dist_to_line(long double const* p, long double const* a, long double const* b)
{
    long double ab[3], ap[3], ab2 = 0, dot = 0;
    for (int i = 0; i < 3; ++i)
    {
        ab[i] = b[i] - a[i];
        ap[i] = p[i] - a[i];
        ab2 += ab[i] * ab[i];
        dot += ab[i] * ap[i];
    }
    if (ab2 == 0)
        return double(std::sqrt(ap[0] * ap[0] + ap[1] * ap[1] + ap[2] * ap[2]));
    long double t = dot / ab2, s = 0;
    if (t < 0)
        t = 0;
    if (t > 1)
        t = 1;
    for (int i = 0; i < 3; ++i)
    {
        long double d = ap[i] - t * ab[i];
        s += d * d;
    }
    return double(std::sqrt(s));
}

//---------------------------------------------------------------------------//
// Per-advance oracle (also used by the driver-direct mode)
//
// Error model.  The driver accepts an integration step of length h when the stepper's
// *estimate* satisfies max(|err_pos|/h, |err_mom|/|p|) <= epsilon_rel_max.  The true local
// error is bounded by K * estimate with
//  * RK4 (step doubling, Richardson-corrected result): the estimate is the difference of
//    two 4th-order results, the propagated result is 5th-order accurate: K = 1;
//  * Dormand-Prince 5(4): the estimate is |y5 - y4| ~ 2.0e-4 t^5 for a turn angle t per
//    step, the propagated y5 has the published DOPRI5 amplification polynomial
//    R(z) = sum_{k<=5} z^k/k! + z^6/600, so |R(it) - e^{it}| ~ 2.8e-4 t^6 (+ t^7/5040 ..).
//    Measured on the unchanged stepper against the exact rotation, largest accepted turn
//    angle and true/estimate there: eps 2e-4: 1.0 rad, 1.2; 5e-4: 1.2, 2.5; 1e-3: 1.36,
//    4.3; 2.3e-3: 1.6, 6.7; 4.3e-3: 1.8, 8.5 -- covered by K = 1.6 max(1, (eps/1e-4)^0.6).
//    Above eps ~ 5e-3 the estimate is no longer monotone (dip to 5.3e-3 at 2.2-2.6 rad
//    where the true error is 0.2-0.5): no bound can be derived from the documented
//    tolerance there (other pitch angles move the dip), so accuracy is declared untestable for
//    Dormand-Prince with eps > 1.5e-3 (default 1e-3).
//  * ZHelix: exact, rounding only.
// Over one advance with n stepper calls (upper bound of the number of accepted steps):
//  |p|: n K eps.  A relative momentum error e changes the curvature q B / p by e, i.e. the
//  phase advance of the rest of the arc (total turn angle t) by up to e t, so
//  direction: n K eps (1 + t);  position: K eps h (1 + n)(1 + t)  (each direction error
//  acts over at most the remaining length).
inline double estimator_factor(int integ, double eps)
{
    // (both with a 25 % safety margin on top of the derivation above)
    if (integ == I_DP)
        return 2.0 * std::max(1.0, std::pow(eps / 1e-4, 0.6));
    return 1.25;
}

inline bool finite3(Real3 const& a)
{
    return std::isfinite(a[0]) && std::isfinite(a[1]) && std::isfinite(a[2]);
}

inline void judge_advance(AdvEv const& a,
                          FieldDriverOptions const& o,
                          int integ,
                          FieldRef const& fr_nominal,
                          bool check_sagitta,
                          Verdict& v,
                          bool* untestable)
{
    std::string in = integ_name(integ);
    double h = a.out.step;
    // curvature for the momentum magnitude the advance starts from (a reused propagator
    // carries its integrated momentum from one propagation to the next)
    FieldRef fr = fr_nominal.at_momentum(norm3(a.in.mom));
    std::size_t first_finding = v.findings.size();
    if (!(h > 0) || !(h <= a.req))
    {
        v.add("C08/driver-advance/step-range/" + in,
              fmt("advance(%.17g) returned step %.17g", a.req, h));
        return;
    }
    if (!finite3(a.out.state.pos) || !finite3(a.out.state.mom))
    {
        v.add("C08/driver-advance/non-finite-state/" + in,
              fmt("advance(%.17g) from pos (%.17g,%.17g,%.17g) mom (%.17g,%.17g,%.17g) returned a non-finite state",
                  a.req, a.in.pos[0], a.in.pos[1], a.in.pos[2], a.in.mom[0], a.in.mom[1], a.in.mom[2]));
        return;
    }
    if (integ == I_DP && o.epsilon_rel_max > 1.5e-3)
    {
        *untestable = true;
        return;
    }
    double pin = norm3(a.in.mom), pout = norm3(a.out.state.mom);
    double n = double(a.ncalls);
    bool quick = (a.req <= o.minimum_step);
    double th = double(std::fabs(fr.omega)) * h;
    double eps = o.epsilon_rel_max * estimator_factor(integ, o.epsilon_rel_max);
    double quick_dir = 0, quick_pos = 0;
    if (integ != I_ZHELIX)
    {
        // Steps of length <= minimum_step are taken with one stepper call and no error
        // control: directly in advance() ("quick advance"), and inside accurate_advance
        // whenever the controller asks for less than minimum_step (h = max(proposed,
        // minimum_step) followed by the unchecked branch of integrate_step).  The local
        // truncation error of one 4th-order (or better) step of turn angle q is < q^5, so
        // up to n such steps add n q^5 (direction, |p|) and n h_q q^4 (position); nothing
        // is promised once minimum_step is not small against the gyroradius.
        double hq = quick ? h : o.minimum_step;
        double q = double(std::fabs(fr.omega)) * hq;
        if (q > 0.3)
        {
            *untestable = true;
            return;
        }
        double nq = quick ? 1 : n;
        quick_pos = nq * hq * std::pow(q, 4);
        quick_dir = nq * std::pow(q, 5);
    }
    // Errors of successive steps compound ((1 + K eps)^n): once n K eps is not small the
    // linear bounds below say nothing any more
    if (integ != I_ZHELIX && eps * n > 0.3)
    {
        *untestable = true;
        return;
    }
    // |p| drift: each accepted integration step keeps the relative momentum error estimate
    // below epsilon_rel_max; at most n such steps
    double drift = std::fabs(pout - pin) / pin;
    double e_p = (integ == I_ZHELIX ? 0 : std::expm1(n * std::log1p(eps)) + quick_dir) + 128 * eps_m * (1 + n);
    v.maxima.push_back({"mom_drift_over_bound/" + in, drift / e_p});
    if (!(drift <= e_p))
        v.add("C08/driver-advance/momentum-magnitude/" + std::string(fr.uniform ? "" : "non-uniform-field/") + in,
              fmt("|p| %.17g -> %.17g (rel drift %.3g > bound %.3g, %u stepper calls, eps_rel_max %.3g)",
                  pin, pout, drift, e_p, a.ncalls, o.epsilon_rel_max));
    if (fr.uniform)
    {
        Real3 u0 = a.in.mom;
        Helix hx(a.in.pos, u0, fr.bhat, fr.omega);
        long double xr[3], ur[3];
        hx.eval(h, xr, ur);
        double xmag = std::max({std::fabs(a.in.pos[0]), std::fabs(a.in.pos[1]), std::fabs(a.in.pos[2])});
        double e_round = 64 * eps_m * (xmag + h) * (1 + th) * (1 + n);
        double e_pos = (integ == I_ZHELIX ? 0 : (eps * h * (1 + n) + quick_pos) * (1 + th)) + e_round;
        double e_dir = (integ == I_ZHELIX ? 0 : (eps * n + quick_dir) * (1 + th)) + 128 * eps_m * (1 + th) * (1 + n);
        double errpos = ldnorm(xr, a.out.state.pos);
        Real3 ud = a.out.state.mom;
        for (auto& x : ud)
            x /= pout;
        double errdir = ldnorm(ur, ud);
        v.maxima.push_back({"adv_pos_err_over_bound/" + in, errpos / e_pos});
        v.maxima.push_back({"adv_dir_err_over_bound/" + in, errdir / e_dir});
        bool pos_ok = errpos <= e_pos;
        if (!pos_ok)
            v.add("C08/driver-advance/helix-position/" + in,
                  fmt("after advance of %.17g (requested %.17g): |pos - helix| = %.3g > %.3g "
                      "(turn angle %.3g, %u stepper calls, eps_rel_max %.3g, max_nsteps %d)",
                      h, a.req, errpos, e_pos, th, a.ncalls, o.epsilon_rel_max, int(o.max_nsteps)));
        if (!(errdir <= e_dir))
            v.add("C08/driver-advance/helix-direction/" + in,
                  fmt("after advance of %.17g: |dir - helix tangent| = %.3g > %.3g (turn angle %.3g, %u stepper "
                      "calls, eps_rel_max %.3g)",
                      h, errdir, e_dir, th, a.ncalls, o.epsilon_rel_max));
        if (check_sagitta && !quick && pos_ok)
        {
            // largest distance of the true arc from the chord (start -> true end)
            long double x0[3], xm[3];
            hx.eval(0, x0, nullptr);
            double dev = 0;
            int ns = th < 3.0 ? 1 : 32;  // the transverse direction turns by th = |w| h whatever the pitch
            for (int i = 1; i <= ns; ++i)
            {
                hx.eval(h * (long double)i / (ns + 1), xm, nullptr);
                dev = std::max(dev, dist_to_line(xm, x0, xr));
            }
            // the driver measures the sagitta on the *trial* step's midpoint, before any error
            // control: one 4th-order step over half the turn angle, local error < R (t/2)^5/50
            double mid_err = integ == I_ZHELIX ? 0 : fr.r_full * double(hx.sin_theta) * std::pow(0.5 * th, 5) / 50;
            double bound = (o.delta_chord + FieldDriverOptions::dchord_tol) * 1.1 + e_pos + mid_err;
            v.maxima.push_back({std::string("sagitta_over_bound/") + (ns == 1 ? "short-arc/" : "multi-turn/") + in,
                                dev / bound});
            if (!(dev <= bound))
                v.add(std::string("C08/driver-advance/chord-sagitta/") + (ns == 1 ? "short-arc/" + in : "multi-turn"),
                      fmt("arc of %.17g (turn angle %.3g, R_perp %.3g) deviates %.3g from its chord > "
                          "1.1 (delta_chord %.3g + tol) ; max_nsteps %d, %u stepper calls",
                          h, th, fr.r_full * double(hx.sin_theta), dev, o.delta_chord, int(o.max_nsteps), a.ncalls));
        }
    }
    // One defect, one key: when the driver's iteration budget was (possibly) exhausted in
    // this advance, every departure above is attributed to that
    if (integ != I_ZHELIX && a.ncalls >= unsigned(o.max_nsteps) && v.findings.size() > first_finding)
    {
        // (the multi-turn sagitta is a mechanism of its own and keeps its key)
        std::string all;
        std::vector<Finding> keep;
        for (std::size_t i = first_finding; i < v.findings.size(); ++i)
        {
            if (v.findings[i].key == "C08/driver-advance/chord-sagitta/multi-turn")
                keep.push_back(v.findings[i]);
            else
                all += v.findings[i].key.substr(19) + ": " + v.findings[i].detail + " | ";
        }
        v.findings.resize(first_finding);
        for (auto& f : keep)
            v.findings.push_back(std::move(f));
        if (!all.empty())
            v.add("C08/driver-advance/max_nsteps-exhausted",
                  fmt("%u stepper calls >= max_nsteps %d; ", a.ncalls, int(o.max_nsteps)) + all.substr(0, 400));
    }
}

//---------------------------------------------------------------------------//
inline bool in_volume(RefLocator const& loc, int vol, Real3 const& p, double allow)
{
    P3 q = to_p3(p);
    return loc.inside(vol, q) || loc.face_distance(vol, q) <= allow;
}

inline double geo_tol(Real3 const& p)
{
    // ORANGE's documented relative tolerance sqrt(eps) ~ 1.5e-8, times 4, on the local
    // coordinate magnitude (length scale >= 1 cm)
    double m = std::max({1.0, std::fabs(p[0]), std::fabs(p[1]), std::fabs(p[2])});
    return 6e-8 * m;
}

//---------------------------------------------------------------------------//
/*!
 * Attribution of a path excursion to the "unflagged surface point" mechanism.
 *
 * The accepted substeps of a propagation are reconstructed from the two traces (a driver
 * advance followed by move_internal / the final move_to_boundary).  For the substep that
 * covers arc position \c s_excursion the criterion is, all evaluated on recorded data and
 * the analytic geometry:
 *  - its start point P lies within the geometry tolerance of a surface f that is a face of
 *    the start volume, and the start volume is on exactly one side of f at P;
 *  - the geometry was not on a surface when it searched from P (is_on_boundary() false);
 *  - the straight chord it accepted ends on the far side of f by more than the tolerance.
 * Then the geometry let a chord pass through a face it was sitting on (the zero-distance
 * intersection is discarded), which is what produces the excursion; the chord tolerance
 * has nothing to do with it.
 */
struct UnflaggedSurfaceTunnel
{
    bool found = false;
    bool at_start = false;  // P is the start of the propagation (no accepted substep before)
    int face = -1;
    Real3 point{0, 0, 0};
    double dist_to_face = 0;
    double chord_end_beyond = 0;
    double s_begin = 0, s_end = 0;
};

inline UnflaggedSurfaceTunnel find_unflagged_surface_tunnel(
    Trace const& tr, RefLocator const& loc, int V0, Real3 const& end_pos, double distance, double s_excursion)
{
    UnflaggedSurfaceTunnel r;
    double s = 0;
    bool any_accepted = false;
    for (std::size_t i = 0; i < tr.adv.size(); ++i)
    {
        std::size_t g0 = tr.adv[i].geo_index;
        std::size_t g1 = i + 1 < tr.adv.size() ? tr.adv[i + 1].geo_index : tr.geo.size();
        bool accepted = false, searched = false, on_surface = true;
        Real3 target = end_pos;
        double len = 0;
        for (std::size_t g = g0; g < g1 && g < tr.geo.size(); ++g)
        {
            GeoEv const& e = tr.geo[g];
            if (e.kind == 'F' && !searched)
            {
                searched = true;
                on_surface = e.onb_before;
            }
            else if (e.kind == 'I' && searched && !accepted)
            {
                accepted = true;
                target = e.arg;
                len = tr.adv[i].out.step;
            }
            else if (e.kind == 'B' && searched && !accepted)
            {
                accepted = true;
                target = end_pos;
                len = std::max(0.0, distance - s);
            }
        }
        if (!accepted)
            continue;
        double s0 = s, s1 = s + len;
        s = s1;
        bool first = !any_accepted;
        any_accepted = true;
        // generous slack: the reported distance and the true arc length differ by the
        // tolerances discussed in judge_propagation; neighbouring substeps are tested too
        double slack = 1e-6 * (1 + distance) + 0.01 * len;
        if (s_excursion < s0 - slack || s_excursion > s1 + slack || on_surface)
            continue;
        Real3 const& P = tr.adv[i].in.pos;
        P3 p = to_p3(P), t = to_p3(target);
        double gt = geo_tol(P);
        for (int fi : loc.volume(V0).faces)
        {
            RefSurface const& f = loc.surface(fi);
            double sd = f.signed_distance(p);
            if (!(std::fabs(sd) <= gt))
                continue;
            P3 n = f.normal(p);
            double eps = 8 * gt;
            P3 plus{p[0] + eps * n[0], p[1] + eps * n[1], p[2] + eps * n[2]};
            P3 minus{p[0] - eps * n[0], p[1] - eps * n[1], p[2] - eps * n[2]};
            bool in_plus = loc.inside(V0, plus), in_minus = loc.inside(V0, minus);
            if (in_plus == in_minus)
                continue;  // not a local boundary of the start volume
            double sdt = f.signed_distance(t);
            // far side = the side the start volume is not on
            double beyond = in_plus ? -sdt : sdt;
            if (beyond > geo_tol(target))
            {
                r.found = true;
                r.at_start = first;
                r.face = fi;
                r.point = P;
                r.dist_to_face = std::fabs(sd);
                r.chord_end_beyond = beyond;
                r.s_begin = s0;
                r.s_end = s1;
                return r;
            }
        }
    }
    return r;
}

inline Verdict judge_propagation(JudgeInput const& ji)
{
    Verdict v;
    Case const& c = *ji.c;
    FieldDriverOptions const& o = c.opts;
    Trace const& tr = *ji.tr;
    RefLocator const& loc = *ji.g->loc;
    std::string in = integ_name(c.integ);
    std::string sc = start_name(ji.start_class);
    Propagation const& r = ji.result;
    double step = ji.step;
    FieldRef fr = make_field_ref(c, ji.charge, ji.p_mev);
    if (!tr.adv.empty())
        fr = fr.at_momentum(norm3(tr.adv.front().in.mom));
    int V0 = ji.s0.volume;

    // ---- trace-derived quantities
    std::size_t n_internal = 0, n_tomb = 0;
    for (auto const& e : tr.geo)
    {
        n_internal += (e.kind == 'I');
        n_tomb += (e.kind == 'B');
    }
    bool bump_tail = tr.geo.size() >= 2 && tr.geo.back().kind == 'I'
                     && tr.geo[tr.geo.size() - 2].kind == 'D';
    double ncalls = 0;
    for (auto const& a : tr.adv)
        ncalls += a.ncalls;
    double bump = 0.1 * o.delta_intersection;

    // ---- O1 particle untouched
    if (ji.s1.energy_bits != ji.s0.energy_bits || ji.s1.particle_id != ji.s0.particle_id)
        v.add("C08/particle-modified/" + in, "propagator changed the particle's energy or type");

    // ---- O2 unit direction (normalisation of a 3-vector: a few ulp)
    double dn = norm3(ji.s1.dir);
    if (!(std::fabs(dn - 1) <= 1e-14))
        v.add("C08/direction-not-unit/" + in, fmt("|dir| - 1 = %.3g", dn - 1));

    // ---- O3 distance in (0, step] up to rounding of the substep accumulation
    double d = r.distance;
    double round_rel = (8 + 2 * double(tr.adv.size())) * eps_m;
    if (!(d > 0))
        v.add("C08/distance-range/non-positive/" + in, fmt("distance %.17g for step %.17g", d, step));
    else if (!(d <= step * (1 + round_rel)))
        v.add("C08/distance-range/exceeds-step/" + in,
              fmt("distance %.17g > step %.17g (rel excess %.3g)", d, step, d / step - 1));

    // ---- O4 outcome
    if (r.looping && r.boundary)
    {
        v.outcome = "other";
        v.add("C08/outcome/looping-and-boundary/" + sc, "both flags set");
    }
    else if (r.looping)
    {
        v.outcome = "looping";
        if (n_internal != std::size_t(o.max_substeps))
            v.add("C08/outcome/looping-budget-not-spent/" + sc,
                  fmt("looping after %zu accepted substeps, max_substeps %d", n_internal, int(o.max_substeps)));
        if (!(d < step))
            v.add("C08/outcome/looping-at-full-step/" + sc, "looping flagged although distance == step");
        if (ji.s1.on_boundary)
            v.add("C08/outcome/boundary-flag-mismatch/looping", "geometry on boundary, flag false");
    }
    else if (r.boundary)
    {
        v.outcome = "boundary";
        if (!ji.s1.on_boundary)
            v.add("C08/outcome/boundary-flag-mismatch/boundary-unsynchronised",
                  fmt("boundary=true returned but geometry is_on_boundary()=false (%zu move_to_boundary calls)",
                      n_tomb));
        else if (n_tomb == 0 && !ji.s0.on_boundary)
            v.add("C08/outcome/boundary-flag-mismatch/no-move_to_boundary", "on boundary without move_to_boundary");
    }
    else
    {
        if (ji.s1.on_boundary)
            v.add("C08/outcome/boundary-flag-mismatch/flag-false-on-boundary",
                  "boundary=false returned but geometry is_on_boundary()=true");
        if (d >= step)  // (an excess beyond the rounding allowance is reported by O3)
        {
            v.outcome = "full";
            if (bump_tail)
                v.notes.push_back("full-step-via-bump(step<=bump_distance)");
        }
        else if (bump_tail && d == std::min(bump, step))
        {
            // the documented 4th outcome: keyed on its own, neither whitelisted nor generic
            v.outcome = "bump";
            std::string proto;
            for (auto const& pe : tr.protocol)
                proto += pe.rule + ";";
            v.add("C08/outcome/bump/" + sc,
                  fmt("no progress: bumped %.3g along the direction, returned boundary=false looping=false "
                      "distance<step (step %.17g, %zu driver advances; protocol notes: %s)",
                      d, step, tr.adv.size(), proto.empty() ? "-" : proto.c_str()));
        }
        else
        {
            v.outcome = "other";
            v.add("C08/outcome/short-step-without-flag/" + sc,
                  fmt("distance %.17g < step %.17g with boundary=false looping=false (no bump signature)", d, step));
        }
    }

    // ---- O5 protocol monitor (the bump's own move is reported with the bump, see above)
    for (auto const& pe : tr.protocol)
    {
        bool in_bump_tail = bump_tail && pe.at + 1 == tr.geo.size();
        if (in_bump_tail)
        {
            v.notes.push_back("bump-tail-protocol:" + pe.rule);
            continue;
        }
        v.add("C08/protocol/" + pe.rule, fmt("at geometry call #%zu of %zu", pe.at, tr.geo.size()));
    }

    // ---- tolerances shared below
    double gt = geo_tol(ji.s1.pos);
    AdvEv const* last = tr.adv.empty() ? nullptr : &tr.adv.back();
    double hc = 1;  // arc/chord ratio of the last trial substep
    if (last)
    {
        double cl = dist3(last->in.pos, last->out.state.pos);
        hc = cl > 0 ? std::max(1.0, last->out.step / cl) : INFINITY;
    }
    // reported distance vs arc length actually travelled: loop exit with remaining <=
    // minimum_step, intercepts closer than minimum_step, and the linear rescaling of the
    // last substep by (intercept distance / chord length) within delta_intersection
    // (the last also applies without a boundary hit: when the intercept lies past the substep
    // end and crossing would exceed the step, the propagator stops at the substep end and
    // reports the full step -- "the distance returned may be slightly higher (up to a
    // driver-based tolerance) than the physical distance travelled")
    double t_arc = 2 * o.minimum_step + 1.05 * o.delta_intersection * hc
                   + 4 * eps_m * d * (1 + double(tr.adv.size()));
    double keps = o.epsilon_rel_max * estimator_factor(c.integ, o.epsilon_rel_max);
    double th_tot = double(std::fabs(fr.omega)) * d;
    double t_int = keps * d * (1 + ncalls) * (1 + th_tot);  // accumulated truncation allowance
    double xmag = std::max({std::fabs(ji.s0.pos[0]), std::fabs(ji.s0.pos[1]), std::fabs(ji.s0.pos[2])});
    double t_round = 64 * eps_m * (xmag + d) * (1 + th_tot) * (1 + ncalls);
    if (c.integ == I_ZHELIX)
        t_int = 0;

    // regimes where nothing can be said about the integration accuracy
    bool untestable = (c.integ == I_DP && o.epsilon_rel_max > 1.5e-3);

    // ---- O8a every driver advance against the helix / |p| drift
    std::size_t findings_before_adv = v.findings.size();
    {
        std::size_t nadv = tr.adv.size();
        for (std::size_t i = 0; i < nadv; ++i)
        {
            if (i >= 24 && i + 4 < nadv)
                continue;  // long loops: first 24 and last 4 advances
            judge_advance(tr.adv[i], o, c.integ, fr, true, v, &untestable);
            if (v.findings.size() > findings_before_adv)
                break;  // later advances start from an already wrong state
        }
        // steps <= minimum_step carry no error control (see judge_advance): up to ncalls
        // of them, each of turn angle q
        if (c.integ != I_ZHELIX && fr.uniform)
        {
            double q = double(std::fabs(fr.omega)) * o.minimum_step;
            if (q > 0.3 || keps * (1 + ncalls) > 0.3)
                untestable = true;
            t_int += ncalls * (o.minimum_step * std::pow(q, 4) + d * std::pow(q, 5)) * (1 + th_tot);
        }
    }

    // A wrong state out of the driver/stepper is the root cause of whatever the propagator
    // then does with it: report that defect only (one defect, one key)
    bool adv_failed = v.findings.size() > findings_before_adv;
    if (adv_failed)
    {
        v.notes.push_back("consequences-suppressed:an-advance-already-failed");
        std::vector<Finding> keep;
        for (auto& f : v.findings)
            if (f.key.rfind("C08/outcome/", 0) != 0)
                keep.push_back(std::move(f));
        v.findings.swap(keep);
    }

    // ---- O6/O7 geometry consistency
    bool escaped = false;
    if (V0 >= 0 && !adv_failed)
    {
        // accepted substep end points are chord-tested by the geometry: must be in V0
        std::size_t gi = 0;
        for (auto const& e : tr.geo)
        {
            ++gi;
            if (e.kind != 'I')
                continue;
            bool is_bump_move = bump_tail && gi == tr.geo.size();
            if (is_bump_move && v.outcome == "bump")
                continue;
            // allowance: the boundary position is only promised to delta_intersection
            // ("accuracy of intersection of the boundary crossing") + geometry tolerance
            if (!in_volume(loc, V0, e.arg, geo_tol(e.arg) + o.delta_intersection))
            {
                escaped = true;
                P3 q = to_p3(e.arg);
                // site: was the geometry direction refreshed for this substep?  (set_dir is
                // skipped when the chord is shorter than minimum_step)
                // (when it is done, set_dir immediately precedes the find_next_step that
                // accepted the substep)
                bool dir_set = gi >= 3 && tr.geo[gi - 2].kind == 'F' && tr.geo[gi - 3].kind == 'D';
                // The substep that actually carried the track across the face is the first
                // accepted one whose end is strictly outside the start volume (the allowance
                // above only decides *whether* to report): the site is decided there.
                for (std::size_t h = 0; h + 1 < gi; ++h)
                {
                    GeoEv const& eh = tr.geo[h];
                    if (eh.kind != 'I' || in_volume(loc, V0, eh.arg, geo_tol(eh.arg)))
                        continue;
                    dir_set = h >= 2 && tr.geo[h - 1].kind == 'F' && tr.geo[h - 2].kind == 'D';
                    break;
                }
                v.add("C08/escaped-volume/" + (dir_set ? sc : std::string("direction-not-updated")),
                      fmt("accepted substep end (%.17g, %.17g, %.17g) (geometry call #%zu) is outside start volume "
                          "%d (%s) by %.3g: a boundary was passed without being detected; outcome %s",
                          e.arg[0], e.arg[1], e.arg[2], gi - 1, V0, loc.volume(V0).label.c_str(),
                          loc.face_distance(V0, q), v.outcome.c_str()));
                break;
            }
        }
        if (v.outcome == "full" || v.outcome == "looping")
        {
            if (!escaped && !in_volume(loc, V0, ji.s1.pos, gt + o.delta_intersection))
            {
                escaped = true;
                v.add("C08/escaped-volume/" + sc,
                      fmt("end point (%.17g, %.17g, %.17g) of a '%s' outcome is not in start volume %d (%s) per "
                          "analytic locator",
                          ji.s1.pos[0], ji.s1.pos[1], ji.s1.pos[2], v.outcome.c_str(), V0,
                          loc.volume(V0).label.c_str()));
            }
        }
        else if (v.outcome == "boundary")
        {
            double fd = loc.face_distance(V0, to_p3(ji.s1.pos));
            v.maxima.push_back({"boundary_end_surface_distance_over_tol", fd / gt});
            // the boundary point must belong to the closure of the start volume: stepping
            // back along the last chord by a few allowances must land inside it
            if (!escaped && fd <= gt)
            {
                Real3 cdir{0, 0, 0};
                for (std::size_t g = tr.geo.size(); g-- > 0;)
                    if (tr.geo[g].kind == 'B')
                    {
                        for (std::size_t h = g; h-- > 0;)
                            if (tr.geo[h].kind == 'D')
                            {
                                cdir = tr.geo[h].arg;
                                break;
                            }
                        break;
                    }
                // only meaningful when the final straight move was longer than the back-step
                double moved = 0;
                for (std::size_t g = tr.geo.size(); g-- > 0;)
                    if (tr.geo[g].kind == 'B')
                    {
                        moved = dist3(tr.geo[g].pos, ji.s1.pos);
                        break;
                    }
                if (norm3(cdir) > 0.5 && moved > 8 * (gt + o.delta_intersection))
                {
                    bool in_closure = false;
                    for (double back : {2.0, 3.0, 4.0})
                    {
                        double eb = back * (gt + o.delta_intersection);
                        Real3 q{ji.s1.pos[0] - eb * cdir[0], ji.s1.pos[1] - eb * cdir[1], ji.s1.pos[2] - eb * cdir[2]};
                        in_closure = in_closure || in_volume(loc, V0, q, 0.0) ;
                    }
                    // (in_volume with zero allowance = strict membership or exactly on a face)
                    if (!in_closure)
                    {
                        escaped = true;
                        v.add("C08/escaped-volume/" + sc,
                              fmt("boundary point (%.17g, %.17g, %.17g) is on a surface of start volume %d (%s) but "
                                  "not on its boundary: the points just before it along the last chord are outside "
                                  "the volume (a boundary was passed without being detected)",
                                  ji.s1.pos[0], ji.s1.pos[1], ji.s1.pos[2], V0, loc.volume(V0).label.c_str()));
                    }
                }
            }
            if (!escaped && !(fd <= gt))
                v.add("C08/boundary/end-not-on-surface/" + sc,
                      fmt("boundary=true but end point is %.3g from the nearest surface of start volume %d (%s)",
                          fd, V0, loc.volume(V0).label.c_str()));
        }
        else if (v.outcome == "bump")
        {
            P3 q = to_p3(ji.s1.pos);
            if (!loc.inside(V0, q) && loc.face_distance(V0, q) > gt)
                v.add("C08/outcome/bump-left-volume/" + sc,
                      fmt("bumped position is outside start volume %d (%s) by %.3g",
                          V0, loc.volume(V0).label.c_str(), loc.face_distance(V0, q)));
        }
    }

    // ---- O8b end state on the analytic helix from the start state
    if (fr.uniform && !untestable && !adv_failed && d > 0 && std::isfinite(t_arc) && v.outcome != "other")
    {
        v.helix_checked = true;
        Helix hx(ji.s0.pos, ji.s0.dir, fr.bhat, fr.omega);
        long double xe[3], ue[3];
        hx.eval(d, xe, ue);
        double errpos = ldnorm(xe, ji.s1.pos);
        double t_pos = t_int + t_round + t_arc + (r.boundary ? o.delta_intersection : 0);
        if (bump_tail)
            t_pos = d * (1 + th_tot) + t_round;  // straight move of length d <= bump instead of an arc
        v.maxima.push_back({"end_pos_err_over_bound/" + in, errpos / t_pos});
        if (!(errpos <= t_pos))
        {
            // classify: off the curve, or on it at the wrong arc length
            double best = errpos;
            long double sbest = d;
            for (int i = 0; i <= 400; ++i)
            {
                long double s = (long double)d * 1.05L * i / 400;
                long double xs[3];
                hx.eval(s, xs, nullptr);
                double e = ldnorm(xs, ji.s1.pos);
                if (e < best)
                {
                    best = e;
                    sbest = s;
                }
            }
            bool on_curve = best <= t_pos;
            v.add(std::string("C08/helix/") + (on_curve ? "arc-length/" : "end-position/") + v.outcome + "/" + in,
                  fmt("|end - helix(distance)| = %.3g > %.3g (integration %.3g, arc %.3g, delta_int %.3g); "
                      "closest sampled helix point at s=%.17Lg (distance %.17g) is %.3g away",
                      errpos, t_pos, t_int, t_arc, o.delta_intersection, sbest, d, best));
        }
        // final direction = tangent of the helix at the end ("direction from the integrated momentum")
        double e_dir = (c.integ == I_ZHELIX ? 0 : keps * (1 + ncalls) * (1 + th_tot))
                       + (t_arc + (r.boundary ? o.delta_intersection : 0) + t_int) * double(std::fabs(fr.omega))
                       + 128 * eps_m * (1 + th_tot) * (1 + ncalls);
        if (bump_tail)
            e_dir = d * double(std::fabs(fr.omega)) + 64 * eps_m;  // direction unchanged over a move of d
        double errdir = ldnorm(ue, ji.s1.dir);
        v.maxima.push_back({"end_dir_err_over_bound/" + in, errdir / e_dir});
        if (!(errdir <= e_dir))
        {
            // Site: when the straight-line intercept is closer than minimum_step the
            // propagator commits the momentum of the *end* of the trial substep although the
            // track only moves to the intercept; recognisable because the last trial
            // substep is longer than what was added to the distance by more than the error
            double accepted = 0;
            for (std::size_t i = 0; i + 1 < tr.adv.size(); ++i)
                if (tr.adv[i + 1].geo_index > tr.adv[i].geo_index)
                {
                    bool moved = false;
                    for (std::size_t g = tr.adv[i].geo_index; g < tr.adv[i + 1].geo_index && g < tr.geo.size(); ++g)
                        moved = moved || tr.geo[g].kind == 'I';
                    if (moved)
                        accepted += tr.adv[i].out.step;
                }
            double tail = std::max(0.0, d - accepted);
            double unexplained = last ? (last->out.step - tail) * double(std::fabs(fr.omega)) : 0.0;
            bool substep_end_mom = r.boundary && last && unexplained > e_dir && errdir <= 1.5 * unexplained + e_dir;
            v.add(substep_end_mom ? std::string("C08/helix/end-direction/boundary-momentum-of-substep-end")
                                  : "C08/helix/end-direction/" + v.outcome + "/" + in,
                  fmt("|dir - helix tangent(distance)| = %.3g > %.3g (turn angle of step %.3g, last trial substep "
                      "%.3g long = turn angle %.3g, of which %.3g was added to the distance)",
                      errdir, e_dir, th_tot, last ? last->out.step : 0.0,
                      last ? double(std::fabs(fr.omega)) * last->out.step : 0.0, tail));
        }

        // no earlier boundary: the true path between start and reported end stays within
        // the chord tolerance of the start volume
        if (V0 >= 0 && v.outcome != "bump" && !escaped)
        {
            double allow = (o.delta_chord + FieldDriverOptions::dchord_tol) * 1.1 + o.delta_intersection
                           + t_int + t_round + t_arc + gt;
            double rr = fr.r_full;
            double ds = std::min(rr / 12, std::sqrt(rr * allow));
            int ns = std::isfinite(ds) && ds > 0 ? int(std::min(1000.0, std::max(24.0, std::ceil(d / ds)))) : 24;
            double worst = 0;
            long double sw = 0;
            for (int i = 1; i < ns; ++i)
            {
                long double s = (long double)d * i / ns;
                long double xs[3];
                hx.eval(s, xs, nullptr);
                P3 q{double(xs[0]), double(xs[1]), double(xs[2])};
                if (loc.inside(V0, q))
                    continue;
                double fd = loc.face_distance(V0, q);
                if (fd > worst)
                {
                    worst = fd;
                    sw = s;
                }
            }
            v.maxima.push_back({"helix_excursion_over_allowance", worst / allow});
            if (worst > allow)
            {
                bool tight = (o.delta_chord + FieldDriverOptions::dchord_tol) * 1.1 < 2 * rr * double(hx.sin_theta);
                double maxturn = 0;
                for (auto const& a : tr.adv)
                    maxturn = std::max(maxturn, double(std::fabs(fr.omega)) * a.out.step);
                std::string site = maxturn > 3.0 ? "multi-turn-substep" : "short-substep";
                std::string why;
                UnflaggedSurfaceTunnel ut = find_unflagged_surface_tunnel(tr, loc, V0, ji.s1.pos, d, double(sw));
                if (ut.found)
                {
                    // Mechanism of its own (not a chord-tolerance matter): the accepted substep
                    // that covers the excursion started from a point that lies on a face of
                    // the start volume (within the geometry tolerance) while the geometry
                    // state was *not* on-surface, and its straight chord ends on the far side
                    // of that face: the geometry let the chord pass through the face.
                    // (keyed by mechanism only: the start class merely decides how the track got
                    // onto the face)
                    site = ut.at_start ? "tunnel-after-unflagged-surface-start" : "tunnel-after-unflagged-substep-end";
                    why = fmt("; the accepted substep covering s in [%.9g, %.9g] starts at (%.17g, %.17g, %.17g), %.3g from "
                              "face '%s' of the start volume with is_on_boundary()=false, and its chord ends %.3g "
                              "beyond that face",
                              ut.s_begin, ut.s_end, ut.point[0], ut.point[1], ut.point[2], ut.dist_to_face,
                              loc.surface(ut.face).label.c_str(), ut.chord_end_beyond);
                }
                v.add("C08/earlier-boundary/" + (ut.found ? site : "path-excursion/" + site),
                      fmt("analytic path leaves start volume %d (%s) by %.3g at s=%.17Lg of %.17g (allowance %.3g = "
                          "1.1 delta_chord %.3g + delta_int + integration); R_perp %.3g, largest substep turn "
                          "angle %.3g, 2R_perp>delta_chord: %d",
                          V0, loc.volume(V0).label.c_str(), worst, sw, d, allow, o.delta_chord,
                          rr * double(hx.sin_theta), maxturn, int(tight))
                          + why);
            }
        }
    }
    else if (fr.uniform)
    {
        v.notes.push_back(untestable ? "helix-untestable:no-error-control-regime" : "helix-skipped");
    }

    // ---- coverage cell
    double L = V0 >= 0 ? loc.volume(V0).scale : loc.global_scale();
    int dec = 99;
    if (std::isfinite(fr.r_full))
        dec = int(std::max(-7.0, std::min(7.0, std::floor(std::log10(fr.r_full / L)))));
    v.cell = in + "/" + field_name(c.field) + "/" + v.outcome + "/" + sc + "/R_over_L=1e" + std::to_string(dec);
    return v;
}

}  // namespace fieldv
