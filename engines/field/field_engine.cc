// Engine `field` (property C08): field propagation follows the field and stays consistent
// with the geometry.
//
// Real code driven: FieldPropagator / FieldDriver / {DormandPrince, RungeKutta, ZHelix}Stepper
// / MagFieldEquation / {Uniform, UniformZ, RZMap}Field through make_mag_field_stepper,
// make_mag_field_propagator and OrangeTrackView on bundled ORANGE geometries.
// Observation: FieldPropagator is a template on the geometry-track-view type and on the
// driver type, so a MonitoringGTV and a MonitoringDriver (field_monitors.hh) are slotted in
// through the public API; they forward every call unchanged and record it.
// Oracles (field_judge.hh): analytic helix (long double), analytic point locator read from
// the geometry *definition* (field_locator.hh), the OrangeTrackView ordering contract, and
// the outcome trichotomy of the property statement.
#include <cstdarg>
#include <optional>

#include "corecel/Assert.hh"
#include "celeritas/field/DormandPrinceStepper.hh"
#include "celeritas/field/FieldDriver.hh"
#include "celeritas/field/FieldDriverOptions.hh"
#include "celeritas/field/FieldPropagator.hh"
#include "celeritas/field/MakeMagFieldPropagator.hh"
#include "celeritas/field/RZMapField.hh"

#include "field_map_check.hh"
#include "celeritas/field/RungeKuttaStepper.hh"
#include "celeritas/field/UniformField.hh"
#include "celeritas/field/UniformZField.hh"
#include "celeritas/field/ZHelixStepper.hh"

#include "field_judge.hh"
#include "verif_celer.hh"

using namespace celeritas;
using namespace fieldv;
using verif::json;

namespace
{
//---------------------------------------------------------------------------//
struct Engine
{
    Ctx& ctx;
    verif::Report& rep;
    verif::Args const& args;
    bool verbose = false;
};

Real3 perpendicular_unit(verif::Rng& r, Real3 const& n)
{
    for (;;)
    {
        Real3 a = random_dir(r);
        double dp = a[0] * n[0] + a[1] * n[1] + a[2] * n[2];
        Real3 t{a[0] - dp * n[0], a[1] - dp * n[1], a[2] - dp * n[2]};
        if (norm3(t) > 0.1)
            return unit3(t);
    }
}

// Replay the start of a case on a real geometry view from the recorded fields
bool apply_start(Case const& c, OrangeTrackView& geo, std::string* why)
{
    geo = GeoTrackInitializer{c.pos0, c.dir0};
    if (geo.failed() || geo.is_outside())
    {
        *why = "rejected input: geometry initialisation failed or outside";
        return false;
    }
    if (c.start == S_INTERIOR || c.start == S_NEAR)
        return true;
    Propagation p = geo.find_next_step();
    if (!p.boundary)
    {
        *why = "rejected input: no boundary along the approach ray";
        return false;
    }
    geo.move_to_boundary();
    if (c.has_pre)
    {
        geo.set_dir(c.pre_dir);
    }
    geo.cross_boundary();
    if (geo.failed() || geo.is_outside())
    {
        *why = "rejected input: start crossing failed or left the world";
        return false;
    }
    if (c.has_post)
        geo.set_dir(c.post_dir);
    if (!geo.is_on_boundary())
    {
        *why = "rejected input: not on boundary after crossing";
        return false;
    }
    return true;
}

// Choose the start (position / directions) using the analytic geometry and, for boundary
// starts, the real geometry to find the crossing point.
bool plan_start(Engine& E, verif::Rng& r, Case& c, GeoCtx& g, OrangeTrackView& geo, std::string* why)
{
    RefLocator const& loc = *g.loc;
    int v = c.start_volume_hint;
    double L = loc.volume(v).scale;
    (void)E;
    if (c.start == S_INTERIOR)
    {
        P3 p;
        if (!sample_interior(r, loc, v, &p))
        {
            *why = "rejected input: could not sample interior point";
            return false;
        }
        c.pos0 = to_real3(p);
        c.dir0 = random_dir(r);
        return apply_start(c, geo, why);
    }
    if (c.start == S_NEAR)
    {
        P3 p;
        int face = -1;
        double eps = r.loguniform(1e-6, 1e-2) * std::max(1.0, L * 0.1);
        if (!sample_near_face(r, loc, v, eps, &p, &face))
        {
            *why = "rejected input: could not sample near-face point";
            return false;
        }
        RefSurface const& s = loc.surface(face);
        P3 n = s.normal(p);
        double sd = s.signed_distance(p);
        double toward = sd > 0 ? -1 : 1;
        Real3 nn{toward * n[0], toward * n[1], toward * n[2]};
        Real3 t = perpendicular_unit(r, nn);
        double u = r.uniform();
        double cn, ct;
        if (u < 0.35)
        {
            cn = r.uniform(0.05, 1);  // toward the face
            ct = std::sqrt(1 - cn * cn);
        }
        else if (u < 0.7)
        {
            cn = (r.coin() ? 1 : -1) * c.tangent_eta;  // grazing
            ct = 1;
        }
        else if (u < 0.85)
        {
            cn = -r.uniform(0.05, 1);  // away
            ct = std::sqrt(1 - cn * cn);
        }
        else
        {
            c.pos0 = to_real3(p);
            c.dir0 = random_dir(r);
            return apply_start(c, geo, why);
        }
        c.pos0 = to_real3(p);
        c.dir0 = unit3(Real3{cn * nn[0] + ct * t[0], cn * nn[1] + ct * t[1], cn * nn[2] + ct * t[2]});
        return apply_start(c, geo, why);
    }
    // boundary starts
    for (int attempt = 0; attempt < 8; ++attempt)
    {
        P3 a;
        if (!sample_interior(r, loc, v, &a))
            continue;
        RefVolume const& vol = loc.volume(v);
        int fi = vol.faces[std::size_t(r.integer(0, std::int64_t(vol.faces.size()) - 1))];
        P3 b = point_on_surface(r, loc.surface(fi), vol.lo, vol.hi);
        Real3 dir{b[0] - a[0], b[1] - a[1], b[2] - a[2]};
        if (!(norm3(dir) > 1e-6 * L))
            continue;
        c.pos0 = to_real3(a);
        c.dir0 = unit3(dir);
        c.has_pre = c.has_post = false;
        geo = GeoTrackInitializer{c.pos0, c.dir0};
        if (geo.failed() || geo.is_outside())
            continue;
        Propagation p = geo.find_next_step();
        if (!p.boundary)
            continue;
        geo.move_to_boundary();
        P3 pb = to_p3(geo.pos());
        double d1, d2;
        int si = loc.nearest_surface(pb, &d1, &d2);
        if (si < 0 || d1 > 1e-6 * std::max(1.0, L) || d2 < 1e-5 * L)
            continue;  // not cleanly on a single surface
        P3 n = loc.surface(si).normal(pb);
        double dn = n[0] * c.dir0[0] + n[1] * c.dir0[1] + n[2] * c.dir0[2];
        if (std::fabs(dn) < 1e-6)
            continue;
        double sg = dn > 0 ? 1 : -1;  // outward along the travel direction
        Real3 nn{sg * n[0], sg * n[1], sg * n[2]};
        Real3 t = perpendicular_unit(r, nn);
        auto mix = [&](double cn, double ct) {
            return unit3(Real3{cn * nn[0] + ct * t[0], cn * nn[1] + ct * t[1], cn * nn[2] + ct * t[2]});
        };
        double gen = r.uniform(0.05, 1);
        switch (c.start)
        {
            case S_BND_IN: break;
            case S_BND_TAN:
                c.has_pre = true;
                c.pre_dir = mix(c.tangent_eta, 1);
                break;
            case S_BND_REENT:
                c.has_pre = true;
                c.pre_dir = mix(-gen, std::sqrt(1 - gen * gen));
                break;
            case S_BND_REENT_TAN:
                c.has_pre = true;
                c.pre_dir = mix(-c.tangent_eta, 1);
                break;
            case S_BND_POSTFLIP:
                c.has_post = true;
                c.post_dir = r.coin() ? mix(-gen, std::sqrt(1 - gen * gen)) : mix(-c.tangent_eta, 1);
                break;
            default: break;
        }
        std::string w;
        if (apply_start(c, geo, &w))
            return true;
        *why = w;
    }
    if (why->empty())
        *why = "rejected input: could not construct boundary start";
    return false;
}

//---------------------------------------------------------------------------//
json trace_json(Trace const& tr, bool full = false)
{
    json j;
    json ge = json::array();
    std::size_t n = tr.geo.size();
    for (std::size_t i = 0; i < n; ++i)
    {
        if (!full && i >= 30 && i + 10 < n)
            continue;
        auto const& e = tr.geo[i];
        json x;
        x["i"] = i;
        x["op"] = std::string(1, e.kind);
        x["pos"] = verif::jarr3(e.pos);
        if (e.kind == 'D' || e.kind == 'I')
            x["arg"] = verif::jarr3(e.arg);
        if (e.kind == 'F')
        {
            x["max"] = e.maxd;
            x["dist"] = e.dist;
            x["boundary"] = e.boundary;
        }
        x["onb"] = {e.onb_before, e.onb_after};
        ge.push_back(x);
    }
    j["geo_calls"] = ge;
    j["n_geo_calls"] = n;
    json ad = json::array();
    std::size_t m = tr.adv.size();
    for (std::size_t i = 0; i < m; ++i)
    {
        if (!full && i >= 20 && i + 6 < m)
            continue;
        auto const& a = tr.adv[i];
        json x;
        x["i"] = i;
        x["req"] = a.req;
        x["step"] = a.out.step;
        x["pos_in"] = verif::jarr3(a.in.pos);
        x["mom_in"] = verif::jarr3(a.in.mom);
        x["pos_out"] = verif::jarr3(a.out.state.pos);
        x["mom_out"] = verif::jarr3(a.out.state.mom);
        x["stepper_calls"] = a.ncalls;
        ad.push_back(x);
    }
    j["driver_advances"] = ad;
    j["n_driver_advances"] = m;
    return j;
}

void record(Engine& E, Verdict const& v, json const& witness)
{
    // margins (error / tolerance) are reported for held cases only, so that they show how
    // close the unchanged code comes to each bound
    if (v.findings.empty())
        for (auto const& m : v.maxima)
            E.rep.observe_max("held:" + m.first, m.second);
    for (auto const& n : v.notes)
        E.rep.observe(n);
    if (v.findings.empty())
    {
        E.rep.held(v.cell);
        return;
    }
    bool first = true;
    std::vector<std::string> seen;
    for (auto const& f : v.findings)
    {
        if (std::find(seen.begin(), seen.end(), f.key) != seen.end())
            continue;
        seen.push_back(f.key);
        if (first)
            E.rep.violation(f.key, f.detail, witness);
        else
            E.rep.violation_in_case(f.key, f.detail, witness);
        first = false;
    }
}

//---------------------------------------------------------------------------//
template<template<class> class StepperTT, class FieldT>
void run_propagations(Engine& E, verif::Rng& r, Case& c, GeoCtx& g, FieldT const& field)
{
    OrangeTrackView real_geo(g.params->host_ref(), g.state.ref(), TrackSlotId{0});
    std::string why;
    if (!plan_start(E, r, c, g, real_geo, &why))
    {
        E.rep.inconclusive(why);
        return;
    }
    ParticleTrackView particle(E.ctx.particles->host_ref(), E.ctx.pstate.ref(), TrackSlotId{0});
    particle = ParticleTrackView::Initializer_t{ParticleId(unsigned(c.particle)), units::MevEnergy{c.ekin}};
    int charge = E.ctx.pdefs[std::size_t(c.particle)].charge;
    double mass = E.ctx.pdefs[std::size_t(c.particle)].mass;
    // momentum as an independent function of the energy handed to the particle view
    double p_mev = double(std::sqrt((long double)c.ekin * ((long double)c.ekin + 2 * (long double)mass)));
    double p_lib = value_as<units::MevMomentum>(particle.momentum());
    if (!(std::fabs(p_lib - p_mev) <= 1e-12 * p_mev))
    {
        E.rep.violation("C08/particle-momentum-mismatch",
                        fmt("ParticleTrackView::momentum %.17g vs sqrt(T(T+2m)) %.17g", p_lib, p_mev),
                        c.to_json());
        return;
    }

    Trace tr;
    unsigned ncalls = 0;
    MonitoringGTV<OrangeTrackView> geo(real_geo, tr);
    using RealStepper = decltype(make_mag_field_stepper<StepperTT>(field, particle.charge()));
    using CStepper = CountingStepper<RealStepper>;
    using MDriver = MonitoringDriver<FieldDriver<CStepper>>;
    using Prop = FieldPropagator<MDriver, MonitoringGTV<OrangeTrackView>&>;
    std::optional<Prop> prop;

    double step = c.step;
    for (int k = 0; k < c.nprop; ++k)
    {
        JudgeInput ji;
        ji.c = &c;
        ji.g = &g;
        ji.k = k;
        ji.step = step;
        ji.charge = charge;
        ji.p_mev = p_mev;
        ji.start_class = k == 0 ? c.start : (real_geo.is_on_boundary() ? S_CHAIN_BND : S_CHAIN_INT);
        ji.s0.pos = real_geo.pos();
        ji.s0.dir = real_geo.dir();
        ji.s0.on_boundary = real_geo.is_on_boundary();
        ji.s0.volume = int(real_geo.volume_id().unchecked_get());
        ji.s0.energy_bits = verif::bits_of(value_as<units::MevEnergy>(particle.energy()));
        ji.s0.particle_id = particle.particle_id().unchecked_get();
        // interior starts: the analytic locator must agree with the geometry state about
        // the start volume (that agreement itself is property C03, not judged here)
        if (!ji.s0.on_boundary)
        {
            int lv = g.loc->locate(to_p3(ji.s0.pos));
            if (lv != ji.s0.volume)
            {
                E.rep.inconclusive("untestable: start volume differs between geometry and analytic locator");
                E.rep.observe("locator-mismatch:" + g.name + ":" + start_name(ji.start_class));
                return;
            }
        }
        tr.clear();
        Propagation result;
        try
        {
            if (!prop || c.fresh_propagator)
            {
                ncalls = 0;
                prop.emplace(MDriver{FieldDriver{c.opts,
                                                 CStepper{make_mag_field_stepper<StepperTT>(field, particle.charge()),
                                                          &ncalls}},
                                     &tr,
                                     &ncalls},
                             particle,
                             geo);
            }
            result = (*prop)(step);
        }
        catch (DebugError const& e)
        {
            if (verif::is_bounds_assertion(e))
                E.rep.violation(verif::bounds_key("C08", e), e.what(), c.to_json());
            else
            {
                E.rep.inconclusive("debug-assert: " + verif::describe(e));
                E.rep.observe("assert:" + verif::describe(e) + " [" + integ_name(c.integ) + "/" + field_name(c.field) + "]");
            }
            return;
        }
        catch (WatchdogTripped const& w)
        {
            json wj = c.to_json();
            wj["chain_index"] = k;
            wj["requested_step"] = step;
            wj["start"] = {{"pos", verif::jarr3(ji.s0.pos)}, {"dir", verif::jarr3(ji.s0.dir)},
                           {"on_boundary", ji.s0.on_boundary}, {"volume", ji.s0.volume}};
            wj["trace"] = trace_json(tr);
            // a wrong state out of the driver is the root cause of whatever the loop does
            // with it: report that instead (one defect, one key)
            if (!tr.adv.empty())
            {
                Verdict v0;
                bool unt = false;
                judge_advance(tr.adv.front(), c.opts, c.integ, make_field_ref(c, charge, p_mev), false, v0, &unt);
                if (!v0.findings.empty())
                {
                    E.rep.observe("non-terminating-loop-after-wrong-advance");
                    E.rep.violation(v0.findings.front().key,
                                    v0.findings.front().detail + " (then: propagation loop did not terminate)",
                                    wj);
                    return;
                }
            }
            E.rep.violation(std::string("C08/hang/propagation-loop/") + start_name(ji.start_class),
                            fmt("propagation did not terminate within %zu geometry/driver calls", w.calls),
                            wj);
            return;
        }
        ji.result = result;
        ji.tr = &tr;
        ji.s1.pos = real_geo.pos();
        ji.s1.dir = real_geo.dir();
        ji.s1.on_boundary = real_geo.is_on_boundary();
        ji.s1.volume = int(real_geo.volume_id().unchecked_get());
        ji.s1.energy_bits = verif::bits_of(value_as<units::MevEnergy>(particle.energy()));
        ji.s1.particle_id = particle.particle_id().unchecked_get();

        if (tr.overflow)
        {
            if (E.verbose)
            {
                json o = c.to_json();
                o["chain_index"] = k;
                o["requested_step"] = step;
                o["result"] = {{"distance", result.distance}, {"boundary", result.boundary}, {"looping", result.looping}};
                o["start"] = {{"pos", verif::jarr3(ji.s0.pos)}, {"dir", verif::jarr3(ji.s0.dir)},
                              {"on_boundary", ji.s0.on_boundary}, {"volume", ji.s0.volume}};
                o["end"] = {{"pos", verif::jarr3(ji.s1.pos)}, {"dir", verif::jarr3(ji.s1.dir)}};
                o["outcome"] = "trace-overflow calls=" + std::to_string(tr.calls);
                o["trace"] = trace_json(tr, false);
                std::cout << o.dump(1) << std::endl;
            }
            E.rep.inconclusive("trace overflow");
            E.rep.observe("trace-overflow:seed=" + std::to_string(c.seed) + ":index=" + std::to_string(c.index)
                          + ":calls=" + std::to_string(tr.calls));
            return;
        }
        Verdict v = judge_propagation(ji);

        // production factory path on a second geometry state: must agree bit for bit with
        // the monitored run (shows the wrappers are transparent and covers
        // make_mag_field_propagator itself)
        if (k == 0 && c.compare_factory)
        {
            OrangeTrackView geo2(g.params->host_ref(), g.state.ref(), TrackSlotId{1});
            std::string w2;
            if (apply_start(c, geo2, &w2))
            {
                try
                {
                    auto propagate2 = make_mag_field_propagator<StepperTT>(field, c.opts, particle, geo2);
                    Propagation r2 = propagate2(step);
                    bool same = r2.distance == result.distance && r2.boundary == result.boundary
                                && r2.looping == result.looping;
                    for (int i = 0; i < 3; ++i)
                        same = same && geo2.pos()[std::size_t(i)] == ji.s1.pos[std::size_t(i)]
                               && geo2.dir()[std::size_t(i)] == ji.s1.dir[std::size_t(i)];
                    same = same && geo2.is_on_boundary() == ji.s1.on_boundary;
                    E.rep.observe("factory-path-compared");
                    if (!same)
                        v.add("C08/harness/factory-path-differs",
                              fmt("make_mag_field_propagator run: distance %.17g boundary %d looping %d",
                                  r2.distance, int(r2.boundary), int(r2.looping)));
                }
                catch (DebugError const&)
                {
                }
            }
        }

        json w;
        if (!v.findings.empty() || E.rep.want_sample(6) || E.verbose)
        {
            w = c.to_json();
            w["chain_index"] = k;
            w["start_class"] = start_name(ji.start_class);
            w["requested_step"] = step;
            w["start"] = {{"pos", verif::jarr3(ji.s0.pos)},
                          {"dir", verif::jarr3(ji.s0.dir)},
                          {"on_boundary", ji.s0.on_boundary},
                          {"volume", ji.s0.volume},
                          {"volume_label", g.loc->volume(ji.s0.volume).label}};
            w["result"] = {{"distance", result.distance}, {"boundary", result.boundary}, {"looping", result.looping}};
            w["end"] = {{"pos", verif::jarr3(ji.s1.pos)},
                        {"dir", verif::jarr3(ji.s1.dir)},
                        {"on_boundary", ji.s1.on_boundary},
                        {"geometry_volume", ji.s1.volume}};
            w["geometry"] = g.name;
            w["outcome"] = v.outcome;
            w["trace"] = trace_json(tr, E.verbose);
        }
        if (E.verbose)
        {
            json o = w;
            json fs = json::array();
            for (auto const& f : v.findings)
                fs.push_back({{"key", f.key}, {"detail", f.detail}});
            o["findings"] = fs;
            std::cout << o.dump(1) << std::endl;
        }
        if (v.findings.empty() && E.rep.want_sample(6))
            E.rep.sample(w, 6);
        E.rep.observe("outcome:" + v.outcome);
        record(E, v, w);

        // continue like the stepping loop would
        if (v.outcome == "other" || real_geo.failed())
            return;
        if (result.boundary)
        {
            if (!real_geo.is_on_boundary())
                return;
            tr.clear();
            geo.cross_boundary();
            if (real_geo.failed() || real_geo.is_outside())
                return;
        }
        // next requested step
        step = r.coin(0.5) ? c.step : c.step * r.loguniform(1e-3, 1e3);
        if (!(step > 0) || !std::isfinite(step))
            step = c.step;
    }
}

//---------------------------------------------------------------------------//
// FieldDriver::advance called directly (no geometry): this is where the momentum
// magnitude and the per-advance accuracy are observable without the propagator
template<template<class> class StepperTT, class FieldT>
void run_driver_direct(Engine& E, verif::Rng& r, Case& c, FieldT const& field, bool at_map_edge, double edge_z)
{
    ParticleTrackView particle(E.ctx.particles->host_ref(), E.ctx.pstate.ref(), TrackSlotId{0});
    particle = ParticleTrackView::Initializer_t{ParticleId(unsigned(c.particle)), units::MevEnergy{c.ekin}};
    int charge = E.ctx.pdefs[std::size_t(c.particle)].charge;
    double mass = E.ctx.pdefs[std::size_t(c.particle)].mass;
    double p_mev = double(std::sqrt((long double)c.ekin * ((long double)c.ekin + 2 * (long double)mass)));
    FieldRef fr = make_field_ref(c, charge, p_mev);

    unsigned ncalls = 0;
    auto stepper = make_mag_field_stepper<StepperTT>(field, particle.charge());
    using CStepper = CountingStepper<decltype(stepper)>;
    FieldDriver<CStepper> driver{c.opts, CStepper{std::move(stepper), &ncalls}};

    OdeState st;
    double scale = r.loguniform(1e-2, 1e3);
    st.pos = Real3{r.uniform(-scale, scale), r.uniform(-scale, scale), r.uniform(-scale, scale)};
    if (at_map_edge)
        st.pos[2] = edge_z;
    Real3 dir = random_dir(r);
    if (r.coin(0.08))
    {
        // axis-aligned directions: another classic special case
        dir = Real3{0, 0, 0};
        dir[std::size_t(r.integer(0, 2))] = r.coin() ? 1 : -1;
    }
    if (at_map_edge)
        dir[2] = -std::fabs(dir[2]);  // head into the map
    bool centred = false;
    if (c.integ == I_ZHELIX && fr.omega != 0 && r.coin(0.5))
    {
        // the configuration of the library's own stepper test: gyration centre on the z axis
        // (centre = x0 + (u_perp x b)/w)
        long double b[3] = {fr.bhat[0], fr.bhat[1], fr.bhat[2]};
        long double upar = dir[0] * b[0] + dir[1] * b[1] + dir[2] * b[2];
        long double up[3] = {dir[0] - upar * b[0], dir[1] - upar * b[1], dir[2] - upar * b[2]};
        long double wv[3] = {up[1] * b[2] - up[2] * b[1], up[2] * b[0] - up[0] * b[2], up[0] * b[1] - up[1] * b[0]};
        double cx = double(-wv[0] / fr.omega), cy = double(-wv[1] / fr.omega);
        if (std::isfinite(cx) && std::isfinite(cy) && std::fabs(cx) < 1e9 && std::fabs(cy) < 1e9)
        {
            st.pos[0] = cx;
            st.pos[1] = cy;
            centred = true;
        }
    }
    st.mom = Real3{p_mev * dir[0], p_mev * dir[1], p_mev * dir[2]};

    int nadv = int(r.integer(1, 3));
    double step = c.step;
    for (int k = 0; k < nadv; ++k)
    {
        if (at_map_edge)
            step = std::min(step, edge_z / 3);  // stay inside the map (|dz| <= 3 steps <= zmax)
        AdvEv a;
        a.req = step;
        a.in = st;
        unsigned before = ncalls;
        try
        {
            a.out = driver.advance(step, st);
        }
        catch (DebugError const& e)
        {
            if (verif::is_bounds_assertion(e))
                E.rep.violation(verif::bounds_key("C08", e),
                                e.what(),
                                json{{"case", c.to_json()}, {"pos", verif::jarr3(st.pos)}, {"mode", "driver-direct"}});
            else
            {
                E.rep.inconclusive("debug-assert: " + verif::describe(e));
                E.rep.observe("assert:" + verif::describe(e) + " [" + integ_name(c.integ) + "/" + field_name(c.field) + "]");
            }
            return;
        }
        a.ncalls = ncalls - before;
        Verdict v;
        bool untestable = false;
        judge_advance(a, c.opts, c.integ, fr, true, v, &untestable);
        if (at_map_edge)
        {
            // start exactly on the last grid plane of the map.  The plane belongs to the
            // outside (zero field) since the repair of RZMapFieldParamsData::valid, so the field
            // is discontinuous at the start point and the analytic-helix / momentum oracles of a
            // uniform field do not apply; what remains decidable here is that the advance stays
            // finite and inside its step range (the values on the plane itself are judged by
            // field_map_check.hh, which also owns the key of the repaired defect)
            std::vector<Finding> keep;
            for (auto& f : v.findings)
                if (f.key.find("/non-finite-state/") != std::string::npos
                    || f.key.find("/step-range/") != std::string::npos)
                    keep.push_back(f);
            v.findings.swap(keep);
            untestable = false;
        }
        if (untestable)
        {
            E.rep.inconclusive("untestable: integration accuracy not controlled (step <= minimum_step over a large turn angle, or Dormand-Prince with epsilon_rel_max > 1.5e-3)");
        }
        else
        {
            double th = double(std::fabs(fr.omega)) * a.out.step;
            int dec = th > 0 ? int(std::max(-12.0, std::min(6.0, std::floor(std::log10(th))))) : -99;
            v.cell = std::string("driver/") + integ_name(c.integ) + "/" + field_name(c.field)
                     + (a.req <= c.opts.minimum_step ? "/quick" : "/adaptive") + (centred ? "/axis-centred" : "")
                     + "/turn=1e" + std::to_string(dec);
            if (at_map_edge)
                v.cell = std::string("driver/") + integ_name(c.integ) + "/map-edge-start(range+finite only)";
            json w;
            if (!v.findings.empty() || E.verbose)
            {
                w = c.to_json();
                w["mode"] = "driver-direct";
                w["advance_index"] = k;
                w["requested"] = a.req;
                w["step"] = a.out.step;
                w["pos_in"] = verif::jarr3(a.in.pos);
                w["mom_in"] = verif::jarr3(a.in.mom);
                w["pos_out"] = verif::jarr3(a.out.state.pos);
                w["mom_out"] = verif::jarr3(a.out.state.mom);
                w["stepper_calls"] = a.ncalls;
                if (E.verbose)
                {
                    json o = w;
                    json fs = json::array();
                    for (auto const& f : v.findings)
                        fs.push_back({{"key", f.key}, {"detail", f.detail}});
                    o["findings"] = fs;
                    std::cout << o.dump(1) << std::endl;
                }
            }
            record(E, v, w);
            if (!v.findings.empty())
                return;
        }
        st = a.out.state;
        step = r.coin(0.5) ? c.step : c.step * r.loguniform(1e-2, 1e2);
    }
}

//---------------------------------------------------------------------------//
template<template<class> class StepperTT>
void dispatch_field(Engine& E, verif::Rng& r, Case& c, bool direct)
{
    GeoCtx& g = *E.ctx.geos[std::size_t(c.geo)];
    double bnat[3] = {c.B[0] * units::tesla, c.B[1] * units::tesla, c.B[2] * units::tesla};
    if constexpr (std::is_same_v<StepperTT<MagFieldEquation<UniformZField const&>>,
                                 ZHelixStepper<MagFieldEquation<UniformZField const&>>>)
    {
        UniformZField f(bnat[2]);
        direct ? run_driver_direct<StepperTT>(E, r, c, f, false, 0) : run_propagations<StepperTT>(E, r, c, g, f);
        return;
    }
    else
    {
        switch (c.field)
        {
            case F_UNIFORM: {
                UniformField f(Real3{bnat[0], bnat[1], bnat[2]});
                direct ? run_driver_direct<StepperTT>(E, r, c, f, false, 0)
                       : run_propagations<StepperTT>(E, r, c, g, f);
                break;
            }
            case F_UNIFORMZ: {
                UniformZField f(bnat[2]);
                direct ? run_driver_direct<StepperTT>(E, r, c, f, false, 0)
                       : run_propagations<StepperTT>(E, r, c, g, f);
                break;
            }
            case F_RZUNIFORM: {
                // hostile variant in driver-direct mode: start exactly on the last grid
                // plane of the map (z == max_z is "valid" for the map)
                bool edge = direct && r.coin(0.1);
                // (otherwise the map is made large enough that no generated track can leave
                // it: outside the map the field is zero)
                double zmax = edge ? r.loguniform(1.0, 1e3) : 1e15;
                auto params = Ctx::make_const_map(bnat[2], zmax, 1e15);
                RZMapField f(params->host_ref());
                direct ? run_driver_direct<StepperTT>(E, r, c, f, edge, zmax)
                       : run_propagations<StepperTT>(E, r, c, g, f);
                break;
            }
            default: {
                RZMapField f(E.ctx.rz_cms->host_ref());
                direct ? run_driver_direct<StepperTT>(E, r, c, f, false, 0)
                       : run_propagations<StepperTT>(E, r, c, g, f);
                break;
            }
        }
    }
}

void run_case(Engine& E, std::uint64_t index)
{
    verif::Rng r(verif::mix_seed(E.args.seed, index));
    Case c;
    c.seed = E.args.seed;
    c.index = index;
    bool expect_invalid = false;
    draw_case(E.ctx, r, c, &expect_invalid);
    bool direct = r.coin(0.2);
    // options go through the production validation first
    try
    {
        validate_input(c.opts);
    }
    catch (RuntimeError const&)
    {
        E.rep.inconclusive("rejected input: FieldDriverOptions");
        if (!expect_invalid)
            E.rep.observe("unexpected-option-rejection");
        return;
    }
    catch (DebugError const& e)
    {
        E.rep.inconclusive("debug-assert: " + verif::describe(e));
        return;
    }
    if (expect_invalid)
    {
        E.rep.violation("C08/options/invalid-accepted", "validate_input accepted out-of-range options", c.to_json());
        return;
    }
    switch (c.integ)
    {
        case I_DP: dispatch_field<DormandPrinceStepper>(E, r, c, direct); break;
        case I_RK4: dispatch_field<RungeKuttaStepper>(E, r, c, direct); break;
        default: dispatch_field<ZHelixStepper>(E, r, c, direct); break;
    }
}

}  // namespace

//---------------------------------------------------------------------------//
int main(int argc, char** argv)
{
    auto args = verif::parse_args(argc, argv);
    if (args.property.empty())
        args.property = "C08";
    if (args.property != "C08")
    {
        std::cerr << "field_engine serves C08 only\n";
        return 2;
    }
    verif::Report rep("C08", "field", args);
    char const* repo = std::getenv("VERIF_REPO");
    std::unique_ptr<Ctx> ctx;
    try
    {
        ctx = std::make_unique<Ctx>(repo ? repo : "/repo");
    }
    catch (std::exception const& e)
    {
        std::cerr << "field_engine: setup failed: " << e.what() << "\n";
        return 2;
    }
    Engine E{*ctx, rep, args};

    rep.set_rule(
        "Each case draws (seed,index)-reproducibly: integrator {Dormand-Prince, RK4, ZHelix} x field {UniformField "
        "random direction, UniformZField, RZMapField over a constant map, RZMapField over cms-tiny}; particle "
        "(e-,e+,mu-,mu+,p,pbar,alpha); momentum 1e-2..1e7 MeV/c; |B| 1e-4..20 T; gyroradius/volume-size ratio "
        "1e-6..1e6; FieldDriverOptions inside validate_input's ranges (45% production defaults; every set passes "
        "through validate_input, rejected sets are inconclusive); one of six bundled single-universe ORANGE "
        "geometries (boxes, concentric spheres, nested cylinders, slabs); start interior / close to a face / on a "
        "boundary after a real find_next_step+move_to_boundary+cross_boundary heading in, near-tangent, turned back "
        "before or after the crossing; requested step 0.1 x minimum_step .. 100 turns; 1-4 chained propagations "
        "(cross_boundary in between). 80% of cases run FieldPropagator with a recording geometry view and a "
        "recording driver; 20% call FieldDriver::advance directly. Every propagation / advance is one evaluation. "
        "Cell = integrator / field / outcome {full, boundary, looping, bump} / start class / decade of "
        "gyroradius over start-volume size (driver mode: integrator / field / quick|adaptive / decade of turn "
        "angle). All propagations are non-trivial (the real propagator ran and every oracle was evaluated).");
    rep.assume("Lorentz force in a uniform field gives the helix used as reference (SI-2019 exact constants).");
    rep.assume(
        "Integration error model: per accepted integration step the true local error is <= K x the driver's "
        "accepted estimate (epsilon_rel_max): K = 1.25 for RK4 (step-doubling estimate of a Richardson-corrected "
        "result), K = 2.0 max(1,(eps/1e-4)^0.6) for Dormand-Prince (from the published DOPRI5 amplification "
        "polynomial on circular motion; measured <= 8.5 at eps 4.3e-3), exact for ZHelix; accumulated over an "
        "advance with n stepper calls: |p| n K eps, direction n K eps (1+turn angle), position K eps h (1+n)(1+turn "
        "angle). Declared untestable (accuracy oracles only): Dormand-Prince with epsilon_rel_max > 1.5e-3 (estimate "
        "not monotone in the turn angle), and minimum_step x curvature > 0.3 (steps <= minimum_step carry no error "
        "control).");
    rep.assume(
        "Allowances taken from the documented tolerances: boundary position delta_intersection (+ 6e-8 x coordinate "
        "size for ORANGE's own tolerance), path excursion 1.1 (delta_chord + dchord_tol) + delta_intersection, "
        "reported distance vs arc length 2 minimum_step + 1.05 delta_intersection x (arc/chord of the last "
        "substep).");
    rep.assume("The .org.json surface/logic definition is the meaning of the geometry (analytic locator input).");
    rep.assume("OrangeTrackView::volume_id() at the start of a propagation names the 'original volume'.");

    if (!args.replay.empty())
    {
        // replay: run only the (seed,index) pairs found in the witness file, verbosely
        std::ifstream f(args.replay);
        json j;
        try
        {
            f >> j;
        }
        catch (std::exception const& e)
        {
            std::cerr << "cannot parse replay file: " << e.what() << "\n";
            return 2;
        }
        E.verbose = true;
        std::vector<std::pair<std::uint64_t, std::uint64_t>> todo;
        for (auto const& w : j.value("witnesses", json::array()))
        {
            json const& cs = w.contains("case") ? w["case"] : w;
            json const& cc = cs.contains("case") ? cs["case"] : cs;
            if (cc.contains("seed") && cc.contains("index"))
                todo.push_back({cc["seed"].get<std::uint64_t>(), cc["index"].get<std::uint64_t>()});
        }
        for (auto const& si : todo)
        {
            verif::Args a2 = args;
            a2.seed = si.first;
            Engine E2{*ctx, rep, a2, true};
            run_case(E2, si.second);
        }
        return rep.finish();
    }
    if (args.has("case"))
    {
        E.verbose = true;
        run_case(E, std::strtoull(args.get("case").c_str(), nullptr, 10));
        return rep.finish();
    }

    // values of the R-Z map field itself (field_map_check.hh); cheap, once per process
    fieldv::check_field_maps(rep, args, ctx->rz_cms ? &ctx->rz_cms_input : nullptr);

    int nshards = std::max(1, std::atoi(args.get("nshards", "1").c_str()));
    std::uint64_t budget = args.budget(20000, 5000000);
    if (args.thorough())
        budget = std::max<std::uint64_t>(1, budget / std::uint64_t(nshards));
    std::uint64_t index = 0;
    std::uint64_t const base = rep.evaluations();  // the map checks do not count towards the budget
    while (rep.evaluations() - base < budget)
    {
        run_case(E, index++);
    }
    rep.note("cases_generated", index);
    return rep.finish();
}
