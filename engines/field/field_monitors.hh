// Monitoring wrappers used by the `field` engine (property C08).
//
//  * MonitoringGTV<GTV>   : same interface as OrangeTrackView (as far as FieldPropagator and
//                           the harness use it); forwards to the real view, records the call
//                           trace with positions, and enforces the ordering documented in
//                           orange/OrangeTrackView.hh as a protocol monitor.
//  * MonitoringDriver<D>  : FieldPropagator is also a template on the driver type; this
//                           forwards to the real FieldDriver and records every advance().
//  * CountingStepper<S>   : counts stepper invocations (used only to scale tolerances).
//  * Helix                : analytic solution of du/ds = w (u x b) in long double.
#pragma once

#include <cmath>
#include <string>
#include <vector>

#include "corecel/Types.hh"
#include "corecel/cont/Array.hh"
#include "geocel/Types.hh"
#include "celeritas/field/Types.hh"

namespace fieldv
{
using celeritas::DriverResult;
using celeritas::OdeState;
using celeritas::Propagation;
using celeritas::real_type;
using celeritas::Real3;

//---------------------------------------------------------------------------//
struct GeoEv
{
    char kind;  // 'D' set_dir, 'F' find_next_step, 'I' move_internal(pos), 'B' move_to_boundary,
                // 'L' move_internal(dist), 'X' cross_boundary
    Real3 pos;  // geometry position before the call
    Real3 arg;  // new direction / target position
    double maxd = 0;  // find_next_step argument
    double dist = 0;  // find_next_step result
    bool boundary = false;  // find_next_step result
    bool onb_before = false;
    bool onb_after = false;
};

struct AdvEv
{
    double req = 0;
    OdeState in;
    DriverResult out;
    unsigned ncalls = 0;  // stepper invocations inside this advance
    std::size_t geo_index = 0;  // number of geometry events recorded before the call
};

struct ProtocolError
{
    std::string rule;
    std::size_t at = 0;  // geometry event index
};

// Thrown by the recording wrappers when one propagation makes more geometry / driver calls
// than any terminating loop can need (the propagator's loop "is guaranteed to converge
// since the trial step always decreases *or* the actual position advances")
struct WatchdogTripped
{
    std::size_t calls;
};

struct Trace
{
    std::vector<GeoEv> geo;
    std::vector<AdvEv> adv;
    std::vector<ProtocolError> protocol;
    bool overflow = false;
    std::size_t calls = 0;  // all geometry + driver calls, recorded or not
    static constexpr std::size_t max_events = 40000;
    // accepted substeps <= max_substeps (<= 32767); every retry halves the trial step or
    // shortens it to an intercept: a few thousand iterations at most.  4e5 calls ~ 0.1 s.
    static constexpr std::size_t max_calls = 400000;
    void tick()
    {
        if (++calls > max_calls)
            throw WatchdogTripped{calls};
    }

    void clear()
    {
        geo.clear();
        adv.clear();
        protocol.clear();
        overflow = false;
        calls = 0;
    }
};

inline double norm3(Real3 const& a)
{
    return std::sqrt(a[0] * a[0] + a[1] * a[1] + a[2] * a[2]);
}
inline double dist3(Real3 const& a, Real3 const& b)
{
    return std::sqrt((a[0] - b[0]) * (a[0] - b[0]) + (a[1] - b[1]) * (a[1] - b[1])
                     + (a[2] - b[2]) * (a[2] - b[2]));
}

//---------------------------------------------------------------------------//
/*!
 * Geometry track view wrapper.
 *
 * Ordering requirements monitored (orange/OrangeTrackView.hh class comment):
 *  - find_next_step, then move_internal / move_to_boundary;
 *  - set_dir at any time, "but then must do find_next_step before any move or cross";
 *  - move_to_boundary needs a found *boundary* (has_next_surface) and must not be called
 *    in the re-entrant state (find_next_step returned {0, boundary} while on a surface);
 *  - an internal move must stay within the found straight-line distance;
 *  - find_next_step(max) requires max > 0; set_dir requires a unit vector.
 */
template<class GTV>
class MonitoringGTV
{
  public:
    MonitoringGTV(GTV& real, Trace& tr) : real_(real), tr_(tr) {}

    //// accessors (good at any time)
    Real3 const& pos() const { return real_.pos(); }
    Real3 const& dir() const { return real_.dir(); }
    bool is_on_boundary() const { return real_.is_on_boundary(); }
    bool is_outside() const { return real_.is_outside(); }
    bool failed() const { return real_.failed(); }
    auto volume_id() const { return real_.volume_id(); }
    auto surface_id() const { return real_.surface_id(); }

    //// operations
    void set_dir(Real3 const& d)
    {
        GeoEv e = this->begin('D');
        e.arg = d;
        double n = norm3(d);
        if (!(std::fabs(n - 1) <= 1e-11))
            this->fail("set_dir-non-unit-direction");
        real_.set_dir(d);
        have_next_ = false;
        this->end(e);
    }

    Propagation find_next_step(real_type maxd)
    {
        GeoEv e = this->begin('F');
        e.maxd = maxd;
        if (!(maxd > 0))
            this->fail("find_next_step-non-positive-max");
        Propagation p = real_.find_next_step(maxd);
        e.dist = p.distance;
        e.boundary = p.boundary;
        have_next_ = true;
        next_dist_ = p.distance;
        next_boundary_ = p.boundary;
        reentrant_ = p.boundary && p.distance == 0 && e.onb_before;
        if (!(p.distance >= 0) || !(p.distance <= maxd))
            this->fail("find_next_step-result-out-of-range");
        this->end(e);
        return p;
    }

    Propagation find_next_step()
    {
        GeoEv e = this->begin('F');
        e.maxd = INFINITY;
        Propagation p = real_.find_next_step();
        e.dist = p.distance;
        e.boundary = p.boundary;
        have_next_ = true;
        next_dist_ = p.distance;
        next_boundary_ = p.boundary;
        reentrant_ = p.boundary && p.distance == 0 && e.onb_before;
        this->end(e);
        return p;
    }

    void move_internal(Real3 const& target)
    {
        GeoEv e = this->begin('I');
        e.arg = target;
        if (!have_next_)
            this->fail("move_internal-without-find_next_step");
        else
        {
            // within the found straight-line distance (1e-9 relative slack: the target is
            // an integrated position, the found distance a chord length + delta)
            double d = dist3(real_.pos(), target);
            if (!(d <= next_dist_ * (1 + 1e-9) + 1e-300))
                this->fail("move_internal-beyond-found-distance");
            // (the propagator decides "intercept beyond the substep end" on its own chord
            // length; this distance is recomputed here, so a tie within a few ulp of the
            // found distance cannot be told apart and is not judged)
            else if (next_boundary_ && !(d < next_dist_ * (1 + 8 * 2.220446049250313e-16)))
                this->fail("move_internal-onto-found-boundary");
        }
        real_.move_internal(target);
        have_next_ = false;
        this->end(e);
    }

    void move_internal(real_type d)
    {
        GeoEv e = this->begin('L');
        e.dist = d;
        if (!have_next_)
            this->fail("move_internal-without-find_next_step");
        else if (!(d > 0 && d <= next_dist_) || (next_boundary_ && d == next_dist_))
            this->fail("move_internal-beyond-found-distance");
        real_.move_internal(d);
        next_dist_ -= d;
        this->end(e);
    }

    void move_to_boundary()
    {
        GeoEv e = this->begin('B');
        if (!have_next_ || !next_boundary_)
            this->fail("move_to_boundary-without-found-boundary");
        else if (reentrant_)
            this->fail("move_to_boundary-while-reentrant");
        real_.move_to_boundary();
        have_next_ = false;
        this->end(e);
    }

    void cross_boundary()
    {
        GeoEv e = this->begin('X');
        if (!real_.is_on_boundary())
            this->fail("cross_boundary-not-on-boundary");
        if (have_next_)
            this->fail("cross_boundary-with-pending-step");
        real_.cross_boundary();
        this->end(e);
    }

    GTV& real() { return real_; }

  private:
    GeoEv begin(char k) const
    {
        tr_.tick();
        GeoEv e;
        e.kind = k;
        e.pos = real_.pos();
        e.arg = Real3{0, 0, 0};
        e.onb_before = real_.is_on_boundary();
        return e;
    }
    void end(GeoEv& e)
    {
        e.onb_after = real_.is_on_boundary();
        if (tr_.geo.size() < Trace::max_events)
            tr_.geo.push_back(e);
        else
            tr_.overflow = true;
    }
    void fail(char const* rule)
    {
        if (tr_.protocol.size() < 16)
            tr_.protocol.push_back({rule, tr_.geo.size()});
    }

    GTV& real_;
    Trace& tr_;
    bool have_next_ = false;
    bool next_boundary_ = false;
    bool reentrant_ = false;
    double next_dist_ = 0;
};

//---------------------------------------------------------------------------//
template<class StepperT>
class CountingStepper
{
  public:
    using result_type = celeritas::FieldStepperResult;
    CountingStepper(StepperT s, unsigned* count) : s_(std::move(s)), count_(count) {}
    result_type operator()(real_type step, OdeState const& st) const
    {
        ++*count_;
        return s_(step, st);
    }

  private:
    StepperT s_;
    unsigned* count_;
};

//---------------------------------------------------------------------------//
template<class DriverT>
class MonitoringDriver
{
  public:
    MonitoringDriver(DriverT&& d, Trace* tr, unsigned* ncalls)
        : real_(std::move(d)), tr_(tr), ncalls_(ncalls)
    {
    }
    DriverResult advance(real_type step, OdeState const& state)
    {
        tr_->tick();
        AdvEv e;
        e.req = step;
        e.in = state;
        e.geo_index = tr_->geo.size();
        unsigned before = *ncalls_;
        e.out = real_.advance(step, state);
        e.ncalls = *ncalls_ - before;
        if (tr_->adv.size() < Trace::max_events)
            tr_->adv.push_back(e);
        else
            tr_->overflow = true;
        return e.out;
    }
    short int max_substeps() const { return real_.max_substeps(); }
    real_type minimum_step() const { return real_.minimum_step(); }
    real_type delta_intersection() const { return real_.delta_intersection(); }

  private:
    DriverT real_;
    Trace* tr_;
    unsigned* ncalls_;
};

//---------------------------------------------------------------------------//
/*!
 * Analytic trajectory of a charge in a uniform field, from the Lorentz force
 * dp/dt = q v x B  =>  du/ds = w (u x b),  w = q c |B| / (p c)  (signed, 1/length).
 * With |q| in e, p in MeV/c, B in tesla and lengths in cm the exact SI-2019 constants give
 *   w [1/cm] = q * 2.99792458 * B[T] / p[MeV/c]   (field_setup.hh, make_field_ref()).
 *
 *   u(s) = u_par b + cos(ws) u_perp + sin(ws) (u_perp x b)
 *   x(s) = x0 + u_par b s + sin(ws)/w u_perp + (1-cos(ws))/w (u_perp x b)
 */
struct Helix
{
    using L = long double;
    L x0[3], b[3], up[3], wv[3];
    L upar = 0, omega = 0, sin_theta = 0;

    Helix(Real3 const& x, Real3 const& u, L const* bhat, L w)
    {
        omega = w;
        for (int i = 0; i < 3; ++i)
        {
            x0[i] = x[i];
            b[i] = bhat[i];
        }
        L un = std::sqrt(L(u[0]) * u[0] + L(u[1]) * u[1] + L(u[2]) * u[2]);
        L uu[3] = {u[0] / un, u[1] / un, u[2] / un};
        upar = uu[0] * b[0] + uu[1] * b[1] + uu[2] * b[2];
        for (int i = 0; i < 3; ++i)
            up[i] = uu[i] - upar * b[i];
        wv[0] = up[1] * b[2] - up[2] * b[1];
        wv[1] = up[2] * b[0] - up[0] * b[2];
        wv[2] = up[0] * b[1] - up[1] * b[0];
        sin_theta = std::sqrt(up[0] * up[0] + up[1] * up[1] + up[2] * up[2]);
    }

    static L sinc(L x)
    {
        if (std::fabs(x) < 1e-4L)
        {
            L x2 = x * x;
            return 1 - x2 / 6 + x2 * x2 / 120;
        }
        return std::sin(x) / x;
    }

    void eval(L s, L* x, L* u) const
    {
        L th = omega * s;
        L a = s * sinc(th);  // sin(ws)/w
        L h = th / 2;
        L c = s * h * sinc(h) * sinc(h);  // (1-cos(ws))/w
        L cs = std::cos(th), sn = std::sin(th);
        for (int i = 0; i < 3; ++i)
        {
            if (x)
                x[i] = x0[i] + upar * b[i] * s + a * up[i] + c * wv[i];
            if (u)
                u[i] = upar * b[i] + cs * up[i] + sn * wv[i];
        }
    }
};

}  // namespace fieldv
