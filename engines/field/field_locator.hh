// Small analytic reference locator for the single-universe ORANGE test geometries used by
// the `field` engine (two-boxes, three-spheres, simple-cms, four-steel-slabs, field-layers,
// one-steel-sphere).  It reads the *definition* of the geometry (surface list + per-cell
// RPN logic) straight from the .org.json and evaluates it directly; it shares no code with
// ORANGE's tracking.  Interface kept thin (locate / inside / face_distance / normal) so it
// can be replaced by lib/ref_locator.hh later.
//
// Supported surfaces: px py pz (plane position), sc (sphere at origin, r^2),
// cxc cyc czc (axis-aligned cylinder through origin, r^2), s (x y z r^2).
#pragma once

#include <array>
#include <cmath>
#include <fstream>
#include <limits>
#include <sstream>
#include <stdexcept>
#include <string>
#include <vector>

#include <nlohmann/json.hpp>

namespace fieldv
{
using P3 = std::array<double, 3>;

struct RefSurface
{
    enum Kind
    {
        px,
        py,
        pz,
        sc,
        cxc,
        cyc,
        czc,
        s
    } kind;
    double d[4] = {0, 0, 0, 0};  // plane: position; sc/c?c: radius; s: x y z radius
    std::string label;

    // signed exact euclidean distance: >0 on the "outside/positive sense" side
    double signed_distance(P3 const& p) const
    {
        switch (kind)
        {
            case px: return p[0] - d[0];
            case py: return p[1] - d[0];
            case pz: return p[2] - d[0];
            case sc: return std::sqrt(p[0] * p[0] + p[1] * p[1] + p[2] * p[2]) - d[0];
            case cxc: return std::hypot(p[1], p[2]) - d[0];
            case cyc: return std::hypot(p[0], p[2]) - d[0];
            case czc: return std::hypot(p[0], p[1]) - d[0];
            case s:
                return std::sqrt((p[0] - d[0]) * (p[0] - d[0]) + (p[1] - d[1]) * (p[1] - d[1])
                                 + (p[2] - d[2]) * (p[2] - d[2]))
                       - d[3];
        }
        return 0;
    }
    // outward unit normal (direction of increasing signed distance)
    P3 normal(P3 const& p) const
    {
        P3 n{0, 0, 0};
        switch (kind)
        {
            case px: n[0] = 1; return n;
            case py: n[1] = 1; return n;
            case pz: n[2] = 1; return n;
            case sc: n = p; break;
            case cxc: n = {0, p[1], p[2]}; break;
            case cyc: n = {p[0], 0, p[2]}; break;
            case czc: n = {p[0], p[1], 0}; break;
            case s: n = {p[0] - d[0], p[1] - d[1], p[2] - d[2]}; break;
        }
        double m = std::sqrt(n[0] * n[0] + n[1] * n[1] + n[2] * n[2]);
        if (m > 0)
            for (auto& x : n)
                x /= m;
        return n;
    }
    // curvature radius (inf for planes)
    double radius() const
    {
        if (kind == px || kind == py || kind == pz)
            return std::numeric_limits<double>::infinity();
        return kind == s ? d[3] : d[0];
    }
};

struct RefVolume
{
    std::string label;
    std::vector<int> faces;  // global surface indices
    std::vector<int> logic;  // RPN: >=0 face index (local), -1 not, -2 and, -3 or, -4 true
    bool background = false;  // "everything not in another volume"
    bool exterior = false;
    P3 lo{0, 0, 0}, hi{0, 0, 0};  // bounding box of the faces (sampling aid only)
    double scale = 1;  // characteristic size: min half-side of the bbox
};

class RefLocator
{
  public:
    explicit RefLocator(std::string const& filename)
    {
        std::ifstream f(filename);
        if (!f)
            throw std::runtime_error("cannot open " + filename);
        nlohmann::json j;
        f >> j;
        auto const& unis = j.at("universes");
        if (unis.size() != 1)
            throw std::runtime_error("ref locator: single universe only");
        auto const& u = unis[0];
        auto const& sj = u.at("surfaces");
        std::vector<std::string> types = sj.at("types");
        std::vector<double> data = sj.at("data");
        std::vector<int> sizes = sj.at("sizes");
        std::vector<std::string> slabels;
        for (char const* k : {"surface_names", "surface_labels"})
            if (u.contains(k))
                slabels = u.at(k).get<std::vector<std::string>>();
        std::size_t off = 0;
        for (std::size_t i = 0; i < types.size(); ++i)
        {
            RefSurface s;
            std::string const& t = types[i];
            double const* d = data.data() + off;
            if (t == "px" || t == "py" || t == "pz")
            {
                s.kind = t == "px" ? RefSurface::px : t == "py" ? RefSurface::py : RefSurface::pz;
                s.d[0] = d[0];
            }
            else if (t == "sc" || t == "cxc" || t == "cyc" || t == "czc")
            {
                s.kind = t == "sc"    ? RefSurface::sc
                         : t == "cxc" ? RefSurface::cxc
                         : t == "cyc" ? RefSurface::cyc
                                      : RefSurface::czc;
                s.d[0] = std::sqrt(d[0]);  // stored as radius squared
            }
            else if (t == "s")
            {
                s.kind = RefSurface::s;
                s.d[0] = d[0];
                s.d[1] = d[1];
                s.d[2] = d[2];
                s.d[3] = std::sqrt(d[3]);
            }
            else
                throw std::runtime_error("ref locator: unsupported surface type " + t);
            if (i < slabels.size())
                s.label = slabels[i];
            surfaces_.push_back(s);
            off += std::size_t(sizes[i]);
        }
        nlohmann::json const* cells = nullptr;
        for (char const* k : {"cells", "volumes"})
            if (u.contains(k))
                cells = &u.at(k);
        if (!cells)
            throw std::runtime_error("ref locator: no cells");
        std::vector<std::string> vlabels;
        for (char const* k : {"cell_names", "volume_labels"})
            if (u.contains(k))
                vlabels = u.at(k).get<std::vector<std::string>>();
        auto bb = u.at("bbox");
        for (int a = 0; a < 3; ++a)
        {
            glo_[a] = bb[0][a];
            ghi_[a] = bb[1][a];
        }
        std::size_t vi = 0;
        for (auto const& c : *cells)
        {
            RefVolume v;
            v.faces = c.at("faces").get<std::vector<int>>();
            std::string logic = c.value("logic", std::string());
            std::istringstream is(logic);
            std::string tok;
            while (is >> tok)
            {
                if (tok == "~")
                    v.logic.push_back(-1);
                else if (tok == "&")
                    v.logic.push_back(-2);
                else if (tok == "|")
                    v.logic.push_back(-3);
                else if (tok == "*")
                    v.logic.push_back(-4);
                else
                    v.logic.push_back(std::stoi(tok));
            }
            if (v.logic.empty())
                v.background = true;
            if (vi < vlabels.size())
                v.label = vlabels[vi];
            v.exterior = (v.label == "[EXTERIOR]");
            // bbox of faces, clipped to the global bbox
            for (int a = 0; a < 3; ++a)
            {
                v.lo[a] = glo_[a];
                v.hi[a] = ghi_[a];
            }
            if (!v.exterior && !v.background)
            {
                P3 lo{-1e300, -1e300, -1e300}, hi{1e300, 1e300, 1e300};
                // conservative: extent of the largest curved face / extreme planes
                P3 plo{1e300, 1e300, 1e300}, phi{-1e300, -1e300, -1e300};
                double rmax[3] = {0, 0, 0};
                bool curved[3] = {false, false, false};
                for (int fi : v.faces)
                {
                    RefSurface const& s = surfaces_[std::size_t(fi)];
                    auto upd = [&](int a, double c, double r) {
                        curved[a] = true;
                        rmax[a] = std::max(rmax[a], std::fabs(c) + r);
                    };
                    switch (s.kind)
                    {
                        case RefSurface::px:
                        case RefSurface::py:
                        case RefSurface::pz: {
                            int a = int(s.kind);
                            plo[a] = std::min(plo[a], s.d[0]);
                            phi[a] = std::max(phi[a], s.d[0]);
                            break;
                        }
                        case RefSurface::sc:
                            for (int a = 0; a < 3; ++a)
                                upd(a, 0, s.d[0]);
                            break;
                        case RefSurface::cxc: upd(1, 0, s.d[0]); upd(2, 0, s.d[0]); break;
                        case RefSurface::cyc: upd(0, 0, s.d[0]); upd(2, 0, s.d[0]); break;
                        case RefSurface::czc: upd(0, 0, s.d[0]); upd(1, 0, s.d[0]); break;
                        case RefSurface::s:
                            for (int a = 0; a < 3; ++a)
                                upd(a, s.d[a], s.d[3]);
                            break;
                    }
                }
                for (int a = 0; a < 3; ++a)
                {
                    if (plo[a] < phi[a])
                    {
                        lo[a] = plo[a];
                        hi[a] = phi[a];
                    }
                    else if (curved[a])
                    {
                        lo[a] = std::max(lo[a], -rmax[a]);
                        hi[a] = std::min(hi[a], rmax[a]);
                    }
                    v.lo[a] = std::max(v.lo[a], lo[a]);
                    v.hi[a] = std::min(v.hi[a], hi[a]);
                }
            }
            v.scale = 0.5 * std::min({v.hi[0] - v.lo[0], v.hi[1] - v.lo[1], v.hi[2] - v.lo[2]});
            volumes_.push_back(std::move(v));
            ++vi;
        }
        gscale_ = 0.5 * std::max({ghi_[0] - glo_[0], ghi_[1] - glo_[1], ghi_[2] - glo_[2]});
    }

    int num_volumes() const { return int(volumes_.size()); }
    int num_surfaces() const { return int(surfaces_.size()); }
    RefVolume const& volume(int v) const { return volumes_[std::size_t(v)]; }
    RefSurface const& surface(int s) const { return surfaces_[std::size_t(s)]; }
    double global_scale() const { return gscale_; }
    P3 const& global_lo() const { return glo_; }
    P3 const& global_hi() const { return ghi_; }

    // Membership by definition (senses evaluated with exact signed distances)
    bool inside(int v, P3 const& p) const
    {
        RefVolume const& vol = volumes_[std::size_t(v)];
        if (vol.background)
        {
            for (int o = 0; o < num_volumes(); ++o)
                if (o != v && !volumes_[std::size_t(o)].background && inside(o, p))
                    return false;
            return true;
        }
        bool stack[64];
        int n = 0;
        for (int t : vol.logic)
        {
            if (t >= 0)
                stack[n++] = surfaces_[std::size_t(vol.faces[std::size_t(t)])].signed_distance(p) > 0;
            else if (t == -1)
                stack[n - 1] = !stack[n - 1];
            else if (t == -2)
            {
                stack[n - 2] = stack[n - 2] && stack[n - 1];
                --n;
            }
            else if (t == -3)
            {
                stack[n - 2] = stack[n - 2] || stack[n - 1];
                --n;
            }
            else
                stack[n++] = true;
        }
        return n == 1 && stack[0];
    }

    // Volume containing p (-1 if none / more than one)
    int locate(P3 const& p) const
    {
        int found = -1;
        for (int v = 0; v < num_volumes(); ++v)
        {
            if (volumes_[std::size_t(v)].background)
                continue;
            if (inside(v, p))
            {
                if (found >= 0)
                    return -1;
                found = v;
            }
        }
        if (found < 0)
            for (int v = 0; v < num_volumes(); ++v)
                if (volumes_[std::size_t(v)].background)
                    return v;
        return found;
    }

    // Smallest exact distance from p to any surface that is a face of v (optionally
    // returning that surface)
    double face_distance(int v, P3 const& p, int* which = nullptr) const
    {
        double best = std::numeric_limits<double>::infinity();
        for (int fi : volumes_[std::size_t(v)].faces)
        {
            double d = std::fabs(surfaces_[std::size_t(fi)].signed_distance(p));
            if (d < best)
            {
                best = d;
                if (which)
                    *which = fi;
            }
        }
        return best;
    }

    // Nearest surface of the whole geometry and second nearest distance
    int nearest_surface(P3 const& p, double* dist, double* second) const
    {
        double b1 = 1e300, b2 = 1e300;
        int w = -1;
        for (int i = 0; i < num_surfaces(); ++i)
        {
            double d = std::fabs(surfaces_[std::size_t(i)].signed_distance(p));
            if (d < b1)
            {
                b2 = b1;
                b1 = d;
                w = i;
            }
            else if (d < b2)
                b2 = d;
        }
        if (dist)
            *dist = b1;
        if (second)
            *second = b2;
        return w;
    }

  private:
    std::vector<RefSurface> surfaces_;
    std::vector<RefVolume> volumes_;
    P3 glo_{0, 0, 0}, ghi_{0, 0, 0};
    double gscale_ = 1;
};

}  // namespace fieldv
