// Engine `field`: oracle for the value returned by RZMapField (the "field" that the propagated
// track has to follow).  Independent of the interpolation scheme inside a cell, an R-Z map field
// has to
//   (node)     reproduce the stored (B_r, B_z) at interior grid nodes, the transverse part being
//              radial: (B_x, B_y) = B_r (x/r, y/r);
//   (symmetry) be equivariant under rotations about z: B(R_phi x) = R_phi B(x);
//   (range)    stay, component by component (B_r = radial projection, B_z), inside the range
//              spanned by the four corners of the enclosing grid cell, and vanish outside the map.
// Maps: cms-tiny.field.json and randomly generated maps (3-12 nodes per axis, min_r = 0 or > 0,
// smooth or rough node values).
#pragma once

#include <cmath>
#include <memory>
#include <vector>

#include "corecel/Assert.hh"
#include "celeritas/field/RZMapField.hh"
#include "celeritas/field/RZMapFieldInput.hh"
#include "celeritas/field/RZMapFieldParams.hh"

#include "verif_common.hh"

namespace fieldv
{
using celeritas::Real3;
using celeritas::RZMapField;
using celeritas::RZMapFieldInput;
using celeritas::RZMapFieldParams;

inline RZMapFieldInput random_rz_map(verif::Rng& r)
{
    RZMapFieldInput inp;
    inp.num_grid_z = unsigned(r.integer(3, 12));
    inp.num_grid_r = unsigned(r.integer(3, 12));
    double lz = r.loguniform(1.0, 1e3);
    inp.min_z = r.coin(0.5) ? -lz : r.uniform(-lz, lz);
    inp.max_z = inp.min_z + r.loguniform(0.5, 2.0) * lz;
    inp.min_r = r.coin(0.6) ? 0.0 : r.loguniform(0.1, 10.0);
    inp.max_r = inp.min_r + r.loguniform(1.0, 1e3);
    std::size_t n = std::size_t(inp.num_grid_z) * inp.num_grid_r;
    inp.field_z.resize(n);
    inp.field_r.resize(n);
    double scale = r.loguniform(1e2, 1e5);  // gauss
    bool rough = r.coin(0.4);
    double a = r.uniform(-1, 1), b = r.uniform(-1, 1), c = r.uniform(-1, 1);
    for (unsigned iz = 0; iz < inp.num_grid_z; ++iz)
    {
        for (unsigned ir = 0; ir < inp.num_grid_r; ++ir)
        {
            double u = double(iz) / (inp.num_grid_z - 1), v = double(ir) / (inp.num_grid_r - 1);
            std::size_t i = std::size_t(iz) * inp.num_grid_r + ir;  // [Z][R], R has stride 1
            if (rough)
            {
                inp.field_z[i] = scale * r.uniform(-1, 1);
                inp.field_r[i] = scale * r.uniform(-1, 1);
            }
            else
            {
                inp.field_z[i] = scale * (1 + a * u + b * v * v);
                inp.field_r[i] = scale * c * v * (u - 0.5);
            }
        }
    }
    return inp;
}

inline void check_one_map(verif::Report& rep, verif::Rng& r, RZMapFieldInput const& inp,
                          std::string const& mapname, int npoints)
{
    using verif::json;
    auto params = std::make_shared<RZMapFieldParams>(inp);
    RZMapField field(params->host_ref());
    unsigned const nz = inp.num_grid_z, nr = inp.num_grid_r;
    double const dz = (inp.max_z - inp.min_z) / (nz - 1), dr = (inp.max_r - inp.min_r) / (nr - 1);
    double bscale = 0;
    for (std::size_t i = 0; i < inp.field_z.size(); ++i)
        bscale = std::max({bscale, std::fabs(inp.field_z[i]), std::fabs(inp.field_r[i])});
    if (!(bscale > 0))
        bscale = 1;
    double const tol = 1e-9 * bscale;
    auto node = [&](unsigned iz, unsigned ir, bool radial) {
        std::size_t i = std::size_t(iz) * nr + ir;
        return radial ? inp.field_r[i] : inp.field_z[i];
    };
    auto describe = [&](Real3 const& p, Real3 const& b) {
        return json{{"map", mapname},
                    {"grid", {{"nz", nz}, {"nr", nr}, {"min_z", inp.min_z}, {"max_z", inp.max_z},
                              {"min_r", inp.min_r}, {"max_r", inp.max_r}}},
                    {"pos", {p[0], p[1], p[2]}},
                    {"field", {b[0], b[1], b[2]}}};
    };

    for (int k = 0; k < npoints; ++k)
    {
        double phi = r.coin(0.2) ? 0.25 * M_PI * double(r.integer(0, 7)) : r.uniform(0, 2 * M_PI);
        double cphi = std::cos(phi), sphi = std::sin(phi);

        // (node) interior nodes only: at the first / last node rounding of sqrt(x^2+y^2) may put
        // the point outside the map, where the field is documented to be zero
        if (nz > 2 && nr > 2)
        {
            unsigned iz = unsigned(r.integer(1, nz - 2)), ir = unsigned(r.integer(1, nr - 2));
            // a hair inside the cell (iz, ir) so that the enclosing cell is unambiguous
            double rr = inp.min_r + (ir + 1e-7) * dr, z = inp.min_z + (iz + 1e-7) * dz;
            Real3 p{rr * cphi, rr * sphi, z};
            Real3 b = field(p);
            double br = b[0] * cphi + b[1] * sphi, bt = -b[0] * sphi + b[1] * cphi;
            // the point is 1e-7 of a cell away from the node: allow the slope of the adjacent cells
            double slack = tol;
            for (int s = -1; s <= 1; s += 2)
            {
                slack += 1e-6
                         * (std::fabs(node(iz + s, ir, false) - node(iz, ir, false))
                            + std::fabs(node(iz, ir + s, true) - node(iz, ir, true))
                            + std::fabs(node(iz + s, ir, true) - node(iz, ir, true))
                            + std::fabs(node(iz, ir + s, false) - node(iz, ir, false)));
            }
            json w = describe(p, b);
            w["node"] = {{"iz", iz}, {"ir", ir}, {"B_z", node(iz, ir, false)}, {"B_r", node(iz, ir, true)}};
            w["observed"] = {{"B_z", b[2]}, {"B_radial", br}, {"B_azimuthal", bt}};
            if (!(std::fabs(b[2] - node(iz, ir, false)) <= slack))
                rep.violation("C08/field-map/node-value/z", "RZMapField at a grid node: B_z differs from the stored value", w);
            else if (!(std::fabs(br - node(iz, ir, true)) <= slack))
                rep.violation("C08/field-map/node-value/r", "RZMapField at a grid node: radial component differs from the stored value", w);
            else if (!(std::fabs(bt) <= slack))
                rep.violation("C08/field-map/node-value/azimuthal", "RZMapField at a grid node: transverse field is not radial", w);
            else
                rep.held("field-map/node/" + mapname.substr(0, mapname.find(':')));
        }

        // (symmetry) + (range) at a random interior point
        {
            double rr = r.coin(0.1) ? 0.0 : r.uniform(inp.min_r + 1e-6 * dr, inp.max_r - 1e-6 * dr);
            double z = r.uniform(inp.min_z + 1e-6 * dz, inp.max_z - 1e-6 * dz);
            if (rr < inp.min_r)
                rr = inp.min_r + 0.5 * dr;
            Real3 p0{rr, 0, z};
            Real3 p{rr * cphi, rr * sphi, z};
            Real3 b0 = field(p0), b = field(p);
            Real3 rot{b0[0] * cphi - b0[1] * sphi, b0[0] * sphi + b0[1] * cphi, b0[2]};
            json w = describe(p, b);
            w["phi"] = phi;
            w["field_at_phi=0"] = {b0[0], b0[1], b0[2]};
            double d = std::max({std::fabs(rot[0] - b[0]), std::fabs(rot[1] - b[1]), std::fabs(rot[2] - b[2])});
            if (!(d <= tol))
                rep.violation("C08/field-map/axial-symmetry",
                              "RZMapField is not equivariant under a rotation about z", w);
            else
                rep.held("field-map/symmetry/" + mapname.substr(0, mapname.find(':')));

            // enclosing cell (either neighbour when within rounding of a grid line)
            double fz = (z - inp.min_z) / dz, fr = (rr - inp.min_r) / dr;
            int iz0 = std::max(0, int(std::floor(fz - 1e-9))), iz1 = std::min(int(nz) - 1, int(std::floor(fz + 1e-9)) + 1);
            int ir0 = std::max(0, int(std::floor(fr - 1e-9))), ir1 = std::min(int(nr) - 1, int(std::floor(fr + 1e-9)) + 1);
            double lo[2] = {INFINITY, INFINITY}, hi[2] = {-INFINITY, -INFINITY};
            for (int iz = iz0; iz <= iz1; ++iz)
                for (int ir = ir0; ir <= ir1; ++ir)
                    for (int comp = 0; comp < 2; ++comp)
                    {
                        double v = node(unsigned(iz), unsigned(ir), comp == 1);
                        lo[comp] = std::min(lo[comp], v);
                        hi[comp] = std::max(hi[comp], v);
                    }
            double br = rr > 0 ? b[0] * cphi + b[1] * sphi : std::hypot(b[0], b[1]);
            w["cell_range"] = {{"B_z", {lo[0], hi[0]}}, {"B_r", {lo[1], hi[1]}}};
            bool ok_z = b[2] >= lo[0] - tol && b[2] <= hi[0] + tol;
            // on the axis the radial component has no direction: only its magnitude is bounded
            bool ok_r = rr > 0 ? (br >= lo[1] - tol && br <= hi[1] + tol) : (br <= tol);
            if (!std::isfinite(b[0]) || !std::isfinite(b[1]) || !std::isfinite(b[2]))
                rep.violation("C08/field-map/non-finite", "RZMapField returned a non-finite value", w);
            else if (!ok_z || !ok_r)
                rep.violation(std::string("C08/field-map/out-of-cell-range/") + (ok_z ? "r" : "z"),
                              "RZMapField value lies outside the range spanned by the corners of the enclosing cell", w);
            else
                rep.held(std::string("field-map/range/") + (rr > 0 ? "off-axis" : "on-axis"));
        }

        // exactly on the outer grid planes (z == max_z, r == max_r, or both) and on the inner ones
        // (z == min_z, r == min_r): evaluating the field there is valid use; the value must be
        // finite and either zero ("outside") or inside the range of the nodes of the adjacent
        // cell, and the interpolation must not trip a library precondition (in the debug/asan
        // replica UniformGrid::find and Collection::operator[] are checked: an assertion here
        // is an out-of-range table index in a release build)
        {
            int which = int(r.integer(0, 4));  // 0: z=max, 1: r=max, 2: both max, 3: z=min, 4: r=min
            double rr = (which == 1 || which == 2) ? inp.max_r
                        : which == 4             ? inp.min_r
                                                 : r.uniform(inp.min_r + 1e-6 * dr, inp.max_r - 1e-6 * dr);
            double z = (which == 0 || which == 2) ? inp.max_z
                       : which == 3              ? inp.min_z
                                                 : r.uniform(inp.min_z + 1e-6 * dz, inp.max_z - 1e-6 * dz);
            // radius exactly representable: put the point on the x axis (sqrt(x*x) == x)
            Real3 p{rr, 0, z};
            static char const* const names[] = {"z-max", "r-max", "corner-max", "z-min", "r-min"};
            try
            {
                Real3 b = field(p);
                json w = describe(p, b);
                w["edge"] = names[which];
                double fz = (z - inp.min_z) / dz, fr = (rr - inp.min_r) / dr;
                int iz0 = std::max(0, int(std::floor(fz - 1e-9)) - 1), iz1 = std::min(int(nz) - 1, int(std::floor(fz + 1e-9)) + 1);
                int ir0 = std::max(0, int(std::floor(fr - 1e-9)) - 1), ir1 = std::min(int(nr) - 1, int(std::floor(fr + 1e-9)) + 1);
                double lo[2] = {0, 0}, hi[2] = {0, 0};  // zero is always allowed on an edge
                for (int iz = iz0; iz <= iz1; ++iz)
                    for (int ir = ir0; ir <= ir1; ++ir)
                        for (int comp = 0; comp < 2; ++comp)
                        {
                            double v = node(unsigned(iz), unsigned(ir), comp == 1);
                            lo[comp] = std::min(lo[comp], v);
                            hi[comp] = std::max(hi[comp], v);
                        }
                bool finite = std::isfinite(b[0]) && std::isfinite(b[1]) && std::isfinite(b[2]);
                bool ok = finite && b[2] >= lo[0] - tol && b[2] <= hi[0] + tol && b[0] >= lo[1] - tol
                          && b[0] <= hi[1] + tol && std::fabs(b[1]) <= tol;
                if (!ok)
                    rep.violation(which <= 2 ? "C08/rzmap/start-on-upper-grid-plane" : "C08/field-map/lower-edge-value",
                                  "RZMapField exactly on an outer grid plane: value non-finite or outside the range of the adjacent nodes", w);
                else
                    rep.held(std::string("field-map/edge/") + names[which]);
            }
            catch (celeritas::DebugError const& e)
            {
                json w = describe(p, Real3{0, 0, 0});
                w["edge"] = names[which];
                w["assertion"] = std::string(e.what()).substr(0, 400);
                rep.violation(which <= 2 ? "C08/rzmap/start-on-upper-grid-plane" : "C08/field-map/lower-edge-assert",
                              "RZMapField exactly on an outer grid plane: valid() lets the point through but the "
                              "interpolation's precondition fails (out-of-range table index in a release build)", w);
            }
        }

        // outside the map: zero field
        {
            bool beyond_r = r.coin();
            double rr = beyond_r ? inp.max_r * (1 + r.loguniform(1e-6, 10)) + 1e-6 : r.uniform(inp.min_r, inp.max_r);
            double z = beyond_r ? r.uniform(inp.min_z, inp.max_z)
                                : (r.coin() ? inp.max_z + r.loguniform(1e-6, 10) * (inp.max_z - inp.min_z)
                                            : inp.min_z - r.loguniform(1e-6, 10) * (inp.max_z - inp.min_z));
            Real3 p{rr * cphi, rr * sphi, z};
            Real3 b = field(p);
            if (b[0] != 0 || b[1] != 0 || b[2] != 0)
                rep.violation("C08/field-map/nonzero-outside-map", "RZMapField is non-zero outside its grid", describe(p, b));
            else
                rep.held("field-map/outside");
        }
    }
}

inline void check_field_maps(verif::Report& rep, verif::Args const& args,
                             RZMapFieldInput const* cms_input)
{
    verif::Rng r(verif::mix_seed(args.seed, 0xf1e1d));
    int const npoints = args.thorough() ? 2000 : 300;
    if (cms_input && *cms_input)
        check_one_map(rep, r, *cms_input, "cms-tiny", npoints);
    int const nmaps = args.thorough() ? 200 : 30;
    for (int m = 0; m < nmaps; ++m)
    {
        RZMapFieldInput inp = random_rz_map(r);
        if (!inp)
        {
            rep.inconclusive("generated map invalid");
            continue;
        }
        check_one_map(rep, r, inp, "random:" + std::to_string(m), npoints);
    }
}

}  // namespace fieldv
