// C18 part 2: scalar math helpers, Range/Count, Hyperslab and ragged-right indexers
// against exact / long-double references.
#include <algorithm>
#include <cfloat>
#include <limits>

#include "corecel/OpaqueId.hh"
#include "corecel/Types.hh"
#include "corecel/cont/Array.hh"
#include "corecel/cont/Range.hh"
#include "corecel/data/HyperslabIndexer.hh"
#include "corecel/math/Algorithms.hh"
#include "orange/OrangeData.hh"
#include "orange/univ/detail/RaggedRightIndexer.hh"

#include "grid_common.hh"

using namespace gridv;
namespace cel = celeritas;

namespace gridv
{
namespace
{
using u128 = unsigned __int128;

enum class Colour
{
    red,
    green,
    blue,
    alpha,
    size_
};

double random_double(verif::Rng& rng, int kind)
{
    switch (kind % 6)
    {
        case 0: return rng.uniform(-10, 10);
        case 1: return rng.normal() * std::pow(10.0, double(rng.integer(-12, 12)));
        case 2: return double(rng.integer(-1000, 1000));
        case 3: return double(rng.integer(-4000, 4000)) * 0.25;
        case 4: return (rng.coin() ? 1 : -1) * rng.loguniform(1e-30, 1e30);
        default: {
            double b = double(rng.integer(-64, 64)) * 0.5;
            return verif::next_up(b, int(rng.integer(0, 2))) - 0.0;
        }
    }
}

template<unsigned N>
void check_ipow(verif::Report& rep, CellCounter& cells, double v)
{
    // Reference: powl.  ipow<N> is a product of N factors by repeated squaring: any
    // evaluation order of a product of N floats has relative error <= (N-1) u (1+O(u))
    // (Higham, Accuracy and Stability, Lemma 3.1); powl's own error (~1e-19 rel) is
    // negligible.  Cases that leave the normal range are not judged.
    double got = cel::ipow<N>(v);
    ldbl ref = N == 0 ? 1.0L : powl(ldbl(v), ldbl(N));
    if (N > 0 && (fabsl(ref) > 1e300L || (ref != 0 && fabsl(ref) < 1e-290L)))
    {
        rep.inconclusive("untestable: ipow result outside the normal range");
        return;
    }
    double tol = (N <= 1 ? 0.0 : double(N - 1) * kU * 1.01) * double(fabsl(ref));
    if (!(fabsl(ldbl(got) - ref) <= ldbl(tol)))
        rep.violation("C18/ipow", "ipow<N> differs from powl beyond the product rounding bound",
                      {{"N", N}, {"v", verif::hexd(v)}, {"got", verif::hexd(got)},
                       {"ref", double(ref)}, {"tol", tol}});
    else
        cells.hit("ipow/N" + std::to_string(N) + (v < 0 ? "/neg" : v == 0 ? "/zero" : "/pos"));
    // integers: exact
    if (std::fabs(v) <= 8 && v == std::floor(v) && N <= 20)
    {
        long long iv = (long long)v, r = 1;
        for (unsigned i = 0; i < N; ++i)
            r *= iv;
        long long g = cel::ipow<N>(iv);
        if (g != r)
            rep.violation("C18/ipow", "ipow<N> on integers is not exact",
                          {{"N", N}, {"v", iv}, {"got", g}, {"ref", r}});
        else
            cells.hit("ipow-int/N" + std::to_string(N));
    }
}

template<class T>
void check_ceil_div(verif::Report& rep, CellCounter& cells, T top, T bottom, char const* tname)
{
    // precondition (documented "for positive numbers"): bottom > 0
    T got = cel::ceil_div(top, bottom);
    // exact: smallest q with q*bottom >= top
    u128 q = (u128(top) + u128(bottom) - 1) / u128(bottom);
    if (u128(got) != q)
        rep.violation("C18/ceil_div", "ceil_div differs from exact ceiling division",
                      {{"type", tname}, {"top", std::to_string(top)}, {"bottom", std::to_string(bottom)},
                       {"got", std::to_string(got)}});
    else
        cells.hit(std::string("ceil_div/") + tname + (top % bottom == 0 ? "/exact" : "/round")
                  + (top > std::numeric_limits<T>::max() - bottom ? "/near-max" : ""));
}

void check_eumod(verif::Report& rep, CellCounter& cells, double n, double d)
{
    // Euclidean modulus: the unique r in [0,|d|) with n = q d + r, q integer.
    // Reference in exact arithmetic: fmodl of two doubles is exact; adding |d| to a
    // negative remainder is exact in 80-bit for the magnitudes generated here only up
    // to rounding 2^-64, negligible against the double rounding allowed below.
    // The implementation performs one double addition r +- d (correctly rounded), so
    // the result must be the exact value rounded to double: tolerance 1/2 ulp of |d|
    // (r_exact < |d|).  Result == |d| is the rounding of a value just below |d| and is
    // accepted; result < 0 or > |d| never is.
    if (d == 0 || !std::isfinite(n) || !std::isfinite(d))
        return;
    double got = cel::eumod(n, d);
    ldbl r = fmodl(ldbl(n), ldbl(d));
    if (r < 0)
        r += fabsl(ldbl(d));
    double tol = 0.5 * ulp_of(d) * 1.0001;
    bool ok = got >= 0 && got <= std::fabs(d) && fabsl(ldbl(got) - r) <= ldbl(tol);
    if (!ok)
        rep.violation("C18/eumod", "eumod is not the Euclidean remainder in [0,|d|)",
                      {{"numer", verif::hexd(n)}, {"denom", verif::hexd(d)},
                       {"got", verif::hexd(got)}, {"ref", double(r)}});
    else
        cells.hit(std::string("eumod/n") + (n < 0 ? "-" : n == 0 ? "0" : "+") + "/d" + (d < 0 ? "-" : "+")
                  + (std::fmod(n, d) == 0 ? "/multiple" : "/general"));
}

void check_sincospi(verif::Report& rep, CellCounter& cells, double a, char const* klass)
{
    double s, c;
    cel::sincospi(a, &s, &c);
    double s1 = cel::sinpi(a), c1 = cel::cospi(a);
    auto W = [&]() {
        return json{{"a", verif::hexd(a)}, {"sin", verif::hexd(s)}, {"cos", verif::hexd(c)},
                    {"sinpi", verif::hexd(s1)}, {"cospi", verif::hexd(c1)}};
    };
    if (s != s1 || c != c1)
    {
        rep.violation("C18/sincospi/consistency", "sincospi disagrees with sinpi/cospi", W());
        return;
    }
    if (std::fabs(a) >= 9007199254740992.0)
    {
        // every double >= 2^53 is an even integer: sin(pi a) = 0, cos(pi a) = 1
        if (s != 0 || c != 1)
            rep.violation("C18/sincospi/huge", "sincospi(|a| >= 2^53) is not (0, 1)", W());
        else
            cells.hit(std::string("sincospi/") + klass);
        return;
    }
    // Exact reduction: r = a mod 2 is exact in floating point; pi_l * r then carries
    // only 2^-64 relative error, sinl/cosl ~1 ulp of long double.
    ldbl r = fmodl(ldbl(a), 2.0L);
    static const ldbl pil = 3.14159265358979323846264338327950288L;
    ldbl sr, cr;
    // exact special values (IEEE 754-2019 sinPi/cosPi)
    double twice = 2 * double(r);
    bool half_int = twice == std::floor(twice);
    if (half_int)
    {
        long k = long(twice);  // in -3..3
        static const int sv[4] = {0, 1, 0, -1}, cv[4] = {1, 0, -1, 0};
        long m = ((k % 4) + 4) % 4;
        sr = sv[m];
        cr = cv[m];
        if (double(sr) != s || double(cr) != c)
        {
            rep.violation("C18/sincospi/exact", "sincospi at a multiple of 1/2 is not exact", W());
            return;
        }
        cells.hit(std::string("sincospi/") + klass + "/half-integer");
        return;
    }
    {
        // Reduce to the nearest multiple of 1/2 (exact: r and q/2 are doubles with
        // |r| < 2) so that the reference keeps full *relative* accuracy next to the
        // zeros of sin and cos, then map back by quadrant.
        long q = lroundl(2 * r);
        ldbl t = r - ldbl(q) / 2;  // |t| <= 1/4, exact
        ldbl s0 = sinl(pil * t), c0 = cosl(pil * t);
        switch (((q % 4) + 4) % 4)
        {
            case 0: sr = s0; cr = c0; break;
            case 1: sr = c0; cr = -s0; break;
            case 2: sr = -s0; cr = -c0; break;
            default: sr = -c0; cr = s0; break;
        }
    }
    // Tolerance: the implementation (N. Juffa's sincospi, cited in Sincospi.hh) is a
    // minimax polynomial evaluated with fma on an exactly reduced argument; its author
    // states < 1 ulp maximum error for both outputs.  No tighter derivation is possible
    // without re-deriving the polynomial, so 1 ulp of the result (+ the reference's
    // 2^-63) is the documented bound used here.
    auto within = [](double got, ldbl ref) {
        double u = ulp_of(double(ref));
        if (u < DBL_MIN)
            u = DBL_MIN;
        return fabsl(ldbl(got) - ref) <= ldbl(1.0 * u) + fabsl(ref) * 2.2e-19L;
    };
    rep.observe_max("sincospi_max_err_ulp",
                    double(std::max(fabsl(ldbl(s) - sr) / ldbl(std::max(ulp_of(double(sr)), DBL_MIN)),
                                    fabsl(ldbl(c) - cr) / ldbl(std::max(ulp_of(double(cr)), DBL_MIN)))));
    if (!within(s, sr) || !within(c, cr))
        rep.violation("C18/sincospi/accuracy", "sincospi differs from sinl/cosl(pi a) by more than 1 ulp",
                      {{"case", W()}, {"ref_sin", double(sr)}, {"ref_cos", double(cr)}});
    else
        cells.hit(std::string("sincospi/") + klass);
}

template<cel::size_type N>
void check_hyperslab(verif::Report& rep, CellCounter& cells, cel::Array<cel::size_type, N> dims,
                     bool exhaustive_cell, verif::Rng& rng)
{
    using Coords = cel::Array<cel::size_type, N>;
    cel::HyperslabIndexer<N> to_index(dims);
    cel::HyperslabInverseIndexer<N> to_coords(dims);
    u64 total = 1;
    for (auto d : dims)
        total *= d;
    bool ok = true;
    auto one = [&](Coords const& cc) {
        u64 ref = 0;
        for (cel::size_type i = 0; i < N; ++i)
            ref = ref * dims[i] + cc[i];
        cel::size_type idx = to_index(cc);
        Coords back = to_coords(idx);
        if (u64(idx) != ref || !(back == cc))
        {
            ok = false;
            rep.violation("C18/hyperslab", "HyperslabIndexer/inverse disagree with row-major reference",
                          {{"N", N}, {"dims", jvec(dims)}, {"coords", jvec(cc)}, {"index", idx},
                           {"ref", ref}, {"back", jvec(back)}});
        }
    };
    u64 n = 0;
    if (total <= 5000)
    {
        Coords cc;
        for (auto& x : cc)
            x = 0;
        u64 expect = 0;
        while (ok)
        {
            // enumeration in C order must produce consecutive indices
            if (u64(to_index(cc)) != expect)
            {
                ok = false;
                rep.violation("C18/hyperslab", "C-order enumeration does not give consecutive indices",
                              {{"N", N}, {"dims", jvec(dims)}, {"coords", jvec(cc)}, {"expect", expect}});
                break;
            }
            one(cc);
            ++expect;
            ++n;
            int k = int(N) - 1;
            while (k >= 0 && ++cc[cel::size_type(k)] == dims[cel::size_type(k)])
                cc[cel::size_type(k--)] = 0;
            if (k < 0)
                break;
        }
    }
    else
    {
        for (int t = 0; t < 200 && ok; ++t)
        {
            Coords cc;
            for (cel::size_type i = 0; i < N; ++i)
                cc[i] = t == 0   ? 0
                        : t == 1 ? dims[i] - 1
                                 : cel::size_type(rng.integer(0, std::int64_t(dims[i]) - 1));
            one(cc);
            ++n;
        }
    }
    if (ok)
        cells.hit("hyperslab/N" + std::to_string(N) + (exhaustive_cell ? "/all-coords" : "/sampled"), n);
}

template<cel::size_type N>
void check_ragged(verif::Report& rep, CellCounter& cells, verif::Rng& rng)
{
    using Data = cel::RaggedRightIndexerData<N>;
    typename Data::Sizes sizes;
    for (auto& s : sizes)
        s = cel::size_type(rng.coin(0.3) ? 1 : rng.integer(1, 40));
    Data data = Data::from_sizes(sizes);
    cel::detail::RaggedRightIndexer<N> to_index(data);
    cel::detail::RaggedRightInverseIndexer<N> to_coords(data);
    cel::size_type flat = 0;
    bool ok = true;
    for (cel::size_type i = 0; i < N && ok; ++i)
        for (cel::size_type j = 0; j < sizes[i] && ok; ++j, ++flat)
        {
            cel::size_type idx = to_index({i, j});
            auto cc = to_coords(flat);
            if (idx != flat || cc[0] != i || cc[1] != j)
            {
                ok = false;
                rep.violation("C18/ragged-right", "RaggedRightIndexer/inverse disagree with the "
                                                  "flattened enumeration",
                              {{"sizes", jvec(sizes)}, {"coords", {i, j}}, {"index", idx},
                               {"expect", flat}, {"inverse", jvec(cc)}});
            }
        }
    if (ok)
        cells.hit("ragged-right/N" + std::to_string(N), flat);
}

template<class T, class MakeT, class ToInt>
void check_range(verif::Report& rep, CellCounter& cells, long lo, long hi, char const* tname,
                 MakeT make, ToInt to_int)
{
    // range(lo,hi) yields lo, lo+1, ..., hi-1; size, front, back, operator[] agree
    auto r = cel::range(make(lo), make(hi));
    std::vector<long> got;
    for (auto v : r)
    {
        got.push_back(to_int(v));
        if (got.size() > std::size_t(hi - lo) + 2)
            break;
    }
    bool ok = got.size() == std::size_t(hi - lo) && long(r.size()) == hi - lo
              && r.empty() == (hi == lo);
    for (std::size_t i = 0; i < got.size() && ok; ++i)
        ok = got[i] == lo + long(i) && to_int(r[typename cel::Range<T>::size_type(i)]) == got[i];
    if (ok && hi > lo)
        ok = to_int(r.front()) == lo && to_int(r.back()) == hi - 1
             && to_int(*r.end()) == hi && (r.end() - r.begin()) == hi - lo;
    if (!ok)
        rep.violation(std::string("C18/range/") + tname, "range(lo,hi) does not enumerate [lo,hi)",
                      {{"lo", lo}, {"hi", hi}, {"got", jvec(got, 40)}, {"size", long(r.size())}});
    else if (hi == lo)
        cells.trivial();
    else
        cells.hit(std::string("range/") + tname + "/" + len_bucket(std::size_t(hi - lo)));
}

}  // namespace

//---------------------------------------------------------------------------//
void c18_math(verif::Args const& args, verif::Report& rep, CellCounter& cells)
{
    u64 ncase = args.budget(60000, 20000000);
    for (u64 ci = 0; ci < ncase; ++ci)
    {
        verif::Rng rng(verif::mix_seed(args.seed, 0x182000 + ci));
        int kind = int(ci % 13);
        double x = random_double(rng, int(rng.integer(0, 5)));
        double y = random_double(rng, int(rng.integer(0, 5)));

        switch (kind)
        {
            case 0: {  // clamp (precondition !(hi < lo))
                double lo = std::min(x, y), hi = std::max(x, y);
                double v = rng.coin(0.3) ? (rng.coin() ? lo : hi) : random_double(rng, int(ci));
                if (rng.coin(0.1))
                    v = rng.coin() ? verif::next_up(hi) : verif::next_down(lo);
                double g = cel::clamp(v, lo, hi), e = std::clamp(v, lo, hi);
                if (verif::bits_of(g) != verif::bits_of(e))
                    rep.violation("C18/clamp", "clamp differs from std::clamp",
                                  {{"v", verif::hexd(v)}, {"lo", verif::hexd(lo)}, {"hi", verif::hexd(hi)},
                                   {"got", verif::hexd(g)}});
                else
                    cells.hit(std::string("clamp/double/") + (v < lo ? "below" : v > hi ? "above" : "inside"));
                long li = long(rng.integer(-1000, 1000)), hi_i = li + long(rng.integer(0, 50)),
                     vi = long(rng.integer(li - 3, hi_i + 3));
                if (cel::clamp(vi, li, hi_i) != std::clamp(vi, li, hi_i))
                    rep.violation("C18/clamp", "integer clamp differs from std::clamp",
                                  {{"v", vi}, {"lo", li}, {"hi", hi_i}});
                else
                    cells.hit(std::string("clamp/int/") + (vi < li ? "below" : vi > hi_i ? "above" : "inside"));
                double cn = cel::clamp_to_nonneg(x);
                if (!(cn == (x < 0 ? 0.0 : x)))
                    rep.violation("C18/clamp_to_nonneg", "clamp_to_nonneg wrong", {{"v", verif::hexd(x)}});
                else
                    cells.hit(std::string("clamp_to_nonneg/") + (x < 0 ? "neg" : "nonneg"));
                break;
            }
            case 1: {
                double v = rng.coin(0.5) ? rng.uniform(-4, 4) : random_double(rng, int(ci / 16));
                switch ((ci / 13) % 9)
                {
                    case 0: check_ipow<0>(rep, cells, v); break;
                    case 1: check_ipow<1>(rep, cells, v); break;
                    case 2: check_ipow<2>(rep, cells, v); break;
                    case 3: check_ipow<3>(rep, cells, v); break;
                    case 4: check_ipow<4>(rep, cells, v); break;
                    case 5: check_ipow<5>(rep, cells, v); break;
                    case 6: check_ipow<7>(rep, cells, v); break;
                    case 7: check_ipow<8>(rep, cells, v); break;
                    default: check_ipow<13>(rep, cells, v); break;
                }
                break;
            }
            case 2: {  // fastpow(a,b) = exp(b log a); precondition a > 0 or (a == 0, b != 0)
                double a = rng.coin(0.05) ? 0.0 : rng.coin() ? rng.uniform(0, 4) : rng.loguniform(1e-20, 1e20);
                double b = rng.coin() ? rng.uniform(-8, 8) : double(rng.integer(-6, 6)) * 0.5;
                if (a == 0 && b == 0)
                    b = 1;
                if (a == 0)
                {
                    double g = cel::fastpow(a, b);
                    double e = b > 0 ? 0.0 : INFINITY;
                    if (g != e)
                        rep.violation("C18/fastpow", "fastpow(0,b) wrong", {{"b", b}, {"got", g}});
                    else
                        cells.hit(b > 0 ? "fastpow/zero-base/b+" : "fastpow/zero-base/b-");
                    break;
                }
                ldbl ref = powl(ldbl(a), ldbl(b));
                if (ref > 1e300L || ref < 1e-290L)
                {
                    rep.inconclusive("untestable: fastpow result outside the normal range");
                    break;
                }
                double g = cel::fastpow(a, b);
                // exp(b*log a): log has <= 1 ulp error -> abs error u|log a| in the
                // logarithm, the product adds u|b log a|, so the exponent carries an
                // absolute error <= 2 u |b log a| (1+u); exp turns it into the same
                // relative error and adds its own ulp.  Tolerance 2u(1 + 2|b ln a|)
                // with a 1.5 safety factor for the libm ulp bounds.
                double t = std::fabs(b * std::log(a));
                double tol = 1.5 * 2 * kU * (1 + 2 * t) * double(ref);
                rep.observe_max("fastpow_err_over_tol", double(fabsl(ldbl(g) - ref)) / tol);
                if (!(fabsl(ldbl(g) - ref) <= ldbl(tol)))
                    rep.violation("C18/fastpow", "fastpow differs from powl beyond exp(b log a) rounding",
                                  {{"a", verif::hexd(a)}, {"b", verif::hexd(b)}, {"got", verif::hexd(g)},
                                   {"ref", double(ref)}, {"tol", tol}});
                else
                    cells.hit(std::string("fastpow/") + (a < 1 ? "a<1" : "a>=1") + (b < 0 ? "/b-" : "/b+"));
                break;
            }
            case 3: {  // ceil_div
                int sk = int(rng.integer(0, 3));
                if (sk == 0)
                {
                    unsigned t = unsigned(rng.integer(0, 200)), b = unsigned(rng.integer(1, 17));
                    check_ceil_div<unsigned>(rep, cells, t, b, "u32");
                }
                else if (sk == 1)
                {
                    unsigned b = unsigned(rng.u32() >> rng.integer(0, 31)) | 1u;
                    unsigned t = rng.coin() ? 0xffffffffu - unsigned(rng.integer(0, 40)) : rng.u32();
                    check_ceil_div<unsigned>(rep, cells, t, b, "u32");
                }
                else if (sk == 2)
                {
                    u64 b = (rng.u64() >> rng.integer(0, 63)) | 1ull;
                    u64 t = rng.coin() ? ~0ull - u64(rng.integer(0, 40)) : (rng.u64() >> rng.integer(0, 63));
                    check_ceil_div<u64>(rep, cells, t, b, "u64");
                }
                else
                {
                    std::size_t b = std::size_t(rng.integer(1, 1024));
                    std::size_t t = std::size_t(rng.integer(0, 100000)) / b * b + (rng.coin() ? 0 : std::size_t(rng.integer(0, 3)));
                    check_ceil_div<std::size_t>(rep, cells, t, b, "size_t");
                }
                // LocalWorkCalculator: shares differ by at most one and sum to the total
                unsigned total = unsigned(rng.integer(0, 500)), nw = unsigned(rng.integer(1, 40));
                cel::LocalWorkCalculator<unsigned> lw{total, nw};
                u64 sum = 0;
                unsigned mn = ~0u, mx = 0, prev = ~0u;
                bool mono = true;
                for (unsigned w = 0; w < nw; ++w)
                {
                    unsigned k = lw(w);
                    sum += k;
                    mn = std::min(mn, k);
                    mx = std::max(mx, k);
                    mono = mono && k <= prev;
                    prev = k;
                }
                if (sum != total || mx - mn > 1 || !mono)
                    rep.violation("C18/local-work", "LocalWorkCalculator shares do not partition the work",
                                  {{"total", total}, {"workers", nw}, {"sum", sum}});
                else
                    cells.hit(total % nw ? "local-work/uneven" : "local-work/even");
                break;
            }
            case 4: {  // eumod
                double d = rng.coin(0.5) ? double(rng.integer(1, 12)) * (rng.coin() ? 1 : -1)
                           : rng.coin() ? 6.283185307179586 * (rng.coin() ? 1 : -1)
                                        : random_double(rng, int(ci / 16));
                double n = rng.coin(0.2)   ? d * double(rng.integer(-5, 5))
                           : rng.coin(0.2) ? -std::fabs(d) * rng.loguniform(1e-25, 1)
                           : rng.coin()    ? rng.uniform(-50, 50)
                                           : random_double(rng, int(ci / 16) + 1);
                check_eumod(rep, cells, n, d);
                break;
            }
            case 5: {  // signum / negate
                double v = rng.coin(0.2) ? (rng.coin() ? 0.0 : -0.0)
                           : rng.coin(0.1) ? (rng.coin() ? INFINITY : -INFINITY)
                                           : x;
                int e = v > 0 ? 1 : v < 0 ? -1 : 0;
                if (cel::signum(v) != e)
                    rep.violation("C18/signum", "signum wrong", {{"v", verif::hexd(v)}});
                else
                    cells.hit(std::string("signum/double/") + (e > 0 ? "+" : e < 0 ? "-" : "0"));
                long iv = long(rng.integer(-3, 3));
                if (cel::signum(iv) != (iv > 0) - (iv < 0))
                    rep.violation("C18/signum", "integer signum wrong", {{"v", iv}});
                else
                    cells.hit("signum/int");
                double ng = cel::negate(v);
                bool okn = (v == 0) ? (verif::bits_of(ng) == 0) : (ng == -v);
                if (!okn)
                    rep.violation("C18/negate", "negate wrong or returned a signed zero",
                                  {{"v", verif::hexd(v)}, {"got", verif::hexd(ng)}});
                else
                    cells.hit(std::string("negate/") + (v == 0 ? "zero" : "nonzero"));
                break;
            }
            case 6: {  // diffsq
                double a = x, b = rng.coin(0.3) ? verif::next_up(x, int(rng.integer(0, 3))) : y;
                if (std::fabs(a) > 1e150 || std::fabs(b) > 1e150)
                    break;
                ldbl ref = (ldbl(a) - ldbl(b)) * (ldbl(a) + ldbl(b));
                if (ref != 0 && fabsl(ref) < 1e-290L)
                {
                    rep.inconclusive("untestable: diffsq underflow");
                    break;
                }
                double g = cel::diffsq(a, b);
                // (a-b), (a+b) and the product round once each: relative error <= 3u(1+u)
                // of the exact (a-b)(a+b); the 80-bit reference adds < 2^-62
                double tol = 3.03 * kU * double(fabsl(ref));
                if (!(fabsl(ldbl(g) - ref) <= ldbl(tol)))
                    rep.violation("C18/diffsq", "diffsq differs from a^2-b^2 beyond 3 roundings",
                                  {{"a", verif::hexd(a)}, {"b", verif::hexd(b)}, {"got", verif::hexd(g)}});
                else
                    cells.hit(std::string("diffsq/") + (a == b ? "equal" : std::fabs(a - b) < 1e-10 * std::fabs(a) ? "close" : "general"));
                break;
            }
            case 7: {  // rsqrt
                double v = rng.loguniform(1e-300, 1e300);
                double g = cel::rsqrt(v);
                ldbl ref = 1.0L / sqrtl(ldbl(v));
                // sqrt and the division are each correctly rounded: <= 1.5 ulp total,
                // i.e. relative 3u
                if (!(fabsl(ldbl(g) - ref) <= 3.03L * kU * ref))
                    rep.violation("C18/rsqrt", "rsqrt(double) differs from 1/sqrt", {{"v", verif::hexd(v)}});
                else
                    cells.hit("rsqrt/double");
                float vf = float(rng.loguniform(1e-30, 1e30));
                float gf = cel::rsqrt(vf);
                double rf = 1.0 / std::sqrt(double(vf));
                if (!(std::fabs(double(gf) - rf) <= 3.03 * 5.9604644775390625e-08 * rf))
                    rep.violation("C18/rsqrt", "rsqrt(float) differs from 1/sqrt", {{"v", vf}});
                else
                    cells.hit("rsqrt/float");
                break;
            }
            case 8:
            case 9: {  // sincospi
                int k = int(rng.integer(0, 7));
                double a;
                char const* klass;
                switch (k)
                {
                    case 0: a = rng.uniform(-2, 2); klass = "unit"; break;
                    case 1: a = double(rng.integer(-40, 40)) * 0.25; klass = "quarter"; break;
                    case 2:
                        a = verif::next_up(double(rng.integer(-40, 40)) * 0.25, int(rng.integer(1, 2)));
                        klass = "quarter+ulp";
                        break;
                    case 3:
                        a = verif::next_down(double(rng.integer(-40, 40)) * 0.25, int(rng.integer(1, 2)));
                        klass = "quarter-ulp";
                        break;
                    case 4: a = rng.normal() * 1e6; klass = "large"; break;
                    case 5: a = (rng.coin() ? 1 : -1) * rng.loguniform(1e-300, 1e-3); klass = "tiny"; break;
                    case 6: a = (rng.coin() ? 1 : -1) * rng.loguniform(1e12, 1e18); klass = "huge"; break;
                    default: a = rng.uniform(-1000, 1000); klass = "moderate"; break;
                }
                check_sincospi(rep, cells, a, klass);
                // sincos vs libm (same function expected: bitwise equal to std::sin/cos)
                double s, c;
                cel::sincos(a, &s, &c);
                if (s != std::sin(a) || c != std::cos(a))
                    rep.violation("C18/sincos", "sincos differs from std::sin/std::cos", {{"a", verif::hexd(a)}});
                else
                    cells.hit("sincos/libm");
                break;
            }
            case 10: {  // hyperslab
                bool small = rng.coin(0.7);
                auto dim = [&]() { return cel::size_type(small ? rng.integer(1, 7) : rng.integer(1, 900)); };
                switch (rng.integer(1, 4))
                {
                    case 1: check_hyperslab<1>(rep, cells, {dim()}, small, rng); break;
                    case 2: check_hyperslab<2>(rep, cells, {dim(), dim()}, small, rng); break;
                    case 3: check_hyperslab<3>(rep, cells, {dim(), dim(), dim()}, small, rng); break;
                    default:
                        check_hyperslab<4>(rep, cells,
                                           {dim(), dim(), dim(), cel::size_type(small ? rng.integer(1, 7) : rng.integer(1, 5))},
                                           small, rng);
                        break;
                }
                break;
            }
            case 11: {
                switch (rng.integer(0, 3))
                {
                    case 0: check_ragged<1>(rep, cells, rng); break;
                    case 1: check_ragged<2>(rep, cells, rng); break;
                    case 2: check_ragged<3>(rep, cells, rng); break;
                    default: check_ragged<6>(rep, cells, rng); break;
                }
                break;
            }
            case 12: {  // range over int / unsigned / OpaqueId / enum
                long lo = long(rng.integer(-20, 20)), hi = lo + long(rng.coin(0.1) ? 0 : rng.integer(0, 70));
                check_range<int>(rep, cells, lo, hi, "int", [](long v) { return int(v); },
                                 [](int v) { return long(v); });
                long ulo = std::labs(lo);
                check_range<unsigned>(rep, cells, ulo, ulo + (hi - lo), "unsigned",
                                      [](long v) { return unsigned(v); }, [](unsigned v) { return long(v); });
                using Id = cel::OpaqueId<struct RangeTag_>;
                check_range<Id>(rep, cells, ulo, ulo + (hi - lo), "OpaqueId",
                                [](long v) { return Id(Id::size_type(v)); },
                                [](Id v) { return long(v.unchecked_get()); });
                long elo = long(rng.integer(0, 4)), ehi = long(rng.integer(elo, 4));
                check_range<Colour>(rep, cells, elo, ehi, "enum", [](long v) { return Colour(int(v)); },
                                    [](Colour v) { return long(int(v)); });
                // range(n) starts at zero
                {
                    unsigned n = unsigned(rng.integer(0, 50)), k = 0;
                    bool ok = true;
                    for (auto i : cel::range(n))
                        ok = ok && i == k++;
                    if (!ok || k != n)
                        rep.violation("C18/range/from-zero", "range(n) does not enumerate [0,n)", {{"n", n}});
                    else if (n)
                        cells.hit("range/from-zero");
                }
                // positive step: lo, lo+s, ... < hi
                {
                    int s = int(rng.integer(1, 9));
                    std::vector<long> got, ref;
                    for (auto i : cel::range(int(lo), int(hi)).step(s))
                    {
                        got.push_back(i);
                        if (got.size() > 200)
                            break;
                    }
                    for (long i = lo; i < hi; i += s)
                        ref.push_back(i);
                    std::vector<long> gotu, refu;
                    for (auto i : cel::range(unsigned(ulo), unsigned(ulo + hi - lo)).step(unsigned(s)))
                    {
                        gotu.push_back(long(i));
                        if (gotu.size() > 200)
                            break;
                    }
                    for (long i = ulo; i < ulo + hi - lo; i += s)
                        refu.push_back(i);
                    if (got != ref || gotu != refu)
                        rep.violation("C18/range/step", "range(lo,hi).step(s) does not enumerate lo,lo+s,..<hi",
                                      {{"lo", lo}, {"hi", hi}, {"step", s}, {"got", jvec(got, 40)}});
                    else if (!ref.empty())
                        cells.hit(std::string("range/step/") + ((hi - lo) % s ? "ragged" : "even"));
                }
                // count(): unbounded, take a prefix
                {
                    int start = int(lo), k = 0;
                    bool ok = true;
                    for (auto i : cel::count(start))
                    {
                        ok = ok && i == start + k;
                        if (++k == 25)
                            break;
                    }
                    int st = int(rng.integer(1, 5)), k2 = 0;
                    for (auto i : cel::count(start).step(st))
                    {
                        ok = ok && i == start + st * k2;
                        if (++k2 == 25)
                            break;
                    }
                    if (!ok)
                        rep.violation("C18/range/count", "count(start) wrong", {{"start", start}});
                    else
                        cells.hit("range/count");
                }
                break;
            }
            default: break;
        }
    }
}
}  // namespace gridv
