#include "verif_common.hh"
int main(int argc, char** argv){ auto a = verif::parse_args(argc, argv); verif::Report r(a.property,"grid",a); return r.finish(); }
