// Engine `grid`: properties C14 (physics table lookups, continuous loss, MSC path
// conversions) and C18 (device-portable algorithms and grid lookups).
#include <exception>

#include "corecel/Assert.hh"

#include "grid_common.hh"
#include "verif_celer.hh"

int main(int argc, char** argv)
{
    auto args = verif::parse_args(argc, argv);
    if (args.property != "C14" && args.property != "C18")
    {
        std::cerr << "grid_engine serves C14 and C18 (got '" << args.property << "')\n";
        return 2;
    }
    verif::Report rep(args.property, "grid", args);
    try
    {
        if (args.property == "C14")
            gridv::run_c14(args, rep);
        else
            gridv::run_c18(args, rep);
    }
    catch (celeritas::DebugError const& e)
    {
        std::cerr << "uncaught DebugError (harness must catch per case): " << e.what() << "\n";
        return 2;
    }
    catch (std::exception const& e)
    {
        std::cerr << "harness failure: " << e.what() << "\n";
        return 2;
    }
    return rep.finish();
}
