// C18 driver: device-portable algorithms and grid lookups vs reference semantics.
#include "grid_common.hh"

namespace gridv
{
void c18_algorithms(verif::Args const&, verif::Report&, CellCounter&);
void c18_math(verif::Args const&, verif::Report&, CellCounter&);
void c18_grids(verif::Args const&, verif::Report&, CellCounter&);

void run_c18(verif::Args const& args, verif::Report& rep)
{
    rep.set_rule(
        "Each case calls one library routine on a generated input that satisfies the routine's "
        "documented preconditions and compares the result online with std:: (sort, partition, "
        "bounds, min_element, all_of/any_of, clamp), exact integer arithmetic (ceil_div, "
        "indexers, range) or an 80-bit long-double evaluation of the documented formula with a "
        "rounding bound derived from the operation count (ipow, fastpow, diffsq, rsqrt, eumod, "
        "sincospi, interpolators, bilinear grids). Exhaustive part (shard 0): every weak "
        "ordering (= every permutation and multiset arrangement up to order isomorphism) up to "
        "length 8, every boolean pattern up to length 16, every sorted multiset up to length 8 "
        "with queries at every element and gap. Random part: sequences up to length 10^4, grids "
        "queried at every point +-{0,1,2} ulp, mid-cells and both ends. A cell is (routine x "
        "length bucket x tie pattern x query-position class); empty or single-element inputs "
        "are trivial.");
    rep.assume("libstdc++ std::sort/partition/lower_bound/upper_bound/min_element/clamp and glibc "
               "long-double libm (powl, sinl, cosl, log2l, exp2l, fmodl) are the trusted references");
    rep.assume("sincospi accuracy bound (1 ulp) is the one stated by the implementation's cited "
               "author; it is not derived here");
    CellCounter cells;
    c18_algorithms(args, rep, cells);
    cells.flush(rep);
    c18_math(args, rep, cells);
    cells.flush(rep);
    c18_grids(args, rep, cells);
    cells.flush(rep);
}
}  // namespace gridv
