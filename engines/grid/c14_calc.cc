// C14 part 1: XsCalculator (= EnergyLossCalculator), RangeCalculator,
// InverseRangeCalculator, GenericCalculator on generated tables built through the
// production builders (ValueGridXsBuilder / ValueGridLogBuilder / GenericGridBuilder).
#include <memory>

#include "corecel/data/Collection.hh"
#include "corecel/data/CollectionBuilder.hh"
#include "celeritas/grid/EnergyLossCalculator.hh"
#include "celeritas/grid/GenericCalculator.hh"
#include "celeritas/grid/GenericGridBuilder.hh"
#include "celeritas/grid/GenericGridData.hh"
#include "celeritas/grid/InverseRangeCalculator.hh"
#include "celeritas/grid/RangeCalculator.hh"
#include "celeritas/grid/ValueGridBuilder.hh"
#include "celeritas/grid/ValueGridInserter.hh"
#include "celeritas/grid/XsCalculator.hh"
#include "celeritas/grid/XsGridData.hh"
#include "corecel/grid/UniformGrid.hh"

#include "c14_ref.hh"
#include "verif_celer.hh"

using namespace gridv;
namespace cel = celeritas;
using cel::real_type;
using cel::size_type;

namespace gridv
{
namespace
{
template<cel::Ownership W>
using Reals = cel::Collection<real_type, W, cel::MemSpace::host>;
template<cel::Ownership W>
using Grids = cel::Collection<cel::XsGridData, W, cel::MemSpace::host>;
using Energy = cel::XsCalculator::Energy;

constexpr double kSentinel = 1e300;  // pool padding: an out-of-table read becomes visible

struct Query
{
    double e;
    int cls;  // ulp class
};
enum UlpClass
{
    u_m2 = 0,
    u_m1,
    u_0,
    u_p1,
    u_p2,
    u_interior,
    u_far,
    u_count
};
char const* ucls_name(int c)
{
    static char const* const n[] = {"knot-2ulp", "knot-1ulp", "knot", "knot+1ulp", "knot+2ulp", "interior", "far"};
    return n[c];
}

// energy grid shape: returns emin, emax, n
void gen_energy_grid(verif::Rng& rng, double& emin, double& emax, std::size_t& n)
{
    int k = int(rng.integer(0, 9));
    if (k == 0)
    {  // the grids celeritas actually imports
        static double const lo[] = {1e-4, 1e-4, 1e-3, 1e-5, 1e-4};
        static double const hi[] = {1e2, 1e8, 1e5, 1e3, 1e6};
        int which = int(rng.integer(0, 4));
        emin = lo[which];
        emax = hi[which];
        double decades = std::log10(emax / emin);
        n = std::size_t(std::llround(decades * double(rng.integer(1, 10)))) + 1;
        return;
    }
    n = k < 3 ? std::size_t(rng.integer(2, 6)) : k < 8 ? std::size_t(rng.integer(7, 90)) : std::size_t(rng.integer(91, 200));
    double bpd = rng.uniform(1, 10);  // bins per decade
    double decades = double(n - 1) / bpd;
    emin = rng.loguniform(1e-7, 1e3);
    if (rng.coin(0.3))
        emin = std::pow(10.0, std::round(std::log10(emin)));
    emax = emin * std::pow(10.0, decades);
    if (emax > 1e15)
    {
        emax = 1e15;
    }
}

// non-negative table values of several shapes
std::vector<double> gen_values(verif::Rng& rng, std::vector<double> const& energy, bool allow_zero, std::string& style)
{
    std::size_t n = energy.size();
    std::vector<double> y(n);
    int k = int(rng.integer(0, 6));
    double scale = rng.loguniform(1e-6, 1e6);
    switch (k)
    {
        case 0:
            style = "flat";
            std::fill(y.begin(), y.end(), scale);
            break;
        case 1: {
            style = "power";
            double p = rng.uniform(-3, 3);
            for (std::size_t i = 0; i < n; ++i)
                y[i] = scale * std::pow(energy[i] / energy[0], p);
            break;
        }
        case 2: {
            style = "steep";
            double p = rng.uniform(3, 8) * (rng.coin() ? 1 : -1);
            for (std::size_t i = 0; i < n; ++i)
                y[i] = scale * std::pow(energy[i] / energy[n / 2], p);
            break;
        }
        case 3:
            style = "random";
            for (auto& v : y)
                v = scale * rng.loguniform(1e-3, 1e3);
            break;
        case 4: {
            style = "bump";
            double c = std::log(energy[std::size_t(rng.integer(0, std::int64_t(n) - 1))]);
            double w = rng.uniform(0.3, 3);
            for (std::size_t i = 0; i < n; ++i)
            {
                double t = (std::log(energy[i]) - c) / w;
                y[i] = scale * std::exp(-t * t);
            }
            break;
        }
        case 5:
            style = "walk";
            y[0] = scale;
            for (std::size_t i = 1; i < n; ++i)
                y[i] = y[i - 1] * std::exp(rng.normal() * 0.3);
            break;
        default:
            style = "sawtooth";
            for (std::size_t i = 0; i < n; ++i)
                y[i] = scale * (i % 2 ? 1.0 : rng.uniform(1e-3, 1));
            break;
    }
    if (allow_zero && rng.coin(0.35))
    {
        style += "+zeros";
        int nz = int(rng.integer(1, 3));
        for (int z = 0; z < nz; ++z)
        {
            std::size_t a = std::size_t(rng.integer(0, std::int64_t(n) - 1));
            std::size_t len = std::size_t(rng.integer(1, std::max<std::int64_t>(1, std::int64_t(n) / 4)));
            for (std::size_t i = a; i < std::min(n, a + len); ++i)
                y[i] = 0;
        }
    }
    // keep values in the normal range where relative rounding bounds apply
    for (auto& v : y)
    {
        if (!(v < 1e200))
            v = 1e200;
        if (v < 1e-150)
            v = 0;
    }
    return y;
}

// Query energies for a log grid: both renderings of every knot (reference exp of the
// long-double log energy, and exp(front + delta*i) in double) +-{0,1,2} ulp, the
// user-supplied ends, interior points, far outside.
void gen_queries(verif::Rng& rng, LogGrid const& g, double emin, double emax, std::vector<Query>& q)
{
    q.clear();
    std::size_t stride = g.n > 48 ? g.n / 48 : 1;
    double delta = (g.back - g.front) / double(g.n - 1);
    for (std::size_t i = 0; i < g.n; ++i)
    {
        if (i % stride && i > 1 && i + 2 < g.n)
            continue;
        double k1 = double(g.E[i]);
        double k2 = std::exp(g.front + delta * double(i));
        double ring[5];
        ulp_ring(k1, ring);
        for (int k = 0; k < 5; ++k)
            q.push_back({ring[k], k});
        if (k2 != k1)
        {
            ulp_ring(k2, ring);
            for (int k = 0; k < 5; ++k)
                q.push_back({ring[k], k});
        }
        if (i + 1 < g.n)
        {
            q.push_back({double(g.E[i] + (g.E[i + 1] - g.E[i]) * ldbl(rng.uniform())), u_interior});
            q.push_back({double(g.E[i] * (1 + 1e-9L)), u_interior});
        }
    }
    double ring[5];
    ulp_ring(emin, ring);
    for (int k = 0; k < 5; ++k)
        q.push_back({ring[k], k});
    ulp_ring(emax, ring);
    for (int k = 0; k < 5; ++k)
        q.push_back({ring[k], k});
    // the largest energies whose logarithm is still below back (several energies share
    // one value of log E)
    {
        double e = emax;
        for (int k = 0; k < 24; ++k)
        {
            e = std::nextafter(e, 0.0);
            if (k >= 2)
                q.push_back({e, u_m2});
        }
    }
    for (int k = 0; k < 6; ++k)
    {
        q.push_back({emin * rng.loguniform(1e-12, 1), u_far});
        q.push_back({emax * rng.loguniform(1, 1e12), u_far});
    }
    for (auto& x : q)
        if (!(x.e > 0))
            x.e = emin;
}

// Diagnosis of one specific defect: the grid lookup used by the calculators returns the
// LAST point as lower bin index for a log-energy strictly below back(), so the
// calculator reads one value past the end of the table.
bool lookup_overruns(cel::UniformGridData const& d, double energy)
{
    double loge = std::log(energy);
    if (!(loge > d.front && loge < d.back))
        return false;
    try
    {
        return cel::UniformGrid(d).find(loge) + 1 >= d.size;
    }
    catch (cel::DebugError const&)
    {
        return true;
    }
}

struct Ctx
{
    verif::Args const& args;
    verif::Report& rep;
    CellCounter& cells;
    int cell_ids[4][r_count][u_count];
    bool cell_init[4] = {false, false, false, false};
    int cell(int calc, char const* cname, int region, int ucls)
    {
        if (!cell_init[calc])
        {
            for (int r = 0; r < r_count; ++r)
                for (int u = 0; u < u_count; ++u)
                    cell_ids[calc][r][u]
                        = cells.intern(std::string(cname) + "/" + region_name(r) + "/" + ucls_name(u));
            cell_init[calc] = true;
        }
        return cell_ids[calc][region][ucls];
    }
};

json table_witness(Ctx& c, u64 ci, char const* what, double emin, double emax, std::vector<double> const& v,
                   std::size_t prime, std::string const& style)
{
    json w = {{"table", what}, {"seed", c.args.seed}, {"index", ci}, {"emin", verif::hexd(emin)},
              {"emax", verif::hexd(emax)}, {"n", v.size()}, {"style", style}, {"values", jhex(v, 64)}};
    if (prime != kNoPrime)
        w["prime_index"] = prime;
    return w;
}

// choose among branches; returns index of the accepting branch or -1
int accept(double got, RefBranch const* br, int nb, ldbl* err_over_tol)
{
    int best = -1;
    ldbl bestr = 1e300L;
    for (int b = 0; b < nb; ++b)
    {
        ldbl err = fabsl(ldbl(got) - br[b].value);
        ldbl r = br[b].tol > 0 ? err / br[b].tol : (err == 0 ? 0.0L : 1e300L);
        if (r < bestr)
        {
            bestr = r;
            best = b;
        }
    }
    *err_over_tol = bestr;
    return (best >= 0 && bestr <= 1) ? best : -1;
}

//---------------------------------------------------------------------------//
void check_xs(Ctx& c, u64 ci)
{
    verif::Rng rng(verif::mix_seed(c.args.seed, 0x140000 + ci));
    double emin, emax;
    std::size_t n;
    gen_energy_grid(rng, emin, emax, n);
    std::vector<double> energy(n);
    for (std::size_t i = 0; i < n; ++i)
        energy[i] = emin * std::pow(emax / emin, double(i) / double(n - 1));
    energy.front() = emin;
    energy.back() = emax;
    std::string style;
    std::vector<double> v = gen_values(rng, energy, true, style);

    // prime index: none / knot k (k+1 < n required by the builder) / 0 (from_scaled)
    std::size_t prime = kNoPrime;
    int pk = int(rng.integer(0, 3));
    if (n >= 3 && pk == 1)
        prime = std::size_t(rng.integer(1, std::int64_t(n) - 2));
    else if (pk == 2)
        prime = 0;
    else if (n >= 3 && pk == 3 && rng.coin())
        prime = n - 2;
    if (prime != kNoPrime)
        for (std::size_t i = prime; i < n; ++i)
            v[i] *= energy[i];  // stored scaled by E
    // Unprimed tables go through ValueGridLogBuilder; half of them instead through
    // ValueGridXsBuilder with eprime == emin, which documents "all values scaled"
    // (prime index 0): same numbers, different meaning.
    bool use_log_builder = prime == kNoPrime && rng.coin();
    if (prime == kNoPrime && !use_log_builder)
        prime = 0;

    Reals<cel::Ownership::value> reals;
    Grids<cel::Ownership::value> grids;
    {
        std::vector<double> pad(std::size_t(rng.integer(1, 4)), kSentinel);
        cel::make_builder(&reals).insert_back(pad.begin(), pad.end());
    }
    cel::ItemId<cel::XsGridData> id;
    try
    {
        cel::ValueGridInserter insert(&reals, &grids);
        if (use_log_builder)
        {
            cel::ValueGridLogBuilder b(emin, emax, v);
            id = b.build(insert);
        }
        else if (prime == 0 && rng.coin())
        {
            auto b = cel::ValueGridXsBuilder::from_scaled(cel::make_span(energy), cel::make_span(v));
            id = b->build(insert);
        }
        else if (prime != kNoPrime && prime > 0 && rng.coin())
        {
            // from_geant: lambda (unscaled, up to and including the prime knot) and
            // lambda_prim (scaled, from the prime knot)
            std::vector<double> le(energy.begin(), energy.begin() + std::ptrdiff_t(prime) + 1);
            std::vector<double> l(v.begin(), v.begin() + std::ptrdiff_t(prime) + 1);
            l.back() = v[prime] / energy[prime];
            std::vector<double> pe(energy.begin() + std::ptrdiff_t(prime), energy.end());
            std::vector<double> pl(v.begin() + std::ptrdiff_t(prime), v.end());
            auto b = cel::ValueGridXsBuilder::from_geant(cel::make_span(le), cel::make_span(l),
                                                         cel::make_span(pe), cel::make_span(pl));
            id = b->build(insert);
        }
        else
        {
            double eprime = energy[prime];
            cel::ValueGridXsBuilder b(emin, eprime, emax, v);
            id = b.build(insert);
        }
        std::vector<double> pad(3, kSentinel);
        cel::make_builder(&reals).insert_back(pad.begin(), pad.end());
    }
    catch (cel::RuntimeError const&)
    {
        c.rep.inconclusive("rejected input");
        return;
    }
    catch (cel::DebugError const& e)
    {
        c.rep.inconclusive("debug-assert: " + verif::describe(e));
        c.rep.observe("assert:" + verif::describe(e));
        return;
    }
    cel::XsGridData const& data = grids[id];
    Reals<cel::Ownership::const_reference> rref{reals};

    auto W = [&](double e) {
        json w = table_witness(c, ci, "xs", emin, emax, v, prime, style);
        w["energy"] = verif::hexd(e);
        w["built_prime_index"] = data.prime_index == cel::XsGridData::no_scaling() ? json(nullptr) : json(data.prime_index);
        return w;
    };
    std::size_t built = data.prime_index == cel::XsGridData::no_scaling() ? kNoPrime : std::size_t(data.prime_index);
    if (built != prime || data.log_energy.size != n || data.log_energy.front != std::log(emin)
        || data.log_energy.back != std::log(emax))
    {
        c.rep.violation("C14/builder/xs-grid", "ValueGrid builder produced a grid whose prime index or "
                                               "bounds differ from the input",
                        W(emin));
        return;
    }

    XsRef ref;
    ref.g.init(data.log_energy.front, data.log_energy.back, n);
    ref.v = v;
    ref.prime = prime;
    cel::XsCalculator calc(data, rref);

    std::vector<Query> queries;
    gen_queries(rng, ref.g, emin, emax, queries);
    char const* cname = prime == kNoPrime ? "xs" : "xs-primed";
    int cidx = prime == kNoPrime ? 0 : 1;
    for (Query const& q : queries)
    {
        if (lookup_overruns(data.log_energy, q.e))
        {
            json w = W(q.e);
            double g = 0;
            try { g = calc(Energy{q.e}); } catch (cel::DebugError const& e) { w["assert"] = verif::describe(e); }
            w["got"] = verif::hexd(g);
            c.rep.violation("C14/table-overrun/XsCalculator",
                            "energy below emax is assigned to the last grid point: the calculator "
                            "interpolates with a value from beyond the end of the table",
                            std::move(w));
            continue;
        }
        double got;
        try
        {
            got = calc(Energy{q.e});
        }
        catch (cel::DebugError const& e)
        {
            if (verif::is_bounds_assertion(e))
                c.rep.violation(verif::bounds_key("C14", e), verif::describe(e), W(q.e));
            else
            {
                c.rep.inconclusive("debug-assert: " + verif::describe(e));
                c.rep.observe("assert:" + verif::describe(e));
            }
            continue;
        }
        RefBranch br[4];
        int nb = ref.branches(q.e, br);
        ldbl ratio;
        int b = accept(got, br, nb, &ratio);
        if (!std::isfinite(got) || b < 0)
        {
            int region = nb ? br[0].region : r_interior;
            char const* site = (region == r_below || region == r_above) ? "extrapolation"
                               : (q.cls <= u_p2)                        ? "knot"
                                                                        : "interior";
            json w = W(q.e);
            w["got"] = verif::hexd(got);
            w["ref"] = double(br[0].value);
            w["tol"] = double(br[0].tol);
            w["region"] = region_name(region);
            c.rep.violation(std::string("C14/xs-value/") + site,
                            "XsCalculator differs from the documented interpolation/extrapolation "
                            "beyond the derived rounding bound",
                            std::move(w));
            continue;
        }
        if (got < 0)
        {
            json w = W(q.e);
            w["got"] = verif::hexd(got);
            w["rel_to_table_max"] = -got / *std::max_element(v.begin(), v.end());
            c.rep.observe_max("xs_negative_rel_to_table_max", -got / *std::max_element(v.begin(), v.end()));
            c.rep.violation("C14/xs-nonnegative", "XsCalculator returned a negative value for a "
                                                  "non-negative table",
                            std::move(w));
            continue;
        }
        c.rep.observe_max("xs_err_over_tol", double(ratio));
        c.cells.hit(c.cell(cidx, cname, br[b].region, q.cls));
    }
    if (c.rep.want_sample(2))
        c.rep.sample({{"kind", "xs"}, {"emin", emin}, {"emax", emax}, {"n", n}, {"style", style},
                      {"prime", prime == kNoPrime ? json(nullptr) : json(prime)},
                      {"E", queries[queries.size() / 2].e},
                      {"value", calc(Energy{queries[queries.size() / 2].e})}});

    // operator[]: unscaled value at knot i
    for (std::size_t i = 0; i < n; i += std::max<std::size_t>(1, n / 16))
    {
        double got = calc[size_type(i)];
        ldbl kv = ref.knot_value(i);
        // division by a knot energy uncertain by eta
        if (!(fabsl(ldbl(got) - kv) <= (ref.g.eta + 2 * kU) * fabsl(kv)))
            c.rep.violation("C14/xs-value/knot-accessor", "XsCalculator::operator[] differs from the table",
                            W(double(ref.g.E[i])));
        else
            c.cells.hit(std::string(cname) + "/knot-accessor");
    }
}

//---------------------------------------------------------------------------//
void check_range(Ctx& c, u64 ci)
{
    verif::Rng rng(verif::mix_seed(c.args.seed, 0x141000 + ci));
    double emin, emax;
    std::size_t n;
    gen_energy_grid(rng, emin, emax, n);
    std::vector<double> energy(n);
    for (std::size_t i = 0; i < n; ++i)
        energy[i] = emin * std::pow(emax / emin, double(i) / double(n - 1));
    energy.front() = emin;
    energy.back() = emax;
    // strictly increasing positive range values (precondition of from_range and of the
    // inverse interpolation)
    std::vector<double> r(n);
    int k = int(rng.integer(0, 4));
    std::string style;
    r[0] = rng.loguniform(1e-8, 1e2);
    for (std::size_t i = 1; i < n; ++i)
    {
        double f;
        switch (k)
        {
            case 0: style = "csda"; f = std::pow(energy[i] / energy[i - 1], rng.uniform(0.8, 2)); break;
            case 1: style = "nearly-flat"; f = 1 + rng.loguniform(1e-12, 1e-3); break;
            case 2: style = "steep"; f = r[i - 1] < 1e100 ? rng.loguniform(2, 1e3) : 1 + rng.loguniform(1e-3, 1); break;
            case 3: style = "mixed"; f = rng.coin(0.2) ? 1 + 4 * kEps : rng.loguniform(1.0001, 30); break;
            default: style = "linear"; f = energy[i] / energy[i - 1]; break;
        }
        r[i] = r[i - 1] * f;
        if (!(r[i] > r[i - 1]))
            r[i] = std::nextafter(r[i - 1], INFINITY);
        if (r[i] > 1e200)
            r[i] = r[i - 1] * (1 + rng.loguniform(1e-6, 1e-2));
    }
    Reals<cel::Ownership::value> reals;
    Grids<cel::Ownership::value> grids;
    cel::ItemId<cel::XsGridData> id;
    try
    {
        std::vector<double> pad(std::size_t(rng.integer(1, 4)), kSentinel);
        cel::make_builder(&reals).insert_back(pad.begin(), pad.end());
        cel::ValueGridInserter insert(&reals, &grids);
        auto b = cel::ValueGridLogBuilder::from_range(cel::make_span(energy), cel::make_span(r));
        id = b->build(insert);
        cel::make_builder(&reals).insert_back(pad.begin(), pad.end());
    }
    catch (cel::RuntimeError const&)
    {
        c.rep.inconclusive("rejected input");
        return;
    }
    catch (cel::DebugError const& e)
    {
        c.rep.inconclusive("debug-assert: " + verif::describe(e));
        c.rep.observe("assert:" + verif::describe(e));
        return;
    }
    cel::XsGridData const& data = grids[id];
    Reals<cel::Ownership::const_reference> rref{reals};
    RangeRef ref;
    ref.g.init(data.log_energy.front, data.log_energy.back, n);
    ref.r = r;
    auto W = [&](double x, char const* xname) {
        json w = table_witness(c, ci, "range", emin, emax, r, kNoPrime, style);
        w[xname] = verif::hexd(x);
        return w;
    };
    cel::RangeCalculator calc_range(data, rref);
    cel::InverseRangeCalculator calc_energy(data, rref);

    // ---- range(E)
    std::vector<Query> queries;
    gen_queries(rng, ref.g, emin, emax, queries);
    std::sort(queries.begin(), queries.end(), [](Query const& a, Query const& b) { return a.e < b.e; });
    double prev_got = -1, prev_e = 0;
    ldbl prev_tol = 0;
    for (Query const& q : queries)
    {
        if (lookup_overruns(data.log_energy, q.e))
        {
            json w = W(q.e, "energy");
            double g = 0;
            try { g = calc_range(Energy{q.e}); } catch (cel::DebugError const& e) { w["assert"] = verif::describe(e); }
            w["got"] = verif::hexd(g);
            c.rep.violation("C14/table-overrun/RangeCalculator",
                            "energy below emax is assigned to the last grid point: the calculator "
                            "interpolates with a value from beyond the end of the table",
                            std::move(w));
            continue;
        }
        double got;
        try
        {
            got = calc_range(Energy{q.e});
        }
        catch (cel::DebugError const& e)
        {
            if (verif::is_bounds_assertion(e))
                c.rep.violation(verif::bounds_key("C14", e), verif::describe(e), W(q.e, "energy"));
            else
            {
                c.rep.inconclusive("debug-assert: " + verif::describe(e));
                c.rep.observe("assert:" + verif::describe(e));
            }
            continue;
        }
        RefBranch br[4];
        int nb = ref.range_branches(q.e, br);
        ldbl ratio;
        int b = accept(got, br, nb, &ratio);
        if (!std::isfinite(got) || got < 0 || b < 0)
        {
            int region = nb ? br[0].region : r_interior;
            char const* site = region == r_below ? "below-sqrt" : region == r_above ? "above-clamp"
                               : q.cls <= u_p2   ? "knot"
                                                 : "interior";
            json w = W(q.e, "energy");
            w["got"] = verif::hexd(got);
            w["ref"] = double(br[0].value);
            w["tol"] = double(br[0].tol);
            c.rep.violation(std::string("C14/range-value/") + site,
                            "RangeCalculator differs from the documented interpolation/extrapolation",
                            std::move(w));
            continue;
        }
        c.rep.observe_max("range_err_over_tol", double(ratio));
        // monotone non-decreasing in E.  Both values are within their tolerance of a
        // non-decreasing reference, hence got >= prev - (tol + prev_tol).
        if (prev_got >= 0 && ldbl(got) < ldbl(prev_got) - (br[b].tol + prev_tol))
        {
            json w = W(q.e, "energy");
            w["prev_energy"] = verif::hexd(prev_e);
            w["prev_range"] = verif::hexd(prev_got);
            w["range"] = verif::hexd(got);
            c.rep.violation("C14/range-monotone", "range decreases with energy", std::move(w));
        }
        else
            c.cells.hit(c.cell(2, "range", br[b].region, q.cls));
        prev_got = got;
        prev_e = q.e;
        prev_tol = br[b].tol;

        // round trip E -> R -> E inside the table.  R carries the absolute error tol_R;
        // the inverse multiplies it by the local dE/dr (max over the neighbouring bins,
        // as rounding may move R across a knot) and adds its own tolerance.
        if (br[b].region != r_above && got <= r.back())
        {
            double e2 = cel::value_as<Energy>(calc_energy(got));
            // error of R (its tolerance + final rounding) times the largest dE/dr of any
            // bin it can reach
            ldbl dR = br[b].tol + 2 * kU * ldbl(got);
            ldbl dEdr = ref.max_dEdr(ldbl(got) - dR, ldbl(got) + dR);
            if (br[b].region == r_below || ldbl(got) - dR < ldbl(r[0]))
                dEdr = std::max(dEdr, 2 * ldbl(q.e) / ldbl(got));  // derivative of E0 (r/r0)^2
            RefBranch inv = ref.inverse(got);
            ldbl tol = dR * dEdr * 2 + inv.tol + 4 * kU * ldbl(q.e);
            c.rep.observe_max("roundtrip_E_err_over_tol", double(fabsl(ldbl(e2) - ldbl(q.e)) / tol));
            if (!(fabsl(ldbl(e2) - ldbl(q.e)) <= tol))
            {
                json w = W(q.e, "energy");
                w["range"] = verif::hexd(got);
                w["energy_back"] = verif::hexd(e2);
                w["tol"] = double(tol);
                c.rep.violation("C14/range-roundtrip/E-R-E", "InverseRange(Range(E)) differs from E "
                                                             "beyond the conditioned rounding bound",
                                std::move(w));
            }
            else
                c.cells.hit(std::string("roundtrip-ERE/") + region_name(br[b].region));
        }
    }

    // ---- inverse range E(r): every knot +-{0,1,2} ulp within [0, r_back], below, interior
    std::vector<Query> rq;
    std::size_t stride = n > 48 ? n / 48 : 1;
    for (std::size_t i = 0; i < n; ++i)
    {
        if (i % stride && i > 1 && i + 2 < n)
            continue;
        double ring[5];
        ulp_ring(r[i], ring);
        for (int kk = 0; kk < 5; ++kk)
            rq.push_back({ring[kk], kk});
        if (i + 1 < n)
            rq.push_back({r[i] + (r[i + 1] - r[i]) * rng.uniform(), u_interior});
    }
    rq.push_back({0.0, u_far});
    for (int t = 0; t < 4; ++t)
        rq.push_back({r[0] * rng.loguniform(1e-12, 1), u_far});
    std::sort(rq.begin(), rq.end(), [](Query const& a, Query const& b) { return a.e < b.e; });
    double prev_en = -1;
    ldbl prev_etol = 0;
    for (Query const& q : rq)
    {
        if (!(q.e >= 0 && q.e <= r.back()))
            continue;  // precondition of InverseRangeCalculator
        double got;
        try
        {
            got = cel::value_as<Energy>(calc_energy(q.e));
        }
        catch (cel::DebugError const& e)
        {
            if (verif::is_bounds_assertion(e))
                c.rep.violation(verif::bounds_key("C14", e), verif::describe(e), W(q.e, "range"));
            else
            {
                c.rep.inconclusive("debug-assert: " + verif::describe(e));
                c.rep.observe("assert:" + verif::describe(e));
            }
            continue;
        }
        RefBranch br = ref.inverse(q.e);
        ldbl err = fabsl(ldbl(got) - br.value);
        if (!std::isfinite(got) || got < 0 || !(err <= br.tol))
        {
            json w = W(q.e, "range");
            w["got"] = verif::hexd(got);
            w["ref"] = double(br.value);
            w["tol"] = double(br.tol);
            char const* site = br.region == r_below ? "below-square" : br.region == r_above ? "at-maximum"
                               : q.cls <= u_p2      ? "knot"
                                                    : "interior";
            c.rep.violation(std::string("C14/inverse-range-value/") + site,
                            "InverseRangeCalculator differs from the documented inverse", std::move(w));
            continue;
        }
        if (br.tol > 0)
            c.rep.observe_max("inverse_range_err_over_tol", double(err / br.tol));
        if (prev_en >= 0 && ldbl(got) < ldbl(prev_en) - (br.tol + prev_etol))
        {
            json w = W(q.e, "range");
            w["energy"] = verif::hexd(got);
            w["prev_energy"] = verif::hexd(prev_en);
            c.rep.violation("C14/inverse-range-monotone", "inverse range decreases with range", std::move(w));
        }
        else
            c.cells.hit(c.cell(3, "inverse-range", br.region, q.cls));
        prev_en = got;
        prev_etol = br.tol;

        // round trip r -> E -> r (E > 0 required by RangeCalculator)
        if (got > 0 && !lookup_overruns(data.log_energy, got))
        {
            double r2 = calc_range(Energy{got});
            ldbl dE = br.tol + 2 * kU * ldbl(got);
            ldbl drdE = ref.max_drdE(ldbl(got) - dE, ldbl(got) + dE);
            if (br.region == r_below || ldbl(got) - dE < ref.g.E[0])
                drdE = std::max(drdE, ldbl(q.e) / (2 * ldbl(got)));  // derivative of r0 sqrt(E/E0)
            RefBranch rb[4];
            int nb2 = ref.range_branches(got, rb);
            ldbl rtol = 0;
            for (int t = 0; t < nb2; ++t)
                rtol = std::max(rtol, rb[t].tol);
            ldbl tol = dE * drdE * 2 + rtol + 4 * kU * ldbl(q.e);
            c.rep.observe_max("roundtrip_r_err_over_tol", double(fabsl(ldbl(r2) - ldbl(q.e)) / tol));
            if (!(fabsl(ldbl(r2) - ldbl(q.e)) <= tol))
            {
                json w = W(q.e, "range");
                w["energy"] = verif::hexd(got);
                w["range_back"] = verif::hexd(r2);
                w["tol"] = double(tol);
                c.rep.violation("C14/range-roundtrip/R-E-R", "Range(InverseRange(r)) differs from r "
                                                             "beyond the conditioned rounding bound",
                                std::move(w));
            }
            else
                c.cells.hit(std::string("roundtrip-RER/") + region_name(br.region));
        }
    }
    if (c.rep.want_sample(4))
        c.rep.sample({{"kind", "range"}, {"emin", emin}, {"emax", emax}, {"n", n}, {"style", style},
                      {"r_front", r.front()}, {"r_back", r.back()}});
}

//---------------------------------------------------------------------------//
void check_generic(Ctx& c, u64 ci)
{
    verif::Rng rng(verif::mix_seed(c.args.seed, 0x142000 + ci));
    std::size_t n = std::size_t(ci % 4 == 0 ? rng.integer(2, 4) : rng.integer(2, 80));
    std::vector<double> x(n), y(n);
    double cur = rng.coin() ? rng.uniform(-50, 50) : rng.loguniform(1e-6, 1e3);
    int xs = int(rng.integer(0, 2));
    for (std::size_t i = 0; i < n; ++i)
    {
        x[i] = cur;
        double step = xs == 0 ? rng.uniform(0.1, 5) : xs == 1 ? rng.loguniform(1e-9, 1e3) : std::fabs(cur) * rng.uniform(0.01, 1) + 1e-6;
        double nx = cur + step;
        if (!(nx > cur))
            nx = std::nextafter(cur, INFINITY);
        cur = nx;
    }
    bool monotone_y = rng.coin(0.4);
    int ys = int(rng.integer(0, 3));
    double acc = rng.uniform(-5, 5);
    for (std::size_t i = 0; i < n; ++i)
    {
        if (monotone_y)
        {
            acc += rng.loguniform(1e-6, 10);
            y[i] = acc;
        }
        else
            y[i] = ys == 0 ? rng.normal() * 10 : ys == 1 ? rng.loguniform(1e-8, 1e8) : ys == 2 ? (rng.coin(0.4) ? 0.0 : rng.uniform(-1, 1)) : double(rng.integer(-3, 3));
    }
    Reals<cel::Ownership::value> reals;
    cel::GenericGridRecord rec;
    try
    {
        std::vector<double> pad(2, kSentinel);
        cel::make_builder(&reals).insert_back(pad.begin(), pad.end());
        cel::GenericGridBuilder build(&reals);
        rec = build(cel::Span<double const>(x.data(), x.size()), cel::Span<double const>(y.data(), y.size()));
        cel::make_builder(&reals).insert_back(pad.begin(), pad.end());
    }
    catch (cel::RuntimeError const&)
    {
        c.rep.inconclusive("rejected input");
        return;
    }
    catch (cel::DebugError const& e)
    {
        c.rep.inconclusive("debug-assert: " + verif::describe(e));
        c.rep.observe("assert:" + verif::describe(e));
        return;
    }
    Reals<cel::Ownership::const_reference> rref{reals};
    auto W = [&](double q, bool inverse) {
        return json{{"table", inverse ? "generic-inverse" : "generic"}, {"seed", c.args.seed}, {"index", ci},
                    {"x", jhex(x, 80)}, {"y", jhex(y, 80)}, {"query", verif::hexd(q)}};
    };
    // evaluate calculator `calc` defined by knots (gx -> gy)
    auto run = [&](cel::GenericCalculator const& calc, std::vector<double> const& gx, std::vector<double> const& gy,
                   bool inverse) {
        char const* cname = inverse ? "generic-inverse" : "generic";
        std::size_t stride = n > 32 ? n / 32 : 1;
        std::vector<Query> qs;
        for (std::size_t i = 0; i < n; ++i)
        {
            if (i % stride && i > 1 && i + 2 < n)
                continue;
            double ring[5];
            ulp_ring(gx[i], ring);
            for (int k = 0; k < 5; ++k)
                qs.push_back({ring[k], k});
            if (i + 1 < n)
                qs.push_back({gx[i] + (gx[i + 1] - gx[i]) * rng.uniform(), u_interior});
        }
        qs.push_back({gx.front() - std::fabs(gx.front()) * rng.uniform() - 1, u_far});
        qs.push_back({gx.back() + std::fabs(gx.back()) * rng.uniform() + 1, u_far});
        for (Query const& q : qs)
        {
            double got;
            try
            {
                got = calc(q.e);
            }
            catch (cel::DebugError const& e)
            {
                if (verif::is_bounds_assertion(e))
                    c.rep.violation(verif::bounds_key("C14", e), verif::describe(e), W(q.e, inverse));
                else
                {
                    c.rep.inconclusive("debug-assert: " + verif::describe(e));
                    c.rep.observe("assert:" + verif::describe(e));
                }
                continue;
            }
            ldbl refv, tol, lo, hi;
            int region;
            if (q.e <= gx.front())
            {
                refv = gy.front();
                tol = 0;
                lo = hi = refv;
                region = r_below;
            }
            else if (q.e >= gx.back())
            {
                refv = gy.back();
                tol = 0;
                lo = hi = refv;
                region = r_above;
            }
            else
            {
                // knots are the stored doubles: the bin is exact (x_j <= q < x_j+1)
                std::size_t j = std::size_t(std::upper_bound(gx.begin(), gx.end(), q.e) - gx.begin()) - 1;
                ldbl a = gx[j], b = gx[j + 1], ya = gy[j], yb = gy[j + 1];
                refv = ya + (yb - ya) * (ldbl(q.e) - a) / (b - a);
                // slope rel 3u, fl(x-a) rel u, fma rel u: <= 4u|yb-ya| + u|y| <= 9u max|y|
                tol = 12 * kU * std::max(fabsl(ya), fabsl(yb));
                lo = std::min(ya, yb);
                hi = std::max(ya, yb);
                region = j == 0 ? r_first : j + 2 == n ? r_last : r_interior;
            }
            ldbl err = fabsl(ldbl(got) - refv);
            if (!std::isfinite(got) || !(err <= tol) || ldbl(got) < lo - tol || ldbl(got) > hi + tol)
            {
                json w = W(q.e, inverse);
                w["got"] = verif::hexd(got);
                w["ref"] = double(refv);
                w["tol"] = double(tol);
                c.rep.violation(std::string("C14/generic-value/")
                                    + (region == r_below || region == r_above ? "extrapolation"
                                       : q.cls <= u_p2                        ? "knot"
                                                                              : "interior"),
                                "GenericCalculator differs from linear interpolation / constant extrapolation",
                                std::move(w));
                continue;
            }
            if (tol > 0)
                c.rep.observe_max("generic_err_over_tol", double(err / tol));
            c.cells.hit(std::string(cname) + "/" + region_name(region) + "/" + ucls_name(q.cls));
        }
    };
    try
    {
        cel::GenericCalculator calc(rec, rref);
        bool ok = calc.grid().size() == n;
        for (std::size_t i = 0; i < n && ok; ++i)
            ok = calc[size_type(i)] == y[i] && calc.grid()[size_type(i)] == x[i];
        if (!ok)
        {
            c.rep.violation("C14/generic-value/knot-accessor", "GenericCalculator accessors differ from the table",
                            W(x[0], false));
            return;
        }
        run(calc, x, y, false);
        if (monotone_y)
        {
            run(calc.make_inverse(), y, x, true);
            run(cel::GenericCalculator::from_inverse(rec, rref), y, x, true);
        }
    }
    catch (cel::DebugError const& e)
    {
        c.rep.inconclusive("debug-assert: " + verif::describe(e));
        c.rep.observe("assert:" + verif::describe(e));
    }
}
}  // namespace

//---------------------------------------------------------------------------//
void c14_calculators(verif::Args const& args, verif::Report& rep, CellCounter& cells)
{
    Ctx ctx{args, rep, cells, {}, {false, false, false, false}};
    u64 nxs = args.budget(6000, 250000);
    for (u64 ci = 0; ci < nxs; ++ci)
        check_xs(ctx, ci);
    u64 nr = args.budget(3000, 120000);
    for (u64 ci = 0; ci < nr; ++ci)
        check_range(ctx, ci);
    u64 ng = args.budget(4000, 150000);
    for (u64 ci = 0; ci < ng; ++ci)
        check_generic(ctx, ci);
}
}  // namespace gridv
