// C14 driver: physics table lookups, continuous loss, MSC path conversions.
#include "grid_common.hh"

namespace gridv
{
void c14_calculators(verif::Args const&, verif::Report&, CellCounter&);
void c14_physics(verif::Args const&, verif::Report&, CellCounter&);

void run_c14(verif::Args const& args, verif::Report& rep)
{
    rep.set_rule(
        "Tables: random log-spaced energy grids (2-200 points, 1-10 bins/decade, including the "
        "grids celeritas imports) with flat / power-law / steep / random / bump / random-walk / "
        "sawtooth values and zero stretches, with and without the 1/E-scaled part, built through "
        "ValueGridXsBuilder (ctor, from_geant, from_scaled), ValueGridLogBuilder (ctor, "
        "from_range) and GenericGridBuilder into a padded shared pool. Every evaluation is one "
        "case: the calculator result is compared with an 80-bit evaluation of the documented "
        "semantics (uniform-in-log-E knots, linear in E, 1/E scaling from prime_index, edge "
        "values outside, sqrt(E) below / clamp above for range and the mirrored inverse) within a "
        "rounding bound derived from the knot-position uncertainty and the operation count; plus "
        "non-negativity, monotonicity of range and inverse range, and both round trips with "
        "condition-number based bounds. Query energies: both renderings of every knot +-{0,1,2} "
        "ulp, the user grid ends +-{0,1,2} ulp, the 24 doubles below emax, bin interiors, far "
        "outside. Continuous loss: production PhysicsParams with an own Process whose dE/dx "
        "tables have the exactly integrated range table; for each (material, particle, energy) "
        "steps in (0, range] incl. the linear_loss_limit switch +-{0,1,2} ulp, range-{1,2} ulp "
        "and range: loss in [0,E], equal to the documented branch formula, non-decreasing in the "
        "step, == E at step == range; range_to_step in (0, range] and equal to the documented "
        "formula. MSC: MscStepToGeo over true paths spanning 12 decades up to the range "
        "(branches tiny / const-xs / range-slope / endpoint-slope), geom <= true, closed-form "
        "reference where one exists, then MscStepFromGeo on geom, geom-1ulp, fractions and "
        "min_step: geom <= result <= true. A cell is (calculator x region x ulp-offset class) or "
        "(eloss branch x table position) or (msc branch x alpha sign / query class).");
    rep.assume("glibc long-double libm (expl, logl, powl, sqrtl, expm1l, log1pl) is the trusted "
               "reference arithmetic");
    rep.assume("outside the table the documented extrapolation is the edge value (divided by E in "
               "the scaled part), as in Geant4 physics vectors");
    rep.assume("range tables fed to calc_mean_energy_loss are the integral of 1/dedx (documented "
               "precondition of the inverse-range correction)");
    CellCounter cells;
    c14_calculators(args, rep, cells);
    cells.flush(rep);
    c14_physics(args, rep, cells);
    cells.flush(rep);
}
}  // namespace gridv
