// Helpers private to the `grid` engine (C14, C18).
#pragma once

#include <cmath>
#include <cstdint>
#include <map>
#include <string>
#include <vector>

#include "verif_common.hh"

namespace gridv
{
using verif::json;
using u64 = std::uint64_t;
using ldbl = long double;

//! Unit roundoff of IEEE double (round to nearest): |fl(x) - x| <= kU |x|
constexpr double kU = 1.1102230246251565e-16;  // 2^-53
//! Machine epsilon 2^-52 = 2u
constexpr double kEps = 2.220446049250313e-16;

//---------------------------------------------------------------------------//
// Bulk coverage-cell accounting: calls to Report::held() cost a map lookup on a
// freshly built string, which is too slow for 10^6..10^9 evaluations.  Cells are
// interned once and counted through an integer handle; flush() reports them.
class CellCounter
{
  public:
    int intern(std::string const& name)
    {
        auto it = ids_.find(name);
        if (it != ids_.end())
            return it->second;
        int id = int(names_.size());
        ids_.emplace(name, id);
        names_.push_back(name);
        counts_.push_back(0);
        return id;
    }
    void hit(int id, u64 n = 1) { counts_[std::size_t(id)] += n; }
    void hit(std::string const& name, u64 n = 1) { hit(intern(name), n); }
    void trivial(u64 n = 1) { trivial_ += n; }
    void flush(verif::Report& rep)
    {
        for (std::size_t i = 0; i < names_.size(); ++i)
        {
            if (counts_[i])
                rep.held(names_[i], counts_[i]);
            counts_[i] = 0;
        }
        if (trivial_)
            rep.held_trivial(trivial_);
        trivial_ = 0;
    }

  private:
    std::map<std::string, int> ids_;
    std::vector<std::string> names_;
    std::vector<u64> counts_;
    u64 trivial_ = 0;
};

//---------------------------------------------------------------------------//
// x and its neighbours at -2,-1,0,+1,+2 ulp (in that order)
inline void ulp_ring(double x, double out[5])
{
    out[2] = x;
    out[1] = std::nextafter(x, -INFINITY);
    out[0] = std::nextafter(out[1], -INFINITY);
    out[3] = std::nextafter(x, INFINITY);
    out[4] = std::nextafter(out[3], INFINITY);
}
inline char const* ulp_name(int k)
{
    static char const* const n[] = {"-2ulp", "-1ulp", "0ulp", "+1ulp", "+2ulp"};
    return n[k];
}

inline double ulp_of(double x)
{
    x = std::fabs(x);
    return std::nextafter(x, INFINITY) - x;
}

inline char const* len_bucket(std::size_t n)
{
    if (n == 0)
        return "L0";
    if (n == 1)
        return "L1";
    if (n == 2)
        return "L2";
    if (n <= 4)
        return "L3-4";
    if (n <= 8)
        return "L5-8";
    if (n <= 64)
        return "L9-64";
    if (n <= 1024)
        return "L65-1024";
    return "L>1024";
}

template<class V>
inline json jvec(V const& v, std::size_t maxn = 64)
{
    json a = json::array();
    std::size_t n = 0;
    for (auto const& x : v)
    {
        if (n++ >= maxn)
        {
            a.push_back("...");
            break;
        }
        a.push_back(x);
    }
    return a;
}

// Hex-exact rendering of a double vector (witnesses must be replayable bit for bit)
inline json jhex(std::vector<double> const& v, std::size_t maxn = 256)
{
    json a = json::array();
    std::size_t n = 0;
    for (double x : v)
    {
        if (n++ >= maxn)
        {
            a.push_back("...");
            break;
        }
        a.push_back(verif::hexd(x));
    }
    return a;
}

void run_c14(verif::Args const& args, verif::Report& rep);
void run_c18(verif::Args const& args, verif::Report& rep);

}  // namespace gridv
