// C14 part 2: calc_mean_energy_loss, PhysicsTrackView::range_to_step, MscStepToGeo,
// MscStepFromGeo driven through the production PhysicsParams (own Process/Model with
// generated dE/dx + consistent range tables) and a hand-filled UrbanMscData.
#include <memory>

#include "corecel/data/Collection.hh"
#include "corecel/data/CollectionBuilder.hh"
#include "corecel/data/CollectionStateStore.hh"
#include "corecel/grid/UniformGrid.hh"
#include "corecel/math/SoftEqual.hh"
#include "corecel/sys/ActionRegistry.hh"
#include "celeritas/Quantities.hh"
#include "celeritas/em/data/UrbanMscData.hh"
#include "celeritas/em/msc/detail/MscStepFromGeo.hh"
#include "celeritas/em/msc/detail/MscStepToGeo.hh"
#include "celeritas/em/msc/detail/UrbanMscHelper.hh"
#include "celeritas/grid/RangeCalculator.hh"
#include "celeritas/grid/ValueGridBuilder.hh"
#include "celeritas/grid/ValueGridInserter.hh"
#include "celeritas/mat/MaterialParams.hh"
#include "celeritas/phys/Model.hh"
#include "celeritas/phys/PDGNumber.hh"
#include "celeritas/phys/ParticleParams.hh"
#include "celeritas/phys/ParticleTrackView.hh"
#include "celeritas/phys/PhysicsParams.hh"
#include "celeritas/phys/PhysicsStepUtils.hh"
#include "celeritas/phys/PhysicsTrackView.hh"
#include "celeritas/phys/Process.hh"

#include "c14_ref.hh"
#include "verif_celer.hh"

using namespace gridv;
namespace cel = celeritas;
using cel::real_type;
using cel::size_type;

namespace gridv
{
namespace
{
using MevEnergy = cel::units::MevEnergy;

struct MatTables
{
    std::vector<double> dedx;   // [MeV/len] at the knots
    std::vector<double> range;  // [len], integral of 1/dedx (documented precondition)
    std::vector<double> xs;     // macroscopic xs
    std::vector<double> msc;    // scaled msc xs: E^2 / lambda
    std::string style;
};

struct Problem
{
    double emin, emax;
    std::size_t n;
    std::vector<double> energy;
    std::vector<MatTables> tables;  // [particle * nmat + material]
    std::size_t nmat;
};

//---------------------------------------------------------------------------//
class TableModel final : public cel::Model
{
  public:
    TableModel(cel::ActionId id, std::vector<cel::Applicability> applic) : id_(id), applic_(std::move(applic)) {}
    SetApplicability applicability() const final { return {applic_.begin(), applic_.end()}; }
    MicroXsBuilders micro_xs(cel::Applicability) const final { return {}; }
    void step(cel::CoreParams const&, CoreStateHost&) const final {}
    void step(cel::CoreParams const&, CoreStateDevice&) const final {}
    cel::ActionId action_id() const final { return id_; }
    std::string_view label() const final { return "verif-table-model"; }
    std::string_view description() const final { return "tabulated loss (verification harness)"; }

  private:
    cel::ActionId id_;
    std::vector<cel::Applicability> applic_;
};

class TableProcess final : public cel::Process
{
  public:
    explicit TableProcess(std::shared_ptr<Problem const> p) : p_(std::move(p)) {}
    VecModel build_models(ActionIdIter start_id) const final
    {
        std::vector<cel::Applicability> applic;
        for (unsigned par = 0; par < 2; ++par)
        {
            cel::Applicability a;
            a.particle = cel::ParticleId{par};
            a.lower = MevEnergy{p_->emin};
            a.upper = MevEnergy{p_->emax};
            applic.push_back(a);
        }
        return {std::make_shared<TableModel>(*start_id, applic)};
    }
    StepLimitBuilders step_limits(cel::Applicability applic) const final
    {
        MatTables const& t = p_->tables[applic.particle.get() * p_->nmat + applic.material.get()];
        StepLimitBuilders b;
        b[cel::ValueGridType::macro_xs]
            = std::make_unique<cel::ValueGridLogBuilder>(applic.lower.value(), applic.upper.value(), t.xs);
        b[cel::ValueGridType::energy_loss]
            = std::make_unique<cel::ValueGridLogBuilder>(applic.lower.value(), applic.upper.value(), t.dedx);
        b[cel::ValueGridType::range]
            = cel::ValueGridLogBuilder::from_range(cel::make_span(p_->energy), cel::make_span(t.range));
        return b;
    }
    bool use_integral_xs() const final { return false; }
    std::string_view label() const final { return "verif-table-process"; }

  private:
    std::shared_ptr<Problem const> p_;
};

//---------------------------------------------------------------------------//
// dE/dx shapes; the range is the exact integral of 1/dedx for dedx linear in E between
// the knots (what EnergyLossCalculator interpolates), started with the Geant4 convention
// R(E0) = 2 E0 / dedx(E0) that matches the sqrt(E) extrapolation below the table.
void gen_tables(verif::Rng& rng, Problem const& p, MatTables& t)
{
    std::size_t n = p.n;
    t.dedx.resize(n);
    int k = int(rng.integer(0, 5));
    double scale = rng.loguniform(1e-3, 1e3);
    double ec = rng.loguniform(0.1, 100);
    double prise = rng.uniform(0.9, 1.1), pfall = rng.uniform(0.3, 0.9);
    for (std::size_t i = 0; i < n; ++i)
    {
        double e = p.energy[i];
        switch (k)
        {
            case 0: t.style = "const"; t.dedx[i] = scale; break;
            case 1: t.style = "bethe"; t.dedx[i] = scale * (std::pow(e, -0.8) + 1 + e / ec); break;
            case 2: t.style = "rising"; t.dedx[i] = scale * std::pow(e / p.emin, prise); break;
            case 3: t.style = "falling"; t.dedx[i] = scale * std::pow(e / p.emin, -pfall); break;
            case 4: t.style = "walk"; t.dedx[i] = i ? t.dedx[i - 1] * std::exp(0.25 * rng.normal()) : scale; break;
            default: t.style = "radiative"; t.dedx[i] = scale * (1 + e / ec); break;
        }
    }
    t.range.resize(n);
    ldbl r = 2 * ldbl(p.energy[0]) / ldbl(t.dedx[0]);
    t.range[0] = double(r);
    ldbl lf = logl(ldbl(p.emin)), lb = logl(ldbl(p.emax));
    for (std::size_t i = 1; i < n; ++i)
    {
        ldbl a = expl(lf + (lb - lf) * ldbl(i - 1) / ldbl(n - 1)), b = expl(lf + (lb - lf) * ldbl(i) / ldbl(n - 1));
        ldbl da = t.dedx[i - 1], db = t.dedx[i];
        ldbl x = db / da - 1;
        // integral of dE/(da + (db-da)(E-a)/(b-a)) = (b-a)/da * log(1+x)/x
        ldbl f = fabsl(x) < 1e-8L ? 1 - x / 2 : log1pl(x) / x;
        r += (b - a) / da * f;
        t.range[i] = double(r);
        if (!(t.range[i] > t.range[i - 1]))
            t.range[i] = std::nextafter(t.range[i - 1], INFINITY);
    }
    t.xs.resize(n);
    double xsc = rng.loguniform(1e-3, 1e3);
    for (std::size_t i = 0; i < n; ++i)
        t.xs[i] = xsc * (1 + 0.5 * std::sin(double(i)));
    // msc: lambda(E), stored as E^2/lambda
    t.msc.resize(n);
    int mk = int(rng.integer(0, 3));
    double l0 = rng.loguniform(1e-7, 1e3);
    double lam = l0;
    for (std::size_t i = 0; i < n; ++i)
    {
        double e = p.energy[i];
        switch (mk)
        {
            case 0: lam = l0 * std::pow(e / p.emin, 1.5); break;
            case 1: lam = l0 * std::pow(e / p.emin, 0.7) * (1 + 0.3 * std::sin(3.0 * std::log(e))); break;
            case 2: lam = i ? lam * std::exp(0.3 * rng.normal() + 0.2) : l0; break;
            default: lam = l0 * (1 + e); break;
        }
        t.msc[i] = e * e / lam;
    }
}

struct Ctx
{
    verif::Args const& args;
    verif::Report& rep;
    CellCounter& cells;
};

//---------------------------------------------------------------------------//
void run_problem(Ctx& c, u64 ci)
{
    verif::Rng rng(verif::mix_seed(c.args.seed, 0x148000 + ci));
    auto prob = std::make_shared<Problem>();
    Problem& p = *prob;
    p.emin = rng.loguniform(1e-5, 1e-2);
    p.emax = rng.loguniform(10, 1e5);
    if (rng.coin(0.3))
    {
        p.emin = 1e-4;
        p.emax = rng.coin() ? 1e2 : 1e8;
    }
    double bpd = rng.uniform(1, 10);
    p.n = std::max<std::size_t>(2, std::size_t(std::log10(p.emax / p.emin) * bpd) + 1);
    if (ci % 9 == 0)
        p.n = std::size_t(rng.integer(2, 4));
    p.energy.resize(p.n);
    for (std::size_t i = 0; i < p.n; ++i)
        p.energy[i] = p.emin * std::pow(p.emax / p.emin, double(i) / double(p.n - 1));
    p.energy.front() = p.emin;
    p.energy.back() = p.emax;
    p.nmat = std::size_t(rng.integer(1, 6));
    p.tables.resize(2 * p.nmat);
    for (auto& t : p.tables)
        gen_tables(rng, p, t);

    cel::PhysicsParamsOptions opts;
    // linear_loss_limit in (0, 1] (validated range; the scalars require > 0)
    int lk = int(rng.integer(0, 3));
    opts.linear_loss_limit = lk == 0 ? 0.01 : lk == 1 ? rng.loguniform(1e-6, 1) : lk == 2 ? rng.uniform(0.001, 0.2) : 1.0;
    opts.min_range = rng.loguniform(1e-4, 1);
    opts.max_step_over_range = rng.coin(0.2) ? 1.0 : rng.uniform(0.01, 1);

    std::shared_ptr<cel::ParticleParams> particles;
    std::shared_ptr<cel::MaterialParams> materials;
    std::shared_ptr<cel::PhysicsParams> physics;
    cel::ActionRegistry reg;
    try
    {
        using namespace cel::units;
        cel::ParticleParams::Input pin;
        pin.push_back({"electron", cel::pdg::electron(), MevMass{0.5109989461}, ElementaryCharge{-1},
                       cel::constants::stable_decay_constant});
        pin.push_back({"positron", cel::pdg::positron(), MevMass{0.5109989461}, ElementaryCharge{1},
                       cel::constants::stable_decay_constant});
        particles = std::make_shared<cel::ParticleParams>(std::move(pin));
        cel::MaterialParams::Input min;
        min.elements = {{cel::AtomicNumber{13}, AmuMass{27.0}, {}, "Al"}};
        for (std::size_t m = 0; m < p.nmat; ++m)
            min.materials.push_back({1e22 * double(m + 1), 300.0, cel::MatterState::solid,
                                     {{cel::ElementId{0}, 1.0}}, "mat" + std::to_string(m)});
        materials = std::make_shared<cel::MaterialParams>(min);
        cel::PhysicsParams::Input in;
        in.particles = particles;
        in.materials = materials;
        in.processes.push_back(std::make_shared<TableProcess>(prob));
        in.action_registry = &reg;
        in.options = opts;
        physics = std::make_shared<cel::PhysicsParams>(std::move(in));
    }
    catch (cel::RuntimeError const&)
    {
        c.rep.inconclusive("rejected input");
        return;
    }
    catch (cel::DebugError const& e)
    {
        c.rep.inconclusive("debug-assert: " + verif::describe(e));
        c.rep.observe("assert:" + verif::describe(e));
        return;
    }

    // Urban MSC data filled by hand (only what the path conversions read)
    cel::HostVal<cel::UrbanMscData> msc_host;
    cel::HostCRef<cel::UrbanMscData> msc;
    {
        msc_host.ids.electron = cel::ParticleId{0};
        msc_host.ids.positron = cel::ParticleId{1};
        msc_host.electron_mass = cel::units::MevMass{0.5109989461};
        cel::resize(&msc_host.material_data, p.nmat);
        auto pm = cel::make_builder(&msc_host.par_mat_data);
        cel::ValueGridInserter insert(&msc_host.reals, &msc_host.xs);
        for (std::size_t m = 0; m < p.nmat; ++m)
            for (std::size_t par = 0; par < 2; ++par)
            {
                cel::UrbanMscParMatData d;
                d.scaled_zeff = 1;
                d.d_over_r = 1;
                pm.push_back(d);
                insert(cel::UniformGridData::from_bounds(std::log(p.emin), std::log(p.emax), size_type(p.n)),
                       cel::make_span(p.tables[par * p.nmat + m].msc));
            }
        msc = msc_host;
    }

    auto const& pref = physics->host_ref();
    cel::CollectionStateStore<cel::ParticleStateData, cel::MemSpace::host> par_state(particles->host_ref(), 1);
    cel::CollectionStateStore<cel::PhysicsStateData, cel::MemSpace::host> phys_state(pref, 1);
    cel::ParticleTrackView particle(particles->host_ref(), par_state.ref(), cel::TrackSlotId{0});
    double const lll = pref.scalars.linear_loss_limit;

    u64 nenergy = c.args.thorough() ? 40 : 24;
    for (u64 ei = 0; ei < nenergy; ++ei)
    {
        std::size_t m = std::size_t(rng.integer(0, std::int64_t(p.nmat) - 1));
        unsigned par = unsigned(rng.integer(0, 1));
        MatTables const& t = p.tables[par * p.nmat + m];
        XsRef dref;
        dref.g.init(std::log(p.emin), std::log(p.emax), p.n);
        dref.v = t.dedx;
        RangeRef rref;
        rref.g = dref.g;
        rref.r = t.range;

        // energy: knots +- ulps, interior, the ends, a little below the table
        double E;
        int ek = int(rng.integer(0, 5));
        std::size_t ki = std::size_t(rng.integer(0, std::int64_t(p.n) - 1));
        if (ek == 0)
            E = rng.loguniform(p.emin, p.emax);
        else if (ek == 1)
            E = verif::next_up(double(dref.g.E[ki]), int(rng.integer(0, 2)));
        else if (ek == 2)
            E = verif::next_down(double(dref.g.E[ki]), int(rng.integer(1, 2)));
        else if (ek == 3)
            E = rng.coin() ? p.emax : verif::next_down(p.emax, int(rng.integer(1, 3)));
        else if (ek == 4)
            E = p.emin * rng.loguniform(1e-3, 1);
        else
            E = rng.loguniform(p.emin, std::min(p.emax, 1.0));
        if (!(E > 0))
            E = p.emin;

        auto W = [&]() {
            return json{{"seed", c.args.seed}, {"index", ci}, {"energy_draw", ei}, {"emin", verif::hexd(p.emin)},
                        {"emax", verif::hexd(p.emax)}, {"n", p.n}, {"style", t.style}, {"energy", verif::hexd(E)},
                        {"linear_loss_limit", lll}, {"dedx", jhex(t.dedx, 48)}, {"range_table", jhex(t.range, 48)},
                        {"msc_scaled_xs", jhex(t.msc, 48)}};
        };
        try
        {
            cel::ParticleTrackView::Initializer_t init;
            init.particle_id = cel::ParticleId{par};
            init.energy = MevEnergy{E};
            particle = init;
            cel::PhysicsTrackView phys(pref, phys_state.ref(), cel::ParticleId{par}, cel::MaterialId{size_type(m)},
                                       cel::TrackSlotId{0});
            auto ppid = phys.eloss_ppid();
            if (!ppid)
            {
                c.rep.violation("C14/harness/no-eloss-process", "PhysicsParams lost the energy loss tables", W());
                return;
            }
            // Same defect as C14/table-overrun/* in the calculator part: an energy whose
            // logarithm is below back() but is assigned to the last grid point makes every
            // table lookup of this track read past its table.  One key, consequences
            // (garbage range/dedx/lambda) are not judged separately.
            {
                auto const& gd = pref.value_grids[phys.value_grid(cel::ValueGridType::range, ppid)].log_energy;
                double loge = std::log(E);
                bool over = false;
                if (loge > gd.front && loge < gd.back)
                {
                    try
                    {
                        over = cel::UniformGrid(gd).find(loge) + 1 >= gd.size;
                    }
                    catch (cel::DebugError const&)
                    {
                        over = true;
                    }
                }
                if (over)
                {
                    c.rep.violation("C14/table-overrun/physics-tables",
                                    "energy below emax is assigned to the last grid point: range, dE/dx and "
                                    "msc lookups interpolate with values from beyond the end of their tables",
                                    W());
                    continue;
                }
            }
            auto calc_range = phys.make_calculator<cel::RangeCalculator>(phys.value_grid(cel::ValueGridType::range, ppid));
            double const range = calc_range(MevEnergy{E});
            if (!(range > 0) || !std::isfinite(range))
            {
                c.rep.violation("C14/range-value/nonpositive", "range is not positive and finite", W());
                continue;
            }
            phys.dedx_range(range);
            auto calc_dedx = phys.make_calculator<cel::EnergyLossCalculator>(
                phys.value_grid(cel::ValueGridType::energy_loss, ppid));
            double const dedx = calc_dedx(MevEnergy{E});
            // reference dE/dx with tolerance (all admissible branches)
            RefBranch db[4];
            int ndb = dref.branches(E, db);
            ldbl dlo = 1e300L, dhi = -1e300L;
            for (int b = 0; b < ndb; ++b)
            {
                dlo = std::min(dlo, db[b].value - db[b].tol);
                dhi = std::max(dhi, db[b].value + db[b].tol);
            }

            //---------------- range_to_step
            {
                double rho = pref.scalars.min_range, alpha = pref.scalars.max_step_over_range;
                double rs[6] = {range, rho, verif::next_up(rho * (1 + 1e-8), int(rng.integer(0, 3))),
                                rho * rng.loguniform(1, 1e4), rho * rng.uniform(0.1, 1),
                                rho * (1 + rng.loguniform(1e-9, 1e-5))};
                for (double r : rs)
                {
                    double s = phys.range_to_step(r);
                    ldbl full = ldbl(alpha) * r + ldbl(rho) * (1 - ldbl(alpha)) * (2 - ldbl(rho) / r);
                    bool small = r < rho * (1 + cel::sqrt_tol());
                    // documented: s = alpha r + rho(1-alpha)(2 - rho/r) above min_range,
                    // s = r below; 5 roundings -> 8u r.  Within the documented fudge zone
                    // [min_range, min_range(1+sqrt_tol)) the unscaled range is returned:
                    // the two formulas differ there by (1-alpha)(r-rho)^2/r <= 1e-12 r.
                    bool value_ok = fabsl(ldbl(s) - full) <= 8 * kU * ldbl(r) || (small && s == r);
                    if (r <= rho)
                        value_ok = s == r;
                    if (!(s > 0 && s <= r))
                        c.rep.violation("C14/range-to-step/outside-(0,range]", "range_to_step not in (0, range]",
                                        {{"range", verif::hexd(r)}, {"step", verif::hexd(s)}, {"min_range", rho},
                                         {"max_step_over_range", alpha}});
                    else if (!value_ok)
                        c.rep.violation("C14/range-to-step/value", "range_to_step differs from the documented formula",
                                        {{"range", verif::hexd(r)}, {"step", verif::hexd(s)}, {"min_range", rho},
                                         {"max_step_over_range", alpha}, {"ref", double(full)}});
                    else
                        c.cells.hit(std::string("range-to-step/") + (r <= rho ? "below-min-range" : small ? "fudge-zone" : "scaled"));
                }
            }

            //---------------- calc_mean_energy_loss over an increasing list of steps
            {
                std::vector<double> steps;
                double sw = lll * E / dedx;  // step at which the branch switches
                for (int k = 0; k < 8; ++k)
                    steps.push_back(range * rng.loguniform(1e-16, 1));
                for (int k = 0; k < 4; ++k)
                    steps.push_back(range * rng.uniform(0, 1));
                if (sw < range)
                {
                    double ring[5];
                    ulp_ring(sw, ring);
                    for (double s : ring)
                        steps.push_back(s);
                    steps.push_back(sw * (1 - 1e-9));
                    steps.push_back(sw * (1 + 1e-9));
                    steps.push_back(sw * rng.uniform(0.5, 1));
                    steps.push_back(sw * rng.uniform(1, 2));
                }
                steps.push_back(verif::next_down(range));
                steps.push_back(verif::next_down(range, 2));
                steps.push_back(range * (1 - 1e-12));
                steps.push_back(range);
                std::sort(steps.begin(), steps.end());
                steps.erase(std::unique(steps.begin(), steps.end()), steps.end());
                double prev_loss = -1, prev_step = 0;
                ldbl prev_tol = 0;
                int prev_cls = -1;
                for (double s : steps)
                {
                    if (!(s > 0 && s <= range))
                        continue;
                    double loss = cel::value_as<MevEnergy>(cel::calc_mean_energy_loss(particle, phys, s));
                    auto WS = [&]() {
                        json w = W();
                        w["step"] = verif::hexd(s);
                        w["range"] = verif::hexd(range);
                        w["dedx"] = verif::hexd(dedx);
                        w["loss"] = verif::hexd(loss);
                        w["prev_step"] = verif::hexd(prev_step);
                        w["prev_loss"] = verif::hexd(prev_loss);
                        return w;
                    };
                    if (!std::isfinite(loss) || loss < 0)
                    {
                        c.rep.violation("C14/eloss/negative", "mean energy loss negative or not finite", WS());
                        continue;
                    }
                    if (loss > E)
                    {
                        c.rep.violation("C14/eloss/exceeds-energy", "mean energy loss exceeds the particle energy", WS());
                        continue;
                    }
                    // which branch does the documented algorithm take?  linear loss
                    // s*dedx compared with lll*E; ambiguous inside the dE/dx tolerance
                    ldbl lin_lo = ldbl(s) * dlo, lin_hi = ldbl(s) * dhi, thr = ldbl(lll) * E;
                    bool may_linear = lin_lo * (1 - 4 * kU) < thr, may_range = lin_hi * (1 + 4 * kU) >= thr;
                    // references
                    bool ok_lin = false, ok_rng = false;
                    ldbl tol_rng = 0;
                    if (may_linear)
                        ok_lin = ldbl(loss) >= lin_lo * (1 - 2 * kU) && ldbl(loss) <= lin_hi * (1 + 2 * kU);
                    if (may_range)
                    {
                        if (s == range)
                        {
                            ok_rng = loss == E;
                        }
                        else
                        {
                            RefBranch inv = rref.inverse(range - s);
                            tol_rng = inv.tol + 2 * kU * ldbl(E);
                            ok_rng = fabsl(ldbl(loss) - (ldbl(E) - inv.value)) <= tol_rng;
                        }
                    }
                    // unambiguous branch of this step (2 = within the dE/dx tolerance of the switch)
                    int cls = (may_range && !may_linear) ? 1 : (may_linear && !may_range) ? 0 : 2;
                    int branch = ok_rng && may_range && !(ok_lin && may_linear) ? 1 : ok_lin ? 0 : ok_rng ? 1 : -1;
                    if (s == range && loss != E)
                    {
                        c.rep.violation(may_range ? "C14/eloss-value/step-equals-range"
                                                  : "C14/eloss-value/step-equals-range/linear-branch-taken",
                                        "mean energy loss over a step equal to the range is not the full energy",
                                        WS());
                    }
                    else if (branch < 0)
                    {
                        c.rep.violation(std::string("C14/eloss-value/") + (may_range && !may_linear ? "range-inverse" : may_linear && !may_range ? "linear" : "switch"),
                                        "mean energy loss differs from both documented formulas (s*dedx, E - E(range-s))",
                                        WS());
                        continue;
                    }
                    // non-decreasing in the step.  Inside one branch: linear s*dedx is
                    // monotone exactly; range branch values are within tol of a monotone
                    // reference.
                    if (prev_loss >= 0 && branch >= 0)
                    {
                        ldbl slack = (may_range ? tol_rng : 0) + prev_tol;
                        if (ldbl(loss) < ldbl(prev_loss) - slack)
                        {
                            char const* site = (prev_cls == cls && cls != 2) ? (cls ? "range-inverse" : "linear") : "switch";
                            json w = WS();
                            w["drop_rel"] = (prev_loss - loss) / E;
                            double bpd = double(p.n - 1) / std::log10(p.emax / p.emin);
                            w["bins_per_decade"] = bpd;
                            if (bpd >= 5 && lll <= 0.011 && E > p.emin && E < p.emax)
                                c.rep.observe_max("eloss_switch_drop_rel_to_loss/in-table-fine-default-limit",
                                                  (prev_loss - loss) / prev_loss);
                            c.rep.violation(std::string("C14/eloss-monotone/") + site,
                                            "mean energy loss decreases when the step grows", std::move(w));
                            c.rep.observe_max("eloss_switch_drop_rel_to_E", (prev_loss - loss) / E);
                        }
                        else
                            c.cells.hit(std::string("eloss-monotone/") + ((prev_cls == cls && cls != 2) ? (cls ? "range-inverse" : "linear") : "switch"));
                    }
                    if (branch >= 0)
                    {
                        c.cells.hit(std::string("eloss/") + (s == range ? "step==range" : branch ? "range-inverse" : "linear") + "/"
                                    + (E < p.emin ? "below-table" : E >= p.emax ? "table-top" : "in-table"));
                        prev_loss = loss;
                        prev_step = s;
                        prev_tol = may_range ? tol_rng : 0;
                        prev_cls = cls;
                    }
                }
                if (c.rep.want_sample(6))
                    c.rep.sample({{"kind", "eloss"}, {"E", E}, {"range", range}, {"dedx", dedx}, {"lll", lll},
                                  {"style", t.style}, {"loss_at_half_range",
                                   cel::value_as<MevEnergy>(cel::calc_mean_energy_loss(particle, phys, 0.5 * range))}});
            }

            //---------------- MSC path conversions
            if (E >= p.emin && E <= p.emax)
            {
                cel::detail::UrbanMscHelper helper(msc, particle, phys);
                double const lambda = helper.msc_mfp();
                if (!(lambda > 0) || !std::isfinite(lambda))
                {
                    c.rep.violation("C14/msc/lambda", "msc mean free path not positive/finite", W());
                    continue;
                }
                cel::detail::MscStepToGeo to_geo(msc, helper, MevEnergy{E}, lambda, range);
                double const min_step = cel::UrbanMscParameters::min_step();
                double const dtrl = cel::UrbanMscParameters::dtrl();
                std::vector<double> ts;
                for (int k = 0; k < 6; ++k)
                    ts.push_back(range * rng.loguniform(1e-12, 1));
                ts.push_back(range);
                ts.push_back(verif::next_down(range));
                ts.push_back(range * dtrl);
                ts.push_back(verif::next_down(range * dtrl));
                ts.push_back(verif::next_up(range * dtrl));
                ts.push_back(std::min(range, lambda * rng.loguniform(1e-6, 1e3)));
                if (min_step <= range)
                {
                    ts.push_back(min_step);
                    ts.push_back(verif::next_down(min_step));
                    ts.push_back(verif::next_up(min_step));
                }
                for (double tstep : ts)
                {
                    if (!(tstep > 0 && tstep <= range))
                        continue;
                    auto res = to_geo(tstep);
                    double g = res.step;
                    char const* br = tstep < min_step       ? "tiny"
                                     : tstep < range * dtrl ? "const-xs"
                                     : (E < 0.5109989461 || tstep == range) ? "range-slope"
                                                                           : "endpoint-slope";
                    auto WM = [&]() {
                        json w = W();
                        w["true_step"] = verif::hexd(tstep);
                        w["range"] = verif::hexd(range);
                        w["lambda"] = verif::hexd(lambda);
                        w["geom_step"] = verif::hexd(g);
                        w["alpha"] = verif::hexd(res.alpha);
                        w["branch"] = br;
                        return w;
                    };
                    if (!std::isfinite(g) || g < 0)
                    {
                        c.rep.violation(std::string("C14/msc-to-geo/not-finite-nonneg/") + br,
                                        "geometrical path negative or not finite", WM());
                        continue;
                    }
                    if (g > tstep)
                    {
                        c.rep.violation(std::string("C14/msc-to-geo/lengthens/") + br,
                                        "geometrical path longer than the true path", WM());
                        continue;
                    }
                    // reference value where the documented formula is closed-form
                    bool ref_ok = true;
                    if (tstep < min_step)
                        ref_ok = g == tstep && res.alpha == 0;
                    else if (tstep < range * dtrl)
                    {
                        // lambda (1 - exp(-t/lambda)): division, expm1 (1 ulp), product:
                        // 4u relative; then min(., t)
                        ldbl r0 = -ldbl(lambda) * expm1l(-ldbl(tstep) / lambda);
                        r0 = std::min(r0, ldbl(tstep));
                        ref_ok = fabsl(ldbl(g) - r0) <= 6 * kU * r0 && res.alpha == 0;
                    }
                    else if (E < 0.5109989461 || tstep == range)
                    {
                        // alpha = 1/range, w = 1 + range/lambda, z = (1-(1-t/r)^w)/(alpha w)
                        ldbl al = 1 / ldbl(range), w = 1 + 1 / (al * lambda);
                        ldbl sl = std::max(1 - al * tstep, 0.0L);
                        ldbl pw = sl > 0 ? powl(sl, w) : 0.0L;
                        ldbl r0 = std::min((1 - pw) / (al * w), ldbl(tstep));
                        // the slope 1 - t/r has absolute error 2u (relative 2u/sl); the
                        // power multiplies it by w and adds exp/log rounding
                        // u(2 + 2 w|ln sl|); (1-pw), the two products and the quotient
                        // add 4u
                        ldbl dpw = sl > 0 ? pw * (w * 2 * kU / sl + kU * (2 + 2 * w * fabsl(logl(sl)))) : 0.0L;
                        ldbl tol = 2 * (dpw / (al * w) + 6 * kU * r0);
                        ref_ok = fabsl(ldbl(g) - r0) <= tol && fabsl(ldbl(res.alpha) - al) <= 2 * kU * al;
                    }
                    if (!ref_ok)
                    {
                        c.rep.violation(std::string("C14/msc-to-geo/value/") + br,
                                        "geometrical path differs from the documented closed form", WM());
                        continue;
                    }
                    c.cells.hit(std::string("msc-to-geo/") + br + (res.alpha < 0 ? "/alpha<0" : res.alpha == 0 ? "/alpha0" : "/alpha>0"));

                    // inverse: geom <= FromGeo(geom') <= true for geom' in (0, geom]
                    cel::MscStep ms;
                    ms.true_path = tstep;
                    ms.geom_path = g;
                    ms.alpha = res.alpha;
                    cel::detail::MscStepFromGeo from_geo(msc.params, ms, range, lambda);
                    double gs[7] = {g, verif::next_down(g), g * 0.5, g * rng.uniform(0, 1), g * (1 - 1e-9),
                                    min_step <= g ? min_step : g, min_step <= g ? verif::next_up(min_step) : g * 0.999};
                    for (int k = 0; k < 7; ++k)
                    {
                        double gq = gs[k];
                        if (!(gq >= 0 && gq <= g))
                            continue;
                        double tt = from_geo(gq);
                        bool bad_lo = !(tt >= gq), bad_hi = !(tt <= tstep);
                        if (bad_lo || bad_hi || !std::isfinite(tt))
                        {
                            json w = WM();
                            w["geom_query"] = verif::hexd(gq);
                            w["true_back"] = verif::hexd(tt);
                            c.rep.violation(std::string("C14/msc-from-geo/") + (bad_lo ? "below-geom/" : "exceeds-true/") + br,
                                            "true path recovered from the geometrical path is outside [geom, true]",
                                            std::move(w));
                        }
                        else
                        {
                            if (k == 0 && tstep >= min_step)
                                c.rep.observe_max("msc_roundtrip_rel_deficit", (tstep - tt) / tstep);
                            c.cells.hit(std::string("msc-from-geo/") + br + "/" + (k == 0 ? "full" : k == 1 ? "full-1ulp" : k >= 5 ? "min-step" : "partial"));
                        }
                    }
                }
            }
        }
        catch (cel::DebugError const& e)
        {
            if (verif::is_bounds_assertion(e))
                c.rep.violation(verif::bounds_key("C14", e), verif::describe(e), W());
            else
            {
                c.rep.inconclusive("debug-assert: " + verif::describe(e));
                c.rep.observe("assert:" + verif::describe(e));
            }
        }
    }
}
}  // namespace

void c14_physics(verif::Args const& args, verif::Report& rep, CellCounter& cells)
{
    Ctx ctx{args, rep, cells};
    u64 n = args.budget(1000, 40000);
    for (u64 ci = 0; ci < n; ++ci)
        run_problem(ctx, ci);
}
}  // namespace gridv
