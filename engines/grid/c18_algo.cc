// C18 part 1: sort / partition / bounds / min_element / all_of... against std::
//
// Exhaustive sub-space: comparison-based routines only see the *order pattern* of their
// input, so enumerating every weak ordering of n elements (= every sequence over
// {0..m-1} that uses all m levels, m <= n; 545835 patterns for n = 8) covers every
// permutation and every multiset arrangement of length n up to order isomorphism.
#include <algorithm>
#include <cmath>
#include <functional>
#include <numeric>

#include "corecel/Types.hh"
#include "corecel/cont/Range.hh"
#include "corecel/math/Algorithms.hh"

#include "grid_common.hh"

using namespace gridv;
namespace cel = celeritas;

namespace gridv
{
namespace
{
struct Tagged
{
    int v;
    int id;
};

struct Ctx
{
    verif::Report& rep;
    CellCounter& cells;
    void fail(std::string const& site, std::string const& what, json w)
    {
        rep.violation("C18/" + site, what, std::move(w));
    }
};

char const* tie_name(int const* s, int n)
{
    if (n < 2)
        return "na";
    bool any_tie = false, all_eq = true;
    for (int i = 0; i < n; ++i)
        for (int j = i + 1; j < n; ++j)
        {
            if (s[i] == s[j])
                any_tie = true;
            else
                all_eq = false;
        }
    return all_eq ? "allequal" : any_tie ? "ties" : "distinct";
}

//---------------------------------------------------------------------------//
// All checks that take an arbitrary (unsorted) integer sequence
struct SeqChecker
{
    Ctx& c;
    // interned cells: [routine][len 0..8 bucket][tie]
    std::map<std::string, int> cache;
    int cell(char const* routine, int n, char const* tie)
    {
        std::string k = std::string(routine) + "/" + len_bucket(std::size_t(n)) + "/" + tie;
        auto it = cache.find(k);
        if (it != cache.end())
            return it->second;
        int id = c.cells.intern(k);
        cache.emplace(k, id);
        return id;
    }

    template<class Vec>
    json wit(Vec const& in, char const* origin)
    {
        return {{"input", jvec(in, 40)}, {"n", in.size()}, {"origin", origin}};
    }

    void operator()(int const* s, int n, char const* origin)
    {
        char const* tie = tie_name(s, n > 64 ? 64 : n);
        std::vector<int> in(s, s + n);

        // --- sort, operator<
        {
            std::vector<int> a = in, b = in;
            cel::sort(a.begin(), a.end());
            std::sort(b.begin(), b.end());
            if (a != b)
                c.fail("sort/less", "celeritas::sort(<) differs from std::sort",
                       {{"case", wit(in, origin)}, {"got", jvec(a, 40)}});
            else if (n < 2)
                c.cells.trivial();
            else
                c.cells.hit(cell("sort<", n, tie));
        }
        // --- sort, operator>
        {
            std::vector<int> a = in, b = in;
            cel::sort(a.begin(), a.end(), [](int x, int y) { return x > y; });
            std::sort(b.begin(), b.end(), std::greater<int>());
            if (a != b)
                c.fail("sort/greater", "celeritas::sort(>) differs from std::sort",
                       {{"case", wit(in, origin)}, {"got", jvec(a, 40)}});
            else if (n < 2)
                c.cells.trivial();
            else
                c.cells.hit(cell("sort>", n, tie));
        }
        // --- sort, index-indirect comparator (SimpleUnitTracker: sort isect by distance)
        {
            std::vector<cel::size_type> idx(std::size_t(n), 0);
            std::iota(idx.begin(), idx.end(), 0u);
            std::vector<double> dist(in.begin(), in.end());
            cel::size_type* p = idx.data();
            cel::sort(p, p + n, [&dist](cel::size_type a, cel::size_type b) {
                return dist[a] < dist[b];
            });
            bool ok = true;
            std::vector<char> seen(std::size_t(n), 0);
            for (int i = 0; i < n && ok; ++i)
            {
                if (idx[std::size_t(i)] >= cel::size_type(n) || seen[idx[std::size_t(i)]]++)
                    ok = false;
                else if (i > 0 && dist[idx[std::size_t(i)]] < dist[idx[std::size_t(i - 1)]])
                    ok = false;
            }
            if (!ok)
                c.fail("sort/indirect",
                       "index-indirect sort: result is not a sorted permutation of the indices",
                       {{"case", wit(in, origin)}, {"got", jvec(idx, 40)}});
            else if (n < 2)
                c.cells.trivial();
            else
                c.cells.hit(cell("sort-indirect", n, tie));
        }
        // --- sort with a tie-heavy strict weak order (key = v/2) on tagged structs
        {
            std::vector<Tagged> a(static_cast<std::size_t>(n));
            for (int i = 0; i < n; ++i)
                a[std::size_t(i)] = {s[i], i};
            cel::sort(a.begin(), a.end(),
                      [](Tagged const& x, Tagged const& y) { return x.v / 2 < y.v / 2; });
            bool ok = true;
            std::vector<char> seen(std::size_t(n), 0);
            for (int i = 0; i < n && ok; ++i)
            {
                Tagged const& t = a[std::size_t(i)];
                if (t.id < 0 || t.id >= n || seen[std::size_t(t.id)]++ || s[t.id] != t.v)
                    ok = false;
                else if (i > 0 && t.v / 2 < a[std::size_t(i - 1)].v / 2)
                    ok = false;
            }
            if (!ok)
                c.fail("sort/ties", "sort with tie-heavy comparator: not a sorted permutation",
                       {{"case", wit(in, origin)}});
            else if (n < 2)
                c.cells.trivial();
            else
                c.cells.hit(cell("sort-ties", n, tie));
        }
        // --- min_element (< and >) : std returns the FIRST smallest element
        {
            auto a = cel::min_element(in.begin(), in.end());
            auto b = std::min_element(in.begin(), in.end());
            if (a != b)
                c.fail("min_element/less", "min_element differs from std::min_element",
                       {{"case", wit(in, origin)}, {"got", a - in.begin()}, {"expect", b - in.begin()}});
            else if (n < 1)
                c.cells.trivial();
            else
                c.cells.hit(cell("min_element<", n, tie));
            auto gt = [](int x, int y) { return x > y; };
            auto a2 = cel::min_element(in.begin(), in.end(), gt);
            auto b2 = std::min_element(in.begin(), in.end(), gt);
            if (a2 != b2)
                c.fail("min_element/greater", "min_element(>) differs from std::min_element",
                       {{"case", wit(in, origin)}, {"got", a2 - in.begin()}, {"expect", b2 - in.begin()}});
            else if (n < 1)
                c.cells.trivial();
            else
                c.cells.hit(cell("min_element>", n, tie));
        }
        // --- all_of / any_of / all_adjacent
        {
            int thr = n ? s[n / 2] : 0;
            auto p = [thr](int x) { return x <= thr; };
            bool ok = cel::all_of(in.begin(), in.end(), p) == std::all_of(in.begin(), in.end(), p)
                      && cel::any_of(in.begin(), in.end(), p) == std::any_of(in.begin(), in.end(), p);
            auto q = [](int x) { return x == 0; };
            ok = ok && cel::all_of(in.begin(), in.end(), q) == std::all_of(in.begin(), in.end(), q)
                 && cel::any_of(in.begin(), in.end(), q) == std::any_of(in.begin(), in.end(), q);
            if (!ok)
                c.fail("all_any_of", "all_of/any_of differ from std::", {{"case", wit(in, origin)}});
            else if (n < 1)
                c.cells.trivial();
            else
                c.cells.hit(cell("all_any_of", n, tie));
            // all_adjacent(p) == no adjacent pair violating p
            auto le = [](int x, int y) { return x <= y; };
            auto lt = [](int x, int y) { return x < y; };
            bool r1 = cel::all_adjacent(in.begin(), in.end(), le);
            bool e1 = std::is_sorted(in.begin(), in.end());
            bool r2 = cel::all_adjacent(in.begin(), in.end(), lt);
            bool e2 = std::adjacent_find(in.begin(), in.end(),
                                         [](int x, int y) { return !(x < y); })
                      == in.end();
            if (r1 != e1 || r2 != e2)
                c.fail("all_adjacent", "all_adjacent differs from std::is_sorted/adjacent_find",
                       {{"case", wit(in, origin)}, {"le", r1}, {"lt", r2}});
            else if (n < 2)
                c.cells.trivial();
            else
                c.cells.hit(cell("all_adjacent", n, tie));
        }
        // --- partition with threshold predicates (all thresholds for short inputs)
        {
            int nthr = n <= 8 ? n + 1 : 2;
            for (int t = 0; t < nthr; ++t)
            {
                int thr = n <= 8 ? t : s[(t * 7 + 3) % n];
                std::vector<Tagged> a(static_cast<std::size_t>(n));
                for (int i = 0; i < n; ++i)
                    a[std::size_t(i)] = {s[i], i};
                auto pred = [thr](Tagged const& x) { return x.v < thr; };
                auto r = cel::partition(a.begin(), a.end(), pred);
                std::ptrdiff_t expect = std::count_if(in.begin(), in.end(),
                                                      [thr](int x) { return x < thr; });
                bool ok = (r - a.begin()) == expect;
                std::vector<char> seen(std::size_t(n), 0);
                for (int i = 0; i < n && ok; ++i)
                {
                    Tagged const& e = a[std::size_t(i)];
                    if (e.id < 0 || e.id >= n || seen[std::size_t(e.id)]++ || s[e.id] != e.v)
                        ok = false;
                    else if (pred(e) != (i < expect))
                        ok = false;
                }
                if (!ok)
                    c.fail("partition", "partition: not a predicate-partitioned permutation or "
                                        "wrong returned iterator",
                           {{"case", wit(in, origin)}, {"threshold", thr},
                            {"returned", r - a.begin()}, {"expect", expect}});
                else if (n < 1)
                    c.cells.trivial();
                else
                    c.cells.hit(cell(expect == 0 ? "partition/none"
                                     : expect == n ? "partition/all"
                                                   : "partition/mixed",
                                     n, tie));
            }
        }
    }
};

//---------------------------------------------------------------------------//
// Bounds on a sorted int vector, queries q
struct BoundChecker
{
    Ctx& c;
    std::map<std::string, int> cache;
    int cell(char const* routine, std::size_t n, char const* tie, char const* pos)
    {
        std::string k = std::string(routine) + "/" + len_bucket(n) + "/" + tie + "/" + pos;
        auto it = cache.find(k);
        if (it != cache.end())
            return it->second;
        int id = c.cells.intern(k);
        cache.emplace(k, id);
        return id;
    }

    template<class T>
    void operator()(std::vector<T> const& v, T q, char const* tie, char const* origin)
    {
        std::size_t n = v.size();
        auto lb = std::lower_bound(v.begin(), v.end(), q);
        auto ub = std::upper_bound(v.begin(), v.end(), q);
        bool hit = lb != ub;
        char const* pos = n == 0                 ? "empty"
                          : lb == v.end()        ? "above"
                          : (ub == v.begin())    ? "below"
                          : hit ? (lb == v.begin() ? "hit-first" : ub == v.end() ? "hit-last" : "hit")
                                : "miss";
        auto W = [&]() {
            return json{{"sorted", jvec(v, 40)}, {"n", n}, {"query", q}, {"origin", origin}};
        };
        auto a = cel::lower_bound(v.begin(), v.end(), q);
        auto a2 = cel::lower_bound_linear(v.begin(), v.end(), q);
        auto b = cel::upper_bound(v.begin(), v.end(), q);
        auto f = cel::find_sorted(v.begin(), v.end(), q);
        auto fexp = hit ? lb : v.end();
        if (a != lb)
            c.fail("lower_bound", "lower_bound differs from std::lower_bound",
                   {{"case", W()}, {"got", a - v.begin()}, {"expect", lb - v.begin()}});
        else
            c.cells.hit(cell("lower_bound", n, tie, pos));
        if (a2 != lb)
            c.fail("lower_bound_linear", "lower_bound_linear differs from std::lower_bound",
                   {{"case", W()}, {"got", a2 - v.begin()}, {"expect", lb - v.begin()}});
        else
            c.cells.hit(cell("lower_bound_linear", n, tie, pos));
        if (b != ub)
            c.fail("upper_bound", "upper_bound differs from std::upper_bound",
                   {{"case", W()}, {"got", b - v.begin()}, {"expect", ub - v.begin()}});
        else
            c.cells.hit(cell("upper_bound", n, tie, pos));
        if (f != fexp)
            c.fail("find_sorted", "find_sorted differs from std::binary_search/lower_bound",
                   {{"case", W()}, {"got", f - v.begin()}, {"expect", fexp - v.begin()}});
        else
            c.cells.hit(cell("find_sorted", n, tie, pos));

        // descending order with operator>
        {
            std::vector<T> d(v.rbegin(), v.rend());
            auto gt = [](T const& x, T const& y) { return x > y; };
            auto e1 = std::lower_bound(d.begin(), d.end(), q, gt);
            auto e2 = std::upper_bound(d.begin(), d.end(), q, gt);
            auto g1 = cel::lower_bound(d.begin(), d.end(), q, gt);
            auto g1l = cel::lower_bound_linear(d.begin(), d.end(), q, gt);
            auto g2 = cel::upper_bound(d.begin(), d.end(), q, gt);
            auto g3 = cel::find_sorted(d.begin(), d.end(), q, gt);
            if (g1 != e1 || g1l != e1 || g2 != e2 || g3 != (e1 != e2 ? e1 : d.end()))
                c.fail("bounds/greater", "lower/upper_bound/find_sorted with operator> differ from std::",
                       {{"case", W()}, {"lb", g1 - d.begin()}, {"lbl", g1l - d.begin()},
                        {"ub", g2 - d.begin()}, {"expect_lb", e1 - d.begin()},
                        {"expect_ub", e2 - d.begin()}});
            else
                c.cells.hit(cell("bounds>", n, tie, pos));
        }
        // strict weak ordering whose equivalence is coarser than operator== (records looked up
        // by key): the reference semantics are those of the *comparator* (std::binary_search /
        // equal_range), so an element equivalent to the query but not equal to it is a hit
        {
            auto key = [](T const& x) -> long long {
                double f = std::floor(double(x) / 4.0);
                return f < -4e18 ? (long long)(-4e18) : f > 4e18 ? (long long)(4e18) : (long long)(f);
            };
            auto kl = [&key](T const& x, T const& y) { return key(x) < key(y); };
            auto e1 = std::lower_bound(v.begin(), v.end(), q, kl);
            auto e2 = std::upper_bound(v.begin(), v.end(), q, kl);
            auto k1 = cel::lower_bound(v.begin(), v.end(), q, kl);
            auto k1l = cel::lower_bound_linear(v.begin(), v.end(), q, kl);
            auto k2 = cel::upper_bound(v.begin(), v.end(), q, kl);
            auto k3 = cel::find_sorted(v.begin(), v.end(), q, kl);
            bool equal_elem = e1 != e2 && *e1 == q;
            if (k1 != e1 || k1l != e1 || k2 != e2 || k3 != (e1 != e2 ? e1 : v.end()))
                c.fail("bounds/coarse-equivalence",
                       "lower/upper_bound/find_sorted with a by-key comparator differ from std::",
                       {{"case", W()}, {"lb", k1 - v.begin()}, {"lbl", k1l - v.begin()}, {"ub", k2 - v.begin()},
                        {"find", k3 - v.begin()}, {"expect_lb", e1 - v.begin()}, {"expect_ub", e2 - v.begin()}});
            else
                c.cells.hit(cell(e1 == e2 ? "bounds-bykey/miss" : equal_elem ? "bounds-bykey/hit-equal" : "bounds-bykey/hit-equivalent-only",
                                 n, tie, pos));
        }
        // heterogeneous comparator over Range iterators (as NonuniformGrid::find does)
        {
            cel::Range<cel::size_type> r(cel::size_type(0), cel::size_type(n));
            auto it = cel::lower_bound(r.begin(), r.end(), q,
                                       [&v](cel::size_type i, T const& val) { return v[i] < val; });
            if (std::ptrdiff_t(*it) != lb - v.begin())
                c.fail("lower_bound/range-iter",
                       "lower_bound over Range iterators with index->value comparator differs",
                       {{"case", W()}, {"got", *it}, {"expect", lb - v.begin()}});
            else
                c.cells.hit(cell("lower_bound-rangeiter", n, tie, pos));
        }
    }
};

char const* sorted_tie_name(std::vector<int> const& v)
{
    if (v.size() < 2)
        return "na";
    bool any = false, all = true;
    for (std::size_t i = 1; i < v.size(); ++i)
    {
        if (v[i] == v[i - 1])
            any = true;
        else
            all = false;
    }
    return all ? "allequal" : any ? "ties" : "distinct";
}

}  // namespace

//---------------------------------------------------------------------------//
void c18_algorithms(verif::Args const& args, verif::Report& rep, CellCounter& cells)
{
    Ctx ctx{rep, cells};
    SeqChecker seq{ctx, {}};
    BoundChecker bnd{ctx, {}};
    bool shard0 = args.get("shard", "0") == "0";

    // ---------------- exhaustive part (seed independent, shard 0 only)
    // Length limit follows the budget scale so that sanitizer replicas stay small.
    int lmax = args.scale >= 0.99 ? 8 : args.scale >= 0.2 ? 7 : 6;
    if (shard0)
    {
        u64 npat = 0;
        int s[8];
        // every weak ordering of n elements: sequences over {0..n-1} using exactly the
        // levels {0..m-1}
        for (int n = 0; n <= lmax; ++n)
        {
            if (n == 0)
            {
                seq(s, 0, "exhaustive");
                ++npat;
                continue;
            }
            std::fill(s, s + n, 0);
            while (true)
            {
                unsigned mask = 0;
                int mx = 0;
                for (int i = 0; i < n; ++i)
                {
                    mask |= 1u << s[i];
                    mx = std::max(mx, s[i]);
                }
                if (mask == (1u << (mx + 1)) - 1u)
                {
                    seq(s, n, "exhaustive");
                    ++npat;
                }
                int k = n - 1;
                while (k >= 0 && ++s[k] == n)
                    s[k--] = 0;
                if (k < 0)
                    break;
            }
        }
        rep.observe("exhaustive_weak_order_patterns", npat);
        rep.set_exhaustive("sort (4 comparators), partition (every threshold predicate), "
                           "min_element, all_of/any_of/all_adjacent on every weak ordering "
                           "(all permutations and multiset arrangements up to order "
                           "isomorphism) of length <= "
                           + std::to_string(lmax));

        // partition depends only on the boolean pattern: every 0/1 sequence up to 2*lmax
        {
            int bl = 2 * lmax;
            u64 cnt = 0;
            for (int n = 0; n <= bl; ++n)
                for (unsigned m = 0; m < (1u << n); ++m)
                {
                    std::vector<Tagged> a(static_cast<std::size_t>(n));
                    for (int i = 0; i < n; ++i)
                        a[std::size_t(i)] = {int((m >> i) & 1u), i};
                    auto pred = [](Tagged const& x) { return x.v != 0; };
                    auto r = cel::partition(a.begin(), a.end(), pred);
                    int expect = __builtin_popcount(m);
                    bool ok = (r - a.begin()) == expect;
                    unsigned seen = 0;
                    for (int i = 0; i < n && ok; ++i)
                    {
                        Tagged const& e = a[std::size_t(i)];
                        if (e.id < 0 || e.id >= n || (seen >> e.id) & 1u
                            || int((m >> e.id) & 1u) != e.v || (e.v != 0) != (i < expect))
                            ok = false;
                        seen |= 1u << e.id;
                    }
                    ++cnt;
                    if (!ok)
                        ctx.fail("partition", "partition of a boolean pattern: wrong result",
                                 {{"n", n}, {"pattern_bits", m}, {"returned", r - a.begin()},
                                  {"expect", expect}});
                    else if (n == 0)
                        cells.trivial();
                    else
                        cells.hit(std::string("partition-bool/") + len_bucket(std::size_t(n)) + "/"
                                  + (expect == 0 ? "none" : expect == n ? "all" : "mixed"));
                }
            rep.observe("exhaustive_partition_bool_patterns", cnt);
            rep.set_exhaustive("partition on every boolean pattern of length <= "
                               + std::to_string(bl));
        }

        // bounds: every non-decreasing sequence over {0,2,..,2(lmax-1)} of length <= lmax,
        // queried at every integer in [-1, 2*lmax-1] (all hits and all gaps)
        {
            u64 cnt = 0;
            for (int n = 0; n <= lmax; ++n)
            {
                std::vector<int> lv(std::size_t(n), 0);  // levels, non-decreasing
                while (true)
                {
                    std::vector<int> v(static_cast<std::size_t>(n));
                    for (int i = 0; i < n; ++i)
                        v[std::size_t(i)] = 2 * lv[std::size_t(i)];
                    char const* tie = sorted_tie_name(v);
                    for (int q = -1; q <= 2 * lmax - 1; ++q)
                        bnd(v, q, tie, "exhaustive");
                    ++cnt;
                    // next non-decreasing sequence
                    int k = n - 1;
                    while (k >= 0 && lv[std::size_t(k)] == lmax - 1)
                        --k;
                    if (k < 0)
                        break;
                    int nv = lv[std::size_t(k)] + 1;
                    for (int j = k; j < n; ++j)
                        lv[std::size_t(j)] = nv;
                }
            }
            rep.observe("exhaustive_sorted_multisets", cnt);
            rep.set_exhaustive("lower_bound(_linear)/upper_bound/find_sorted (<, >, Range-iterator "
                               "comparator) on every sorted multiset of length <= "
                               + std::to_string(lmax) + " with queries at every element and gap");
        }
    }

    // ---------------- random longer sequences
    {
        u64 ncase = args.budget(1500, 150000);
        for (u64 ci = 0; ci < ncase; ++ci)
        {
            verif::Rng rng(verif::mix_seed(args.seed, 0x180000 + ci));
            int kind = int(ci % 8);
            std::size_t n = kind == 0   ? std::size_t(rng.integer(9, 64))
                            : kind < 6  ? std::size_t(rng.integer(9, 1024))
                            : kind == 6 ? std::size_t(rng.integer(1025, 4000))
                                        : std::size_t(rng.integer(4000, 10000));
            if (ci % 64 != 63 && n > 4000)
                n = std::size_t(rng.integer(9, 300));
            int alphabet = int(rng.integer(0, 3));
            std::int64_t amax = alphabet == 0   ? 1
                                : alphabet == 1 ? std::int64_t(n / 4 + 1)
                                : alphabet == 2 ? std::int64_t(n)
                                                : 1000000000;
            std::vector<int> s(n);
            for (auto& x : s)
                x = int(rng.integer(0, amax));
            int shape = int(rng.integer(0, 5));
            if (shape == 0)
                std::sort(s.begin(), s.end());
            else if (shape == 1)
                std::sort(s.begin(), s.end(), std::greater<int>());
            else if (shape == 2)
            {  // organ pipe
                std::sort(s.begin(), s.end());
                std::reverse(s.begin() + std::ptrdiff_t(n / 2), s.end());
            }
            std::string origin = "random seed=" + std::to_string(args.seed) + " index="
                                 + std::to_string(ci);
            seq(s.data(), int(n), origin.c_str());

            // bounds on the sorted version, queries at every element +-1 and ends
            std::vector<int> v = s;
            std::sort(v.begin(), v.end());
            char const* tie = sorted_tie_name(v);
            std::size_t stride = std::max<std::size_t>(1, n / 64);
            for (std::size_t i = 0; i < n; i += stride)
                for (int d = -1; d <= 1; ++d)
                    bnd(v, v[i] + d, tie, origin.c_str());
            bnd(v, v.front() - 1, tie, origin.c_str());
            bnd(v, v.back() + 1, tie, origin.c_str());

            // doubles: sort and bounds at +-ulp
            if (ci % 4 == 0)
            {
                std::vector<double> d(n);
                for (std::size_t i = 0; i < n; ++i)
                    d[i] = alphabet <= 1 ? double(s[i]) * 0.1 : rng.normal() * 1e3;
                if (rng.coin(0.3))
                    d[std::size_t(rng.integer(0, std::int64_t(n) - 1))] = -0.0;
                if (rng.coin(0.3))
                    d[std::size_t(rng.integer(0, std::int64_t(n) - 1))] = INFINITY;
                std::vector<double> a = d, b = d;
                cel::sort(a.begin(), a.end());
                std::sort(b.begin(), b.end());
                // compare by value (+0/-0 are equivalent under <, either order is sorted)
                bool ok = std::is_sorted(a.begin(), a.end());
                for (std::size_t i = 0; i < n && ok; ++i)
                    ok = a[i] == b[i];
                if (!ok)
                    ctx.fail("sort/double", "celeritas::sort on doubles differs from std::sort",
                             {{"origin", origin}, {"n", n}});
                else
                    cells.hit(std::string("sort-double/") + len_bucket(n) + "/" + tie);
                std::vector<double> ds;
                for (std::size_t i = 0; i < n; i += stride)
                {
                    double ring[5];
                    ulp_ring(b[i], ring);
                    for (double q : ring)
                        if (!std::isnan(q))
                            bnd(b, q, tie, origin.c_str());
                }
            }
        }
    }
}
}  // namespace gridv
