// C18 part 3: UniformGrid / NonuniformGrid / find_interp / Interpolator /
// TwodGridCalculator against exact and long-double references.
#include <algorithm>

#include "corecel/Types.hh"
#include "corecel/data/Collection.hh"
#include "corecel/data/CollectionBuilder.hh"
#include "corecel/grid/FindInterp.hh"
#include "corecel/grid/Interpolator.hh"
#include "corecel/grid/NonuniformGrid.hh"
#include "corecel/grid/TwodGridCalculator.hh"
#include "corecel/grid/TwodGridData.hh"
#include "corecel/grid/TwodSubgridCalculator.hh"
#include "corecel/grid/UniformGrid.hh"
#include "corecel/grid/UniformGridData.hh"

#include "verif_celer.hh"
#include "grid_common.hh"

using namespace gridv;
namespace cel = celeritas;
using cel::real_type;
using cel::size_type;

namespace gridv
{
namespace
{
template<cel::Ownership W>
using Reals = cel::Collection<real_type, W, cel::MemSpace::host>;

// strictly increasing random grid
std::vector<double> random_increasing(verif::Rng& rng, std::size_t n)
{
    std::vector<double> g(n);
    int style = int(rng.integer(0, 4));
    double x = style == 3 ? rng.loguniform(1e-6, 1e2) : rng.uniform(-100, 100);
    for (std::size_t i = 0; i < n; ++i)
    {
        g[i] = x;
        double step;
        switch (style)
        {
            case 0: step = rng.uniform(0.01, 10); break;
            case 1: step = rng.loguniform(1e-9, 1e3); break;
            case 2: step = rng.coin(0.3) ? 0 : rng.uniform(0.5, 1.5); break;  // some 1-ulp gaps
            case 3: step = x * rng.uniform(0.05, 2); break;                   // log-like
            default: step = 1; break;
        }
        double nx = x + step;
        if (!(nx > x))
            nx = std::nextafter(x, INFINITY);
        x = nx;
    }
    return g;
}

char const* pos_class(std::size_t i, std::size_t n)
{
    return i == 0 ? "first" : i + 1 == n ? "last" : i + 2 == n ? "last-bin" : "interior";
}

//---------------------------------------------------------------------------//
void check_uniform(verif::Args const& args, verif::Report& rep, CellCounter& cells, u64 ci)
{
    verif::Rng rng(verif::mix_seed(args.seed, 0x184000 + ci));
    double front, back;
    size_type n;
    int style = int(ci % 5);
    if (style == 0)
    {  // log-energy grids as the physics tables use them
        double emin = rng.loguniform(1e-7, 1e2);
        double emax = emin * rng.loguniform(2, 1e12);
        front = std::log(emin);
        back = std::log(emax);
        n = size_type(rng.integer(2, 300));
    }
    else if (style == 1)
    {
        front = rng.uniform(-1000, 1000);
        back = front + rng.loguniform(1e-6, 1e4);
        n = size_type(rng.integer(2, 1000));
    }
    else if (style == 2)
    {  // "nice" numbers
        front = double(rng.integer(-20, 20));
        back = front + double(rng.integer(1, 50));
        n = size_type(rng.integer(2, 101));
    }
    else if (style == 3)
    {  // far from origin: few bits of resolution per cell
        front = rng.uniform(1e6, 1e9);
        back = front + rng.loguniform(1e-3, 1e3);
        n = size_type(rng.integer(2, 200));
    }
    else
    {
        front = rng.coin() ? 0.0 : -rng.loguniform(1e-3, 1e3);
        back = rng.loguniform(1e-3, 1e6);
        n = size_type(rng.integer(2, 50));
    }
    if (!(front < back))
        return;
    cel::UniformGridData data;
    try
    {
        data = cel::UniformGridData::from_bounds(front, back, n);
    }
    catch (cel::DebugError const& e)
    {
        rep.inconclusive("debug-assert: " + verif::describe(e));
        return;
    }
    if (!data)
    {
        rep.inconclusive("rejected input: UniformGridData invalid");
        return;
    }
    cel::UniformGrid grid(data);
    auto W = [&](double v) {
        return json{{"front", verif::hexd(front)}, {"back", verif::hexd(back)}, {"size", n},
                    {"delta", verif::hexd(data.delta)}, {"value", verif::hexd(v)},
                    {"seed", args.seed}, {"index", ci}};
    };
    std::string sname = "style" + std::to_string(style);

    // --- points: grid[i] against front + (back-front) i/(n-1).
    // front + delta*i: delta carries relative error u, the product one more u, the sum
    // u of the result: |err| <= u(2|delta i| + |grid[i]|) <= u(2W + M) (W = back-front,
    // M = max|end|); allow a factor 2.
    bool pts_ok = grid.size() == n && grid.front() == front && grid.back() == back;
    std::vector<double> pts(n);
    double tolp = 2 * kU * (2 * (back - front) + std::max(std::fabs(front), std::fabs(back)));
    for (size_type i = 0; i < n && pts_ok; ++i)
    {
        pts[i] = grid[i];
        ldbl ref = ldbl(front) + (ldbl(back) - ldbl(front)) * ldbl(i) / ldbl(n - 1);
        if (!(fabsl(ldbl(pts[i]) - ref) <= ldbl(tolp)) || (i == 0 && pts[i] != front))
            pts_ok = false;
        // strictly increasing unless the cell width is below the resolution of the
        // coordinates (then equal neighbours are a rounding effect, not judged)
        if (i > 0 && pts[i] < pts[i - 1])
            pts_ok = false;
    }
    if (!pts_ok)
    {
        rep.violation("C18/uniform-grid/points", "UniformGrid point values differ from "
                                                 "front + i (back-front)/(n-1)",
                      W(front));
        return;
    }
    cells.hit("uniform-grid/points/" + sname, n);
    bool resolved = data.delta > 8 * ulp_of(std::max(std::fabs(front), std::fabs(back)));

    // --- find(v): documented "data[result] <= value < data[result+1]", precondition
    // front <= v < back.  Queries: every point +-{0,1,2} ulp, the ends, mid-cells.
    auto query = [&](double v, char const* where, char const* off) {
        if (!(v >= front && v < back))
            return;
        size_type got;
        try
        {
            got = grid.find(v);
        }
        catch (cel::DebugError const& e)
        {
            // The library's own postcondition (bin + 1 < size) failing for an input
            // inside the precondition is the defect this monitor looks for.
            rep.violation("C18/uniform-find/out-of-range",
                          "UniformGrid::find violates its own postcondition for an in-range value: "
                              + verif::describe(e),
                          W(v));
            return;
        }
        if (got + 1 >= n)
        {
            rep.violation("C18/uniform-find/out-of-range",
                          "UniformGrid::find returned the last point (no upper neighbour) for "
                          "a value strictly below back()",
                          W(v));
            return;
        }
        bool ok = pts[got] <= v && v < pts[got + 1];
        if (ok)
        {
            cells.hit(std::string("uniform-find/") + where + "/" + off);
            return;
        }
        // The bin edges are themselves rounded results of front + delta*i; a value
        // within the rounding error of an edge cannot be attributed to one side by the
        // documented definition evaluated in exact arithmetic.  Derived band: the edge
        // error bound tolp above plus the rounding of (v-front)/delta, u*W.
        size_type lo = got, hi = got + 1;
        double dist = v < pts[lo] ? pts[lo] - v : v - pts[hi];
        // (the last point front + delta (n-1) may round below back(): values in between
        // belong to the last cell although no tabulated point brackets them)
        bool adjacent = v < pts[lo] ? (lo > 0 && v >= pts[lo - 1])
                                    : (hi + 1 < n ? v < pts[hi + 1] : v < back);
        if (resolved && adjacent && dist <= tolp + kU * (back - front))
        {
            rep.inconclusive("untestable: value within the rounding band of a uniform-grid edge");
            rep.observe("uniform_find_edge_band_disagreements");
            return;
        }
        if (!resolved)
        {
            rep.inconclusive("untestable: uniform-grid cell width below coordinate resolution");
            return;
        }
        rep.violation("C18/uniform-find/bin-mismatch",
                      "UniformGrid::find result does not bracket the value",
                      {{"case", W(v)}, {"got", got}, {"lower", verif::hexd(pts[lo])},
                       {"upper", verif::hexd(pts[hi])}});
    };
    std::size_t stride = n > 64 ? n / 64 : 1;
    for (size_type i = 0; i < n; ++i)
    {
        if (i % stride && i + 2 < n && i > 1)
            continue;
        double ring[5];
        ulp_ring(pts[i], ring);
        for (int k = 0; k < 5; ++k)
            query(ring[k], pos_class(i, n), ulp_name(k));
        if (i + 1 < n)
            query(0.5 * (pts[i] + pts[i + 1]), pos_class(i, n), "mid");
    }
    {
        double ring[5];
        ulp_ring(back, ring);
        query(ring[0], "back", "-2ulp");
        query(ring[1], "back", "-1ulp");
        ulp_ring(front, ring);
        query(ring[2], "front", "0ulp");
        query(ring[3], "front", "+1ulp");
    }

    // --- find_interp on the uniform grid: index as find, fraction in [0,1) and equal to
    // (v - lo)/(hi - lo) (3 roundings -> relative 3u, absolute floor u)
    for (int t = 0; t < 12; ++t)
    {
        double v = t < 8 ? rng.uniform(front, back) : pts[size_type(rng.integer(0, n - 2))];
        if (!(v >= front && v < back))
            continue;
        cel::FindInterp<real_type> fi;
        try
        {
            fi = cel::find_interp(grid, v);
        }
        catch (cel::DebugError const& e)
        {
            rep.inconclusive("debug-assert: " + verif::describe(e));
            continue;
        }
        if (fi.index + 1 >= n)
        {
            rep.violation("C18/uniform-find/out-of-range", "find_interp index has no upper neighbour", W(v));
            continue;
        }
        ldbl fref = (ldbl(v) - ldbl(pts[fi.index])) / (ldbl(pts[fi.index + 1]) - ldbl(pts[fi.index]));
        bool in_cell = pts[fi.index] <= v && v < pts[fi.index + 1];
        if (!in_cell)
        {
            rep.inconclusive("untestable: value within the rounding band of a uniform-grid edge");
            continue;
        }
        if (!(fi.fraction >= 0 && fi.fraction < 1)
            || !(fabsl(ldbl(fi.fraction) - fref) <= 3.03L * kU * fref + ldbl(kU)))
            rep.violation("C18/find-interp/uniform", "find_interp fraction outside [0,1) or wrong",
                          {{"case", W(v)}, {"index", fi.index}, {"fraction", verif::hexd(fi.fraction)},
                           {"ref", double(fref)}});
        else
            cells.hit(std::string("find-interp/uniform/") + (fi.fraction == 0 ? "on-point" : "inside"));
    }
}

//---------------------------------------------------------------------------//
void check_nonuniform(verif::Args const& args, verif::Report& rep, CellCounter& cells, u64 ci)
{
    verif::Rng rng(verif::mix_seed(args.seed, 0x185000 + ci));
    std::size_t n = std::size_t(ci % 7 == 0 ? rng.integer(2, 3) : rng.integer(2, ci % 5 == 0 ? 2000 : 60));
    std::vector<double> g = random_increasing(rng, n);
    Reals<cel::Ownership::value> store;
    // pad so that an off-by-one lands inside the pool (visible only through values or
    // the checked Collection in the asan variant)
    auto build = cel::make_builder(&store);
    std::vector<double> pad(std::size_t(rng.integer(0, 5)), -12345.0);
    build.insert_back(pad.begin(), pad.end());
    auto ids = build.insert_back(g.begin(), g.end());
    build.insert_back(pad.begin(), pad.end());
    Reals<cel::Ownership::const_reference> ref{store};
    cel::NonuniformGrid<real_type> grid(ids, ref);

    auto W = [&](double v) {
        return json{{"grid", jhex(g, 80)}, {"n", n}, {"value", verif::hexd(v)}, {"seed", args.seed},
                    {"index", ci}};
    };
    if (grid.size() != n || grid.front() != g.front() || grid.back() != g.back())
    {
        rep.violation("C18/nonuniform-grid/accessors", "size/front/back wrong", W(0));
        return;
    }
    auto query = [&](double v, char const* where, char const* off) {
        if (!(v >= g.front() && v < g.back()))
            return;
        size_type got;
        cel::FindInterp<real_type> fi;
        try
        {
            got = grid.find(v);
            fi = cel::find_interp(grid, v);
        }
        catch (cel::DebugError const& e)
        {
            if (verif::is_bounds_assertion(e))
                rep.violation(verif::bounds_key("C18", e), verif::describe(e), W(v));
            else
                rep.inconclusive("debug-assert: " + verif::describe(e));
            return;
        }
        // exact reference: last point <= v
        std::size_t expect = std::size_t(std::upper_bound(g.begin(), g.end(), v) - g.begin()) - 1;
        if (got != expect || grid[got] != g[expect])
        {
            rep.violation("C18/nonuniform-find", "NonuniformGrid::find differs from upper_bound-1",
                          {{"case", W(v)}, {"got", got}, {"expect", expect}});
            return;
        }
        cells.hit(std::string("nonuniform-find/") + len_bucket(n) + "/" + where + "/" + off);
        ldbl fref = (ldbl(v) - ldbl(g[expect])) / (ldbl(g[expect + 1]) - ldbl(g[expect]));
        // fraction = fl(fl(v-lo)/fl(hi-lo)): relative 3u; documented range [0,1).  The
        // exact fraction of an in-cell value is < 1 but can round to 1 when the cell is
        // wider than 2^53 ulps of v: such cases are outside double resolution.
        if (fi.index != expect || !(fi.fraction >= 0 && fi.fraction <= 1)
            || !(fabsl(ldbl(fi.fraction) - fref) <= 3.03L * kU * fref + ldbl(kU) * 1e-300L))
            rep.violation("C18/find-interp/nonuniform", "find_interp index/fraction wrong",
                          {{"case", W(v)}, {"index", fi.index}, {"fraction", verif::hexd(fi.fraction)},
                           {"ref", double(fref)}});
        else if (fi.fraction == 1)
            rep.inconclusive("untestable: fraction rounds to 1 (cell wider than 2^53 ulp of value)");
        else
            cells.hit(std::string("find-interp/nonuniform/") + (fi.fraction == 0 ? "on-point" : "inside"));
    };
    std::size_t stride = n > 64 ? n / 64 : 1;
    for (std::size_t i = 0; i < n; ++i)
    {
        if (i % stride && i + 2 < n && i > 1)
            continue;
        double ring[5];
        ulp_ring(g[i], ring);
        for (int k = 0; k < 5; ++k)
            query(ring[k], pos_class(i, n), ulp_name(k));
        if (i + 1 < n)
            query(g[i] + 0.5 * (g[i + 1] - g[i]), pos_class(i, n), "mid");
    }
}

//---------------------------------------------------------------------------//
// Interpolator<XI,YI>: long-double reference + derived tolerance
template<cel::Interp XI, cel::Interp YI>
void check_interp(verif::Args const& args, verif::Report& rep, CellCounter& cells, u64 ci)
{
    verif::Rng rng(verif::mix_seed(args.seed, 0x186000 + ci));
    constexpr bool xlog = XI == cel::Interp::log, ylog = YI == cel::Interp::log;
    double xl, xr, yl, yr;
    if (xlog)
    {
        xl = rng.loguniform(1e-8, 1e8);
        xr = xl * (rng.coin(0.2) ? 1 + rng.loguniform(1e-6, 1) : rng.loguniform(1.001, 1e4));
    }
    else
    {
        xl = rng.coin() ? rng.uniform(-100, 100) : rng.loguniform(1e-6, 1e6);
        xr = xl + (rng.coin(0.2) ? std::fabs(xl) * rng.loguniform(1e-6, 1) + 1e-9 : rng.loguniform(1e-3, 1e3));
    }
    if (ylog)
    {
        yl = rng.loguniform(1e-10, 1e10);
        yr = rng.coin(0.1) ? yl : yl * rng.loguniform(1e-5, 1e5);
    }
    else
    {
        yl = rng.coin(0.1) ? 0 : rng.normal() * rng.loguniform(1e-3, 1e3);
        yr = rng.coin(0.1) ? yl : rng.normal() * rng.loguniform(1e-3, 1e3);
    }
    if (!(xl < xr))
        return;
    std::string name = std::string(xlog ? "log" : "lin") + "-" + (ylog ? "log" : "lin");
    try
    {
        cel::Interpolator<XI, YI, double> interp({xl, yl}, {xr, yr});
        auto fx = [](double v) { return xlog ? log2l(ldbl(v)) : ldbl(v); };
        auto fy = [](double v) { return ylog ? log2l(ldbl(v)) : ldbl(v); };
        ldbl den = fx(xr) - fx(xl), num = fy(yr) - fy(yl);
        // Error model (u = 2^-53; libm log2/exp2 <= 1 ulp):
        //  x-lin: t = fl(x - xl), d = fl(xr - xl): relative u each
        //  x-log: t = log2(fl(fl(1/xl) x)): the argument carries relative 2u -> absolute
        //         2u/ln2 in t, plus u|t| from log2; same for d
        //  y-lin: N = fl(yr - yl) relative u;   y-log: N = log2(fl(fl(1/yl) yr)): abs
        //         2u/ln2 + u|N|; intercept log2(yl): abs u|log2 yl|
        //  slope = fl(N/d): relative u more;  Y = fma(slope, t, intercept): relative u
        //  y-log: y = exp2(Y): relative error ln2*dY + u
        // A factor 2 covers the second-order terms and the libm bounds.
        constexpr ldbl il2 = 1.4426950408889634L;
        double xs[12];
        int nx = 0;
        double ring[5];
        ulp_ring(xl, ring);
        xs[nx++] = ring[2];
        xs[nx++] = ring[3];
        xs[nx++] = ring[4];
        ulp_ring(xr, ring);
        xs[nx++] = ring[0];
        xs[nx++] = ring[1];
        xs[nx++] = ring[2];
        for (int k = 0; k < 5; ++k)
            xs[nx++] = xlog ? xl * std::pow(xr / xl, rng.uniform()) : xl + (xr - xl) * rng.uniform();
        for (int k = 0; k < nx; ++k)
        {
            double x = xs[k];
            if (!(x >= xl && x <= xr))
                continue;
            double got = interp(x);
            ldbl t = fx(x) - fx(xl);
            ldbl phi = t / den;
            ldbl Y = fy(yl) + num * phi;
            ldbl ref = ylog ? exp2l(Y) : Y;
            ldbl dt = xlog ? 2 * kU * il2 + kU * fabsl(t) : kU * fabsl(t);
            ldbl dd = xlog ? 2 * kU * il2 + kU * fabsl(den) : kU * fabsl(den);
            ldbl dN = ylog ? 2 * kU * il2 + kU * fabsl(num) : kU * fabsl(num);
            ldbl dphi = (dt + fabsl(phi) * dd) / fabsl(den) + kU * fabsl(phi);
            ldbl dY = fabsl(num) * dphi + (dN + kU * fabsl(num)) * fabsl(phi) + kU * fabsl(Y)
                      + (ylog ? kU * fabsl(fy(yl)) : 0.0L) + kU * fabsl(num * phi);
            ldbl tol = 2 * (ylog ? fabsl(ref) * (dY / il2 + kU) : dY);
            ldbl err = fabsl(ldbl(got) - ref);
            if (tol > 0)
                rep.observe_max("interp_err_over_tol/" + name, double(err / tol));
            if (!(err <= tol))
                rep.violation("C18/interpolator/" + name, "Interpolator differs from the long-double "
                                                          "definition beyond the derived rounding bound",
                              {{"xl", verif::hexd(xl)}, {"xr", verif::hexd(xr)}, {"yl", verif::hexd(yl)},
                               {"yr", verif::hexd(yr)}, {"x", verif::hexd(x)}, {"got", verif::hexd(got)},
                               {"ref", double(ref)}, {"tol", double(tol)}, {"seed", args.seed},
                               {"index", ci}});
            else
                cells.hit("interpolator/" + name + "/" + (k < 3 ? "left-end" : k < 6 ? "right-end" : "inside"));
        }
    }
    catch (cel::DebugError const& e)
    {
        rep.inconclusive("debug-assert: " + verif::describe(e));
    }
}

//---------------------------------------------------------------------------//
void check_twod(verif::Args const& args, verif::Report& rep, CellCounter& cells, u64 ci)
{
    verif::Rng rng(verif::mix_seed(args.seed, 0x187000 + ci));
    std::size_t nx = std::size_t(rng.integer(2, 12)), ny = std::size_t(rng.integer(2, 12));
    std::vector<double> gx = random_increasing(rng, nx), gy = random_increasing(rng, ny);
    std::vector<double> val(nx * ny);
    int vstyle = int(rng.integer(0, 2));
    for (std::size_t i = 0; i < nx; ++i)
        for (std::size_t j = 0; j < ny; ++j)
            val[i * ny + j] = vstyle == 0   ? rng.normal() * 10
                              : vstyle == 1 ? 1 + 2 * gx[i] - 3 * gy[j] + 0.5 * gx[i] * gy[j]
                                            : rng.loguniform(1e-6, 1e6);
    Reals<cel::Ownership::value> store;
    auto build = cel::make_builder(&store);
    cel::TwodGridData td;
    std::vector<double> pad(std::size_t(rng.integer(0, 4)), 777.0);
    build.insert_back(pad.begin(), pad.end());
    td.x = build.insert_back(gx.begin(), gx.end());
    td.y = build.insert_back(gy.begin(), gy.end());
    td.values = build.insert_back(val.begin(), val.end());
    build.insert_back(pad.begin(), pad.end());
    Reals<cel::Ownership::const_reference> ref{store};
    cel::TwodGridCalculator calc(td, ref);

    auto candidates = [&](std::vector<double> const& g, std::vector<double>& out) {
        out.clear();
        for (std::size_t i = 0; i < g.size(); ++i)
        {
            double ring[5];
            ulp_ring(g[i], ring);
            for (double v : ring)
                if (v >= g.front() && v < g.back())
                    out.push_back(v);
            if (i + 1 < g.size())
                out.push_back(g[i] + (g[i + 1] - g[i]) * rng.uniform());
        }
    };
    std::vector<double> qx, qy;
    candidates(gx, qx);
    candidates(gy, qy);
    for (double x : qx)
    {
        if (!(x >= gx.front() && x < gx.back()))
            continue;
        try
        {
            cel::TwodSubgridCalculator sub = calc(x);
            std::size_t ix = std::size_t(std::upper_bound(gx.begin(), gx.end(), x) - gx.begin()) - 1;
            ldbl fxr = (ldbl(x) - gx[ix]) / (ldbl(gx[ix + 1]) - gx[ix]);
            if (sub.x_index() != ix)
            {
                rep.violation("C18/twod/x-index", "TwodGridCalculator selected the wrong x cell",
                              {{"gx", jhex(gx)}, {"x", verif::hexd(x)}, {"got", sub.x_index()}, {"expect", ix}});
                continue;
            }
            // a handful of y per x
            for (int t = 0; t < 6; ++t)
            {
                double y = qy[std::size_t(rng.integer(0, std::int64_t(qy.size()) - 1))];
                if (!(y >= gy.front() && y < gy.back()))
                    continue;
                double got = sub(y);
                double got2 = calc({x, y});
                std::size_t iy = std::size_t(std::upper_bound(gy.begin(), gy.end(), y) - gy.begin()) - 1;
                ldbl fyr = (ldbl(y) - gy[iy]) / (ldbl(gy[iy + 1]) - gy[iy]);
                ldbl a00 = val[ix * ny + iy], a01 = val[ix * ny + iy + 1], a10 = val[(ix + 1) * ny + iy],
                     a11 = val[(ix + 1) * ny + iy + 1];
                ldbl refv = (1 - fxr) * ((1 - fyr) * a00 + fyr * a01) + fxr * ((1 - fyr) * a10 + fyr * a11);
                ldbl amax = std::max(std::max(fabsl(a00), fabsl(a01)), std::max(fabsl(a10), fabsl(a11)));
                // Rounding: each fraction has absolute error <= 3u, (1-f) adds u; every
                // corner term is weight*value with weights in [0,1]: per corner
                // (3u+3u+u + 2u)|a| from the two weights and two products, 3 additions
                // add 3u|result|: <= 4*9u*amax + 3u*amax = 39u amax; use 48u.
                ldbl tol = 48 * kU * amax;
                ldbl lo = std::min(std::min(a00, a01), std::min(a10, a11)),
                     hi = std::max(std::max(a00, a01), std::max(a10, a11));
                bool ok = got == got2 && fabsl(ldbl(got) - refv) <= tol && ldbl(got) >= lo - tol
                          && ldbl(got) <= hi + tol;
                if (amax > 0)
                    rep.observe_max("twod_err_over_tol", double(fabsl(ldbl(got) - refv) / tol));
                if (!ok)
                    rep.violation("C18/twod/value", "bilinear interpolation differs from long-double "
                                                    "reference or leaves the corner range",
                                  {{"gx", jhex(gx)}, {"gy", jhex(gy)}, {"x", verif::hexd(x)},
                                   {"y", verif::hexd(y)}, {"got", verif::hexd(got)}, {"got_xy", verif::hexd(got2)},
                                   {"ref", double(refv)}, {"seed", args.seed}, {"index", ci}});
                else
                    cells.hit(std::string("twod/") + (fxr == 0 ? "x-on-point" : "x-inside") + "/"
                              + (fyr == 0 ? "y-on-point" : "y-inside") + "/" + pos_class(ix, nx));
            }
        }
        catch (cel::DebugError const& e)
        {
            if (verif::is_bounds_assertion(e))
                rep.violation(verif::bounds_key("C18", e), verif::describe(e), {{"x", verif::hexd(x)}});
            else
            {
                rep.inconclusive("debug-assert: " + verif::describe(e));
                rep.observe("assert:" + verif::describe(e));
            }
        }
    }
}
}  // namespace

//---------------------------------------------------------------------------//
void c18_grids(verif::Args const& args, verif::Report& rep, CellCounter& cells)
{
    u64 n = args.budget(1500, 400000);
    for (u64 ci = 0; ci < n; ++ci)
    {
        check_uniform(args, rep, cells, ci);
        check_nonuniform(args, rep, cells, ci);
        for (int k = 0; k < 6; ++k)
        {
            u64 cj = ci * 6 + u64(k);
            switch (cj % 4)
            {
                case 0: check_interp<cel::Interp::linear, cel::Interp::linear>(args, rep, cells, cj); break;
                case 1: check_interp<cel::Interp::log, cel::Interp::linear>(args, rep, cells, cj); break;
                case 2: check_interp<cel::Interp::linear, cel::Interp::log>(args, rep, cells, cj); break;
                default: check_interp<cel::Interp::log, cel::Interp::log>(args, rep, cells, cj); break;
            }
        }
        if (ci % 3 == 0)
            check_twod(args, rep, cells, ci);
    }
}
}  // namespace gridv
