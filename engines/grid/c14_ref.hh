// Long-double reference models of the *documented* table semantics (C14):
//  * energy grid uniformly spaced in log E between front = log(emin), back = log(emax)
//  * linear interpolation in E between knots
//  * values at index >= prime_index are stored multiplied by E; result divided by E
//  * outside the grid: edge value (divided by E in the scaled part);
//    range: r0 sqrt(E/E0) below, clamped to r[n-1] above; inverse range mirrored
// Nothing here is derived from the implementation's arithmetic; the tolerances model the
// rounding of ANY double implementation of these formulas (derivations inline).
#pragma once

#include <algorithm>
#include <cmath>
#include <vector>

#include "grid_common.hh"

namespace gridv
{
constexpr std::size_t kNoPrime = std::size_t(-1);

struct LogGrid
{
    double front{}, back{};
    std::size_t n{};
    std::vector<ldbl> E;  // reference knot energies
    // Relative uncertainty of a knot energy computed in double as exp(front + delta*i):
    //   delta = fl((back-front)/(n-1))        rel u  -> abs u*W in delta*i (W = back-front)
    //   fl(delta*i)                            abs u*W
    //   fl(front + .)                          abs u*M (M = max(|front|,|back|))
    //   exp(): abs error a in the argument -> rel a; plus 1 ulp of exp itself (u..2u)
    // eta_u = u(2W + M + 2); we use 2*eta_u = 2^-52 (2W + M + 2) to cover second order
    // terms and the log() of the query energy (abs u*M in log E, i.e. rel in E).
    double eta{};

    void init(double f, double b, std::size_t n_)
    {
        front = f;
        back = b;
        n = n_;
        E.resize(n);
        for (std::size_t i = 0; i < n; ++i)
            E[i] = expl(ldbl(front) + (ldbl(back) - ldbl(front)) * ldbl(i) / ldbl(n - 1));
        double W = back - front, M = std::max(std::fabs(front), std::fabs(back));
        eta = kEps * (2 * W + M + 2);
    }
    // index of the reference bin containing e (clamped to [0, n-2]); -1 below, n-1 above
    long locate(ldbl e) const
    {
        if (e < E[0])
            return -1;
        if (e >= E[n - 1])
            return long(n) - 1;
        return long(std::upper_bound(E.begin(), E.end(), e) - E.begin()) - 1;
    }
};

struct RefBranch
{
    ldbl value;
    ldbl tol;
    int region;  // see region_name
};

enum Region
{
    r_below = 0,
    r_first,
    r_interior,
    r_primebin,
    r_primed,
    r_last,
    r_above,
    r_count
};
inline char const* region_name(int r)
{
    static char const* const n[] = {"below", "first-bin", "interior", "prime-bin", "primed", "last-bin", "above"};
    return n[r];
}

//---------------------------------------------------------------------------//
// Cross section / energy loss table
struct XsRef
{
    LogGrid g;
    std::vector<double> v;  // stored values (scaled by E at and above prime)
    std::size_t prime = kNoPrime;

    // unscaled knot value
    ldbl knot_value(std::size_t i) const { return i >= prime ? ldbl(v[i]) / g.E[i] : ldbl(v[i]); }

    RefBranch below(ldbl e) const
    {
        ldbl val = prime == 0 ? ldbl(v[0]) / e : ldbl(v[0]);
        return {val, 2 * kU * fabsl(val), r_below};
    }
    RefBranch above(ldbl e) const
    {
        ldbl val = prime != kNoPrime ? ldbl(v[g.n - 1]) / e : ldbl(v[g.n - 1]);
        return {val, 2 * kU * fabsl(val), r_above};
    }
    // Linear interpolation on bin j (also used as its linear extension within the
    // knot-uncertainty band).
    //  Knot shift: the implementation's knots are a(1+e1), b(1+e2), |e| <= eta.  The
    //  interpolation weight (E-a)/(b-a) then moves by at most eta*b/(b-a), so the value
    //  moves by <= |yb-ya| eta b/(b-a) = S eta b.  (factor 2 safety)
    //  Arithmetic: slope fl(fl(yb-ya)/fl(b-a)) rel 3u, fl(E-a) rel u, fma rel u of the
    //  result: <= 4u|yb-ya| + u|y| <= 9u max(|ya|,|yb|); we use 12u.
    //  Prime bin: the upper value is v/E_b computed with the shifted knot: rel eta + u.
    //  Scaled part: final division by E adds u.
    RefBranch bin(std::size_t j, ldbl e) const
    {
        ldbl a = g.E[j], b = g.E[j + 1];
        bool pbin = (j + 1 == prime);
        ldbl ya = v[j], yb = pbin ? ldbl(v[j + 1]) / b : ldbl(v[j + 1]);
        ldbl S = fabsl(yb - ya) / (b - a);
        ldbl val = ya + (yb - ya) * (e - a) / (b - a);
        ldbl ymax = std::max(fabsl(ya), fabsl(yb));
        ldbl tol = 2 * S * g.eta * b + 12 * kU * ymax + (pbin ? (g.eta + 2 * kU) * fabsl(yb) : 0.0L);
        int region = pbin ? r_primebin : j >= prime ? r_primed : j == 0 ? r_first : j + 2 == g.n ? r_last : r_interior;
        if (j >= prime)
        {
            val /= e;
            tol = tol / e + 2 * kU * fabsl(val);
        }
        return {val, tol, region};
    }
    // All branches an implementation may legitimately take for energy e: the bin that
    // contains e and, when e is within the knot uncertainty of a knot, its neighbour.
    int branches(double energy, RefBranch out[4]) const
    {
        ldbl e = energy;
        ldbl band = 2 * g.eta * e;
        int nb = 0;
        long i = g.locate(e);
        if (i < 0 || e <= g.E[0] + band)
            out[nb++] = below(e);
        if (i >= long(g.n) - 1 || e >= g.E[g.n - 1] - band)
            out[nb++] = above(e);
        long j0 = std::max<long>(0, i - 1), j1 = std::min<long>(long(g.n) - 2, i + 1);
        for (long j = j0; j <= j1 && nb < 4; ++j)
            if (e >= g.E[std::size_t(j)] - band && e <= g.E[std::size_t(j) + 1] + band)
                out[nb++] = bin(std::size_t(j), e);
        return nb;
    }
};

//---------------------------------------------------------------------------//
// Range table (no scaling) and its inverse
struct RangeRef
{
    LogGrid g;
    std::vector<double> r;  // strictly increasing, r[0] > 0

    int range_branches(double energy, RefBranch out[4]) const
    {
        ldbl e = energy;
        ldbl band = 2 * g.eta * e;
        int nb = 0;
        long i = g.locate(e);
        if (i < 0 || e <= g.E[0] + band)
        {
            // r0 sqrt(E/E0): any evaluation goes through log/exp or sqrt of a ratio
            // involving the shifted knot E0: rel eta/2 + a few u
            // (an evaluation through exp(.5 (log E - log E0)) also carries the absolute
            // error u|log E| of the logarithm of a far-away query energy)
            ldbl val = ldbl(r[0]) * sqrtl(e / g.E[0]);
            out[nb++] = {val, (g.eta + kEps * (4 + fabsl(logl(e)))) * val, r_below};
        }
        if (i >= long(g.n) - 1 || e >= g.E[g.n - 1] - band)
            out[nb++] = {ldbl(r[g.n - 1]), 0.0L, r_above};
        long j0 = std::max<long>(0, i - 1), j1 = std::min<long>(long(g.n) - 2, i + 1);
        for (long jj = j0; jj <= j1 && nb < 4; ++jj)
        {
            std::size_t j = std::size_t(jj);
            if (!(e >= g.E[j] - band && e <= g.E[j + 1] + band))
                continue;
            ldbl a = g.E[j], b = g.E[j + 1], ya = r[j], yb = r[j + 1];
            ldbl S = (yb - ya) / (b - a);
            ldbl val = ya + (yb - ya) * (e - a) / (b - a);
            // same derivation as XsRef::bin
            ldbl tol = 2 * S * g.eta * b + 12 * kU * yb;
            out[nb++] = {val, tol, j == 0 ? r_first : j + 2 == g.n ? r_last : r_interior};
        }
        return nb;
    }

    // Inverse: precondition 0 <= range <= r[n-1].  The r-knots are stored doubles, so
    // the bin is determined exactly; only the energy knots carry the eta uncertainty.
    RefBranch inverse(double range) const
    {
        ldbl x = range;
        if (x < r[0])
        {
            // E0 (r/r0)^2: exp(front) rel eta, ratio and square 3u
            ldbl q = x / r[0];
            ldbl val = g.E[0] * q * q;
            return {val, (g.eta + 4 * kU) * val, r_below};
        }
        if (x >= r[g.n - 1])
            return {g.E[g.n - 1], (g.eta + 2 * kU) * g.E[g.n - 1], r_above};
        std::size_t j = std::size_t(std::upper_bound(r.begin(), r.end(), range) - r.begin()) - 1;
        ldbl a = r[j], b = r[j + 1];
        ldbl ea = g.E[j], eb = g.E[j + 1];
        ldbl val = ea + (eb - ea) * (x - a) / (b - a);
        // convex combination of two energy knots each uncertain by rel eta (<= eta eb),
        // slope/fma rounding as before (<= 12u eb)
        return {val, (g.eta + 12 * kU) * eb, j == 0 ? r_first : j + 2 == g.n ? r_last : r_interior};
    }
    // max dE/dr over every bin that intersects the range interval [lo, hi]
    ldbl max_dEdr(ldbl lo, ldbl hi) const
    {
        std::size_t j0 = std::size_t(std::max<long>(0, long(std::upper_bound(r.begin(), r.end(), double(lo)) - r.begin()) - 2));
        ldbl m = 0;
        for (std::size_t k = j0; k + 1 < g.n; ++k)
        {
            m = std::max(m, (g.E[k + 1] - g.E[k]) / (ldbl(r[k + 1]) - ldbl(r[k])));
            if (ldbl(r[k]) > hi)
                break;
        }
        return m;
    }
    // max dr/dE over every bin that intersects the energy interval [lo, hi]
    ldbl max_drdE(ldbl lo, ldbl hi) const
    {
        std::size_t j0 = std::size_t(std::max<long>(0, g.locate(lo) - 1));
        ldbl m = 0;
        for (std::size_t k = j0; k + 1 < g.n; ++k)
        {
            m = std::max(m, (ldbl(r[k + 1]) - ldbl(r[k])) / (g.E[k + 1] - g.E[k]));
            if (g.E[k] > hi)
                break;
        }
        return m;
    }
    // local |dE/dr| and |dr/dE| maxima over bins j-1..j+1 (for round-trip tolerances)
    void slopes(long j, ldbl& dEdr, ldbl& drdE) const
    {
        dEdr = 0;
        drdE = 0;
        for (long k = std::max<long>(0, j - 1); k <= std::min<long>(long(g.n) - 2, j + 1); ++k)
        {
            ldbl de = g.E[std::size_t(k) + 1] - g.E[std::size_t(k)];
            ldbl dr = ldbl(r[std::size_t(k) + 1]) - ldbl(r[std::size_t(k)]);
            dEdr = std::max(dEdr, de / dr);
            drdE = std::max(drdE, dr / de);
        }
    }
};

}  // namespace gridv
