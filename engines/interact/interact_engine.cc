// Engine `interact` (property C04): every discrete interaction conserves energy and
// yields valid final states.
//
// Real code driven: every interactor in src/celeritas/em/interactor and
// neutron/interactor/ChipsNeutronElasticInteractor, built from the host_ref() of its
// production Model (constructed from synthetic imported data, see interact_world.cc)
// plus ParticleTrackView / MaterialView / ElementView / IsotopeView / CutoffView and a
// StackAllocator<Secondary>, exactly like the executors do (interact_models.cc).
//
// Oracles (all relations; nothing is compared against the implementation):
//  (a) ENERGY    A_inc = A_out + sum A_sec + deposition, A = T (+ 2 m c^2 for e+)
//  (b) MOMENTUM  p_inc d_inc = sum p_i d_i for models returning all products
//  (c) VALIDITY  finite >= 0 energies, unit directions, defined particle ids, secondaries
//                at/above the model's own threshold, action consistent with fields,
//                secondaries inside the block the interactor allocated
//  (d) DRAWS     watchdog (1e6 draws) on all streams; generous bound on random streams
//  (e) ALLOC     with too little stack space: Interaction::from_failure(), allocator
//                size unchanged, no slot written
#include <algorithm>
#include <array>
#include <cmath>
#include <functional>
#include <memory>

#include "corecel/Assert.hh"
#include "corecel/math/Quantity.hh"
#include "celeritas/Constants.hh"
#include "celeritas/Quantities.hh"
// (PhysicsConstants.hh is not self-contained: needs Quantities.hh first)
#include "celeritas/em/interactor/detail/PhysicsConstants.hh"
#include "celeritas/mat/ElementView.hh"
#include "celeritas/mat/MaterialParams.hh"
#include "celeritas/phys/CutoffParams.hh"
#include "celeritas/phys/InteractionUtils.hh"
#include "celeritas/phys/ParticleParams.hh"

#include "interact_world.hh"
#include "verif_common.hh"

using namespace celeritas;
using namespace iv;
using verif::hexd;
using verif::HostileEngine;
using verif::json;
using u64 = std::uint64_t;

namespace
{
//---------------------------------------------------------------------------//
// TOLERANCES (each with its derivation)
//---------------------------------------------------------------------------//
// Unit roundoff of binary64
constexpr long double u_round = 1.1102230246251565404e-16L;  // 2^-53

// ENERGY: every reported quantity (outgoing energy, each secondary energy, deposition) is
// produced by at most ~4 rounded operations (one or two subtractions, a product with a
// sampled fraction, a short sum) on operands of magnitude <= S, where S is the largest
// energy-like magnitude entering the bookkeeping (incident A, or the total energy
// E_n + M_target for the CHIPS boost).  Bound: 4 u S per reported quantity.
inline long double energy_tol(long double scale, std::size_t nsec)
{
    return 4.0L * u_round * scale * (2 + nsec);
}

// MOMENTUM: in all four families judged, one product's direction is *derived* by
// calc_exiting_direction() from the incident momentum and the sampled product, so the
// residual is along that product and equals | |q| - p_d | where q = p_inc d_inc - p_s d_s
// is evaluated with the actual (rounded) direction cosines and p_d comes from the energy
// obtained by subtraction.  |q|^2 - p_d^2 carries the absolute rounding error of the
// sampled direction cosine (a few u) times 2 p_inc p_s, plus a few u relative error of
// each squared term, hence  | |q| - p_d | <= C u P^2 / p_d  with P = sum of all momentum
// magnitudes.  C = 16 covers the ~8 roundings in from_spherical/rotate/normalise.
//
// Frame rotation (celeritas::rotate, used by ExitingDirectionSampler): the polar rotation
// uses s' = sqrt(1 - z^2).  For the stored incident vector |v|^2 = 1 + eta (eta = a few u
// for a normalised vector, up to 6u for the "pole-ulp" class) one has
// 1 - z^2 = (x^2 + y^2) - eta, plus <= 2u rounding, so with e = |eta| + 2u
//   |s' - s_inc| <= min(sqrt(e), e / s_inc)          (s_inc = hypot(x, y))
// which tilts the axis about which the sampled polar angle is laid out away from the true
// incident direction by that angle.  In the documented small-angle branch
// (s' < min_accurate_sintheta = 0.005, sin(phi) = sqrt(1 - cos(phi)^2) in this snapshot) an
// azimuthal error <= 2 sqrt(u), scaled by s_inc, adds to it.  At the exact poles
// (x = y = 0, |z| = 1) the rotation is exact.  The sampled product's direction cosine to
// the true incident direction is therefore off by <= sin(theta_s) * delta_axis.
inline long double frame_axis_error(Real3 const& d)
{
    if (d[0] == 0 && d[1] == 0 && std::fabs(d[2]) == 1)
        return 0;
    long double s_inc = hypotl(d[0], d[1]);
    long double eta = fabsl((long double)d[0] * d[0] + (long double)d[1] * d[1]
                            + (long double)d[2] * d[2] - 1.0L);
    long double e = eta + 2.0L * u_round;
    // (factor 2: safety for the second-order terms and the roundings of sqrt / division)
    long double tilt = 2.0L * (s_inc > 0 ? std::min(sqrtl(e), e / s_inc) : sqrtl(e));
    if (s_inc < 0.006L)  // (margin: the code branches on s', not on s_inc)
        tilt += s_inc * 2.0L * sqrtl(u_round);
    return tilt;
}
// In the regular branch (s_inc >= 0.005) cos(phi) = x / s', sin(phi) = y / s' with
// s' = sqrt(1 - z^2): cos^2 + sin^2 = (s / s')^2 = 1 + 2 eps_m, eps_m <= 2u / s_inc^2, i.e.
// the rotation matrix is not exactly orthonormal; after the final normalisation the polar
// cosine c changes by <= |c| sin^2(theta_s) eps_m' with eps_m' <= 4u / s_inc^2
// (<= 1.8e-11 at the branch threshold).
inline long double frame_scale_error(Real3 const& d)
{
    long double s_inc = hypotl(d[0], d[1]);
    if (s_inc < 0.004L)
        return 0;
    return 4.0L * u_round / (s_inc * s_inc);
}
// Which branch of celeritas::rotate() the incident direction takes, by the documented
// formula sintheta = sqrt(1 - z^2) and threshold min_accurate_sintheta() = 0.005
inline char const* rotate_branch(Real3 const& d)
{
    double s = std::sqrt(1 - d[2] * d[2]);
    return !(s > 0) ? "pole" : s < 0.005 ? "small-angle-branch" : "regular-branch";
}
inline bool in_small_angle_branch(Real3 const& d)
{
    double s = std::sqrt(1 - d[2] * d[2]);
    return s > 0 && s < 0.005;
}
inline long double momentum_tol(long double psum, long double pderived, Real3 const& inc_dir)
{
    // |c| sin^2 <= 2 / (3 sqrt 3) < 0.39
    return (16.0L * u_round + frame_axis_error(inc_dir) + 0.39L * frame_scale_error(inc_dir))
           * psum * psum / pderived;
}

// DIRECTIONS: the code's own is_soft_unit_vector: |1 - v.v| < max(1e-12 max(1,v.v), 1e-14)
inline bool soft_unit(Real3 const& v)
{
    long double n = (long double)v[0] * v[0] + (long double)v[1] * v[1]
                    + (long double)v[2] * v[2];
    if (!std::isfinite((double)n))
        return false;
    long double tol = std::max(1e-12L * std::max(1.0L, n), 1e-14L);
    return fabsl(1.0L - n) < tol;
}

// THRESHOLD rounding band: a sampled energy is obtained from the cut by a handful of
// rounded operations (1/x, product, exp(log)), relative error <= 8 u.  The e-/e+
// bremsstrahlung samplers compute k = sqrt(x - D) with x >= fl(k_c^2 + D) and
// D = n_e * migdal * E_tot^2 (SBEnergySampler / RBDiffXsCalculator): the absolute error
// u (k_c^2 + D) of the sum is amplified to a relative error u (1 + D / k_c^2) in k^2.
inline long double threshold_band(long double dens_corr_over_cutsq)
{
    return 8.0L * u_round + 4.0L * u_round * (1.0L + dens_corr_over_cutsq);
}

constexpr u64 watchdog_draws = 1000000;  // "never unbounded"
constexpr u64 random_stream_bound = 100000;  // generous bound, plain random streams:
// every rejection loop in the interactors has a documented acceptance of order 0.1-1
// with <= 6 draws per iteration; P(N > 1e5 draws) < (1-a)^(1.6e4) < 1e-35 for a >= 0.005.

//---------------------------------------------------------------------------//
enum class CutKind
{
    none,  // cut irrelevant to preconditions
    gamma_brems,  // E > cut_gamma > 0, Migdal density term in the sampler
    gamma_mubrems,  // E > cut_gamma > 0
    electron_mb,  // E > k cut_e, cut_e > 0 (k = 2 for e-, 1 for e+)
    electron_muhad,  // cut_e > 0 and E > sampler.min_secondary_energy()
};
enum class Threshold
{
    none,
    kn,  // surviving secondary >= KleinNishinaInteractor::secondary_cutoff()
    relax,  // secondaries[1..] from AtomicRelaxation: >= cut of their own type (exact)
    electron_cut,
    gamma_cut_brems,
    gamma_cut,
    declared,  // MuHad: sampler.min_secondary_energy()
};
enum class Derived
{
    none,
    outgoing,
    sec0,
    sec1
};

struct ModelDesc
{
    std::string name;
    std::string family;  // site used in violation keys (one implementation = one site)
    std::string helper;  // final-state routine producing the directions
    InvokeFn invoke{nullptr};
    std::vector<ParticleId> particles;
    double e_lo{0}, e_hi{0};  // [lo, hi)
    bool also_zero{false};
    std::vector<double> specials;
    int variant_lo{0}, variant_hi{0};
    CutKind cut{CutKind::none};
    Threshold thr{Threshold::none};
    bool zdep{true};
    bool uses_isotope{false};
    Derived derived{Derived::none};  // != none => momentum is judged
    int muhad_kind{-1};
    bool coulomb{false};
    bool neutron{false};
};

struct CaseInput
{
    int model{-1};
    u64 seed{0}, index{0};
    ParticleId particle;
    double energy{0};
    Real3 dir{0, 0, 1};
    int mat{0};
    ElementComponentId elcomp{0};
    IsotopeComponentId isocomp{0};
    int variant{0};
    int stream_kind{0};
    u64 engine_seed{0};
    int force_kind{0}, force_n{0};
    unsigned prefill{0};
    std::string energy_kind, dir_kind;
};

struct Outcome
{
    enum Status
    {
        ok,
        unbounded,
        debug_assert,
        rejected
    } status{ok};
    std::string what;  // assertion / rejection text
    bool bounds_assert{false};
    std::string bounds_key;
    Interaction result;
    std::vector<Secondary> secondaries;
    std::ptrdiff_t sec_offset{-1};  // offset of result.secondaries.data() in storage
    unsigned size_before{0}, size_after{0};
    bool sentinel_ok{true};
    int sentinel_bad_slot{-1};
    u64 draws{0};
    double declared_threshold{-1};
    double target_mass{0};
};

// IV_DEBUG=1: print one line per violation / near-tolerance helper case to stderr
bool debug_enabled()
{
    static bool const on = std::getenv("IV_DEBUG") != nullptr;
    return on;
}

u64 fnv(std::string const& s)
{
    u64 h = 1469598103934665603ull;
    for (unsigned char c : s)
    {
        h ^= c;
        h *= 1099511628211ull;
    }
    return h;
}

//---------------------------------------------------------------------------//
Secondary sentinel()
{
    Secondary s;
    s.particle_id = ParticleId{0xDEAD};
    s.energy = units::MevEnergy{-777.0};
    s.direction = {9, 9, 9};
    return s;
}
bool is_sentinel(Secondary const& s)
{
    return s.particle_id == ParticleId{0xDEAD} && s.energy.value() == -777.0
           && s.direction[0] == 9 && s.direction[1] == 9 && s.direction[2] == 9;
}

//---------------------------------------------------------------------------//
struct Harness
{
    World& w;
    std::vector<ModelDesc> models;
    verif::Report& rep;
    bool asan{false};

    Harness(World& world, verif::Report& r) : w(world), rep(r) { build_models(); }

    void build_models();
    bool generate(ModelDesc const& m, CaseInput& in, verif::Rng& r, std::string* why);
    Outcome run_once(ModelDesc const& m, CaseInput const& in, unsigned prefill, std::string* precond);
    void judge(ModelDesc const& m, CaseInput const& in);
    json describe(ModelDesc const& m, CaseInput const& in) const;
    json describe(Outcome const& o) const;
    void run_case(int model, u64 seed, u64 index);
    void run_helper_case(u64 seed, u64 index);
};

// MOMENTUM CONSERVATION TABLE (oracle (b)): judged only where the model returns all
// products of a free two-body reaction on an electron at rest.
//
//  model                          judged  reason
//  -----------------------------  ------  ------------------------------------------------
//  klein-nishina                  yes     gamma + free e- at rest -> gamma' + e-; e- direction
//                                         from calc_exiting_direction (not judged when the e-
//                                         is below secondary_cutoff() and deposited locally)
//  eplusgg                        yes     e+ + free e- at rest -> 2 gamma, second gamma from
//                                         calc_exiting_direction
//  moller / bhabha                yes     e-+ + free e- -> e-+ + e- (IoniFinalStateHelper)
//  bragg / icru73qo / bethe-bloch yes     mu/hadron + free e- -> same + delta ray
//   / mu-bethe-bloch                      (IoniFinalStateHelper); radiative gamma neglected by
//                                         the model only in the energy *distribution*
//  livermore-pe (+relaxation)     no      atom recoils; Sauter-Gavrila angle is sampled, the
//                                         ion is not returned; relaxation is isotropic
//  rayleigh                       no      coherent scattering on the atom (recoil not returned)
//  bethe-heitler (+lpm)           no      nucleus takes recoil; code: "momentum is not exactly
//                                         conserved", Tsai-Urban angles sampled independently
//  seltzer-berger / relativistic  no      nucleus takes recoil; photon angle from the
//   / combined / mu-brems                 approximate Tsai/Urban distribution
//  coulomb-wentzel                no      recoil energy is deposited, recoil ion not returned
//  chips-neutron-elastic          no      recoil nucleus not returned (\todo in the code)
void Harness::build_models()
{
    double const me = w.electron_mass;
    double const lo = 1e-6;  // 1 eV practical floor for models whose lower limit is zero
    double const hi = 1e8;  // detail::high_energy_limit()
    auto add = [this](ModelDesc m) {
        if (m.family.empty())
            m.family = m.name;
        if (m.helper.empty())
            m.helper = m.family;
        models.push_back(std::move(m));
    };
    {
        ModelDesc m;
        m.name = "klein-nishina";
        m.invoke = invoke_kn;
        m.particles = {w.gamma};
        m.e_lo = lo;
        m.e_hi = hi;
        m.specials = {1e-4, 2e-4, me};
        m.thr = Threshold::kn;
        m.zdep = false;
        m.derived = Derived::sec0;
        add(m);
    }
    for (int v = 0; v < 3; ++v)
    {
        ModelDesc m;
        m.name = v == 0 ? "livermore-pe" : v == 1 ? "livermore-pe+fluor" : "livermore-pe+auger";
        m.family = "livermore-pe";
        m.invoke = invoke_pe;
        m.particles = {w.gamma};
        m.e_lo = lo;
        m.e_hi = hi;
        m.specials = w.pe_special;
        m.specials.push_back(100.0);
        m.specials.push_back(1e-6);
        m.variant_lo = m.variant_hi = v;
        m.thr = v == 0 ? Threshold::none : Threshold::relax;
        m.zdep = false;  // the Z=19 tables are served for every element
        add(m);
    }
    {
        ModelDesc m;
        m.name = "rayleigh";
        m.invoke = invoke_rayleigh;
        m.particles = {w.gamma};
        m.e_lo = lo;
        m.e_hi = hi;
        add(m);
    }
    for (int v = 0; v < 2; ++v)
    {
        ModelDesc m;
        m.name = v ? "bethe-heitler-lpm" : "bethe-heitler";
        m.family = "bethe-heitler";
        m.invoke = invoke_bh;
        m.particles = {w.gamma};
        m.e_lo = 2 * me;  // BetheHeitlerModel::applicability
        m.e_hi = hi;
        m.specials = {2.0, 50.0, 1e5};
        m.variant_lo = m.variant_hi = v;
        add(m);
    }
    {
        ModelDesc m;
        m.name = "eplusgg";
        m.invoke = invoke_eplusgg;
        m.particles = {w.positron};
        m.e_lo = lo;
        m.e_hi = hi;
        m.also_zero = true;  // "valid at rest"
        m.zdep = false;
        m.derived = Derived::sec1;
        add(m);
    }
    for (int v = 0; v < 2; ++v)
    {
        ModelDesc m;
        m.name = v ? "bhabha" : "moller";
        m.family = "moller-bhabha";
        m.helper = "ioni-final-state";
        m.invoke = invoke_mb;
        m.particles = {v ? w.positron : w.electron};
        m.e_lo = lo;
        m.e_hi = hi;  // MollerBhabhaData::max_valid_energy
        m.cut = CutKind::electron_mb;
        m.thr = Threshold::electron_cut;
        m.zdep = false;
        m.derived = Derived::outgoing;
        add(m);
    }
    for (int v = 0; v < 2; ++v)
    {
        ModelDesc m;
        m.name = v ? "seltzer-berger-e+" : "seltzer-berger-e-";
        m.family = "seltzer-berger";
        m.helper = "brem-final-state";
        m.invoke = invoke_sb;
        m.particles = {v ? w.positron : w.electron};
        m.e_lo = w.sb_min_energy;  // documented: energy must be inside the SB table
        m.e_hi = 1e3;  // seltzer_berger_upper_limit
        m.cut = CutKind::gamma_brems;
        m.thr = Threshold::gamma_cut_brems;
        add(m);
    }
    for (int v = 0; v < 2; ++v)
    {
        ModelDesc m;
        m.name = v ? "relativistic-brem-lpm" : "relativistic-brem";
        m.family = "relativistic-brem";
        m.helper = "brem-final-state";
        m.invoke = invoke_rb;
        m.particles = {w.electron, w.positron};
        m.e_lo = 1e3;
        m.e_hi = hi;
        m.variant_lo = m.variant_hi = v;
        m.cut = CutKind::gamma_brems;
        m.thr = Threshold::gamma_cut_brems;
        add(m);
    }
    {
        ModelDesc m;
        m.name = "combined-brem";
        m.helper = "brem-final-state";
        m.invoke = invoke_cb;
        m.particles = {w.electron, w.positron};
        m.e_lo = w.sb_min_energy;
        m.e_hi = hi;
        m.specials = {1e3};
        m.cut = CutKind::gamma_brems;
        m.thr = Threshold::gamma_cut_brems;
        add(m);
    }
    {
        ModelDesc m;
        m.name = "coulomb-wentzel";
        m.invoke = invoke_coulomb;
        m.particles = {w.electron, w.positron};
        m.e_lo = 1e-3;  // CoulombScatteringModel::applicability = imported grid bounds
        m.e_hi = hi;
        m.variant_lo = 0;
        m.variant_hi = int(w.wentzel.size()) - 1;
        m.uses_isotope = true;
        m.coulomb = true;
        add(m);
    }
    auto add_muhad = [&](char const* name,
                         InvokeFn fn,
                         std::vector<ParticleId> p,
                         double elo,
                         double ehi,
                         int kind,
                         std::vector<double> specials) {
        ModelDesc m;
        m.name = name;
        m.family = "mu-had-ionization";
        m.helper = "ioni-final-state";
        m.invoke = fn;
        m.particles = std::move(p);
        m.e_lo = elo;
        m.e_hi = ehi;
        m.specials = std::move(specials);
        m.cut = CutKind::electron_muhad;
        m.thr = Threshold::declared;
        m.zdep = false;
        m.derived = Derived::outgoing;
        m.muhad_kind = kind;
        add(m);
    };
    // Applicabilities as in MuIonizationProcess::build_models (+ proton)
    add_muhad("icru73qo-mu-", invoke_icru, {w.mu_minus}, lo, 0.2, 0, {});
    add_muhad("bragg-mu+", invoke_bragg, {w.mu_plus}, lo, 0.2, 0, {});
    add_muhad("bragg-proton", invoke_bragg, {w.proton}, lo, 2.0, 0, {});
    add_muhad("bethe-bloch-mu", invoke_bethe_bloch, {w.mu_minus, w.mu_plus}, 0.2, 1e3, 1, {});
    add_muhad("bethe-bloch-proton", invoke_bethe_bloch, {w.proton}, 2.0, hi, 1, {});
    add_muhad("mu-bethe-bloch", invoke_mu_bb, {w.mu_minus, w.mu_plus}, 1e3, hi, 2, {250.0});
    {
        ModelDesc m;
        m.name = "mu-brems";
        m.helper = "brem-final-state";
        m.invoke = invoke_mu_brems;
        m.particles = {w.mu_minus, w.mu_plus};
        m.e_lo = lo;
        m.e_hi = hi;
        m.cut = CutKind::gamma_mubrems;
        m.thr = Threshold::gamma_cut;
        add(m);
    }
    {
        ModelDesc m;
        m.name = "chips-neutron-elastic";
        m.invoke = invoke_chips;
        m.particles = {w.neutron};
        m.e_lo = 1e-5;  // NeutronElasticData::min_valid_energy
        m.e_hi = 2e4;  // max_valid_energy
        m.uses_isotope = true;
        m.neutron = true;
        add(m);
    }
}

//---------------------------------------------------------------------------//
// Exactly normalised (to rounding) direction from long double components
Real3 make_dir(long double x, long double y, long double z)
{
    long double n = sqrtl(x * x + y * y + z * z);
    return {double(x / n), double(y / n), double(z / n)};
}

void gen_direction(verif::Rng& r, CaseInput& in)
{
    double t = r.uniform();
    if (t < 0.66)
    {
        long double mu = 2.0L * r.uniform() - 1.0L, phi = 6.283185307179586477L * r.uniform();
        long double s = sqrtl(std::max(0.0L, 1 - mu * mu));
        in.dir = make_dir(s * cosl(phi), s * sinl(phi), mu);
        in.dir_kind = "sphere";
    }
    else if (t < 0.73)
    {
        in.dir = {0, 0, r.coin() ? 1.0 : -1.0};
        in.dir_kind = "pole";
    }
    else if (t < 0.76)
    {
        // on the axis but 1-3 ulp short of unit length: a soft unit vector
        // (is_soft_unit_vector) for which 1 - z^2 > 0 although x = y = 0
        double z = verif::next_down(1.0, int(r.integer(1, 3)));
        in.dir = {0, 0, r.coin() ? z : -z};
        in.dir_kind = "pole-ulp";
    }
    else if (t < 0.90)
    {
        // near a pole: sin(theta) from 1e-12 (below min_accurate_sintheta) to 1e-2
        long double s = powl(10.0L, -12.0L + 10.0L * r.uniform());
        long double phi = 6.283185307179586477L * r.uniform();
        long double c = sqrtl(1 - s * s) * (r.coin() ? 1 : -1);
        in.dir = make_dir(s * cosl(phi), s * sinl(phi), c);
        in.dir_kind = "near-pole";
    }
    else if (t < 0.95)
    {
        int ax = int(r.integer(0, 1));
        in.dir = {0, 0, 0};
        in.dir[ax] = r.coin() ? 1.0 : -1.0;
        in.dir_kind = "axis";
    }
    else
    {
        long double a = 2.0L * r.uniform() - 1.0L, b = 2.0L * r.uniform() - 1.0L;
        int zero = int(r.integer(0, 2));
        long double v[3];
        v[zero] = 0;
        v[(zero + 1) % 3] = a;
        v[(zero + 2) % 3] = (b == 0 && a == 0) ? 1.0L : b;
        in.dir = make_dir(v[0], v[1], v[2]);
        in.dir_kind = "plane";
    }
}

bool Harness::generate(ModelDesc const& m, CaseInput& in, verif::Rng& r, std::string* why)
{
    in.particle = m.particles[std::size_t(r.integer(0, std::int64_t(m.particles.size()) - 1))];
    in.variant = int(r.integer(m.variant_lo, m.variant_hi));
    double const hi_in = verif::next_down(m.e_hi);

    auto cut_factor = [&]() -> double {
        return (m.cut == CutKind::electron_mb && in.particle == w.electron) ? 2.0 : 1.0;
    };
    auto relevant_cut = [&](MatInfo const& mi) -> double {
        switch (m.cut)
        {
            case CutKind::gamma_brems:
            case CutKind::gamma_mubrems: return mi.cut_gamma;
            case CutKind::electron_mb:
            case CutKind::electron_muhad: return mi.cut_electron;
            default: return 0;
        }
    };
    auto admissible = [&](MatInfo const& mi, double e) -> bool {
        if (m.cut == CutKind::none)
            return true;
        double c = relevant_cut(mi);
        if (!(c > 0))
            return false;
        if (m.cut == CutKind::electron_muhad)
        {
            // final word is the production sampler's (precondition_muhad); Bragg/ICRU73QO
            // lower the threshold themselves, the others need cut < E
            return m.muhad_kind == 0 || e > c;
        }
        return e > cut_factor() * c;
    };

    // ---- energy
    double t = r.uniform();
    bool edge_case = false;
    if (m.also_zero && t < 0.03)
    {
        in.energy = 0;
        in.energy_kind = "zero";
    }
    else if (t < 0.13)
    {
        std::vector<double> c = {m.e_lo,
                                 verif::next_up(m.e_lo),
                                 verif::next_up(m.e_lo, 2),
                                 hi_in,
                                 verif::next_down(hi_in),
                                 verif::next_down(hi_in, 2)};
        for (double s : m.specials)
        {
            c.push_back(s);
            c.push_back(verif::next_up(s));
            c.push_back(verif::next_down(s));
        }
        std::vector<double> ok;
        for (double e : c)
            if (e >= m.e_lo && e < m.e_hi)
                ok.push_back(e);
        in.energy = r.pick(ok);
        in.energy_kind = "endpoint";
    }
    else if (t < 0.21 && m.cut != CutKind::none && m.cut != CutKind::electron_muhad)
    {
        edge_case = true;  // energy just above the cut (set after the material)
        in.energy_kind = "near-cut";
    }
    else
    {
        in.energy = std::exp(r.uniform(std::log(m.e_lo), std::log(m.e_hi)));
        in.energy = std::min(std::max(in.energy, m.e_lo), hi_in);
        in.energy_kind = "loguniform";
    }

    // ---- material (carries the production cuts)
    bool found = false;
    for (int tries = 0; tries < 200 && !found; ++tries)
    {
        in.mat = int(r.integer(0, std::int64_t(w.mats.size()) - 1));
        MatInfo const& mi = w.mats[in.mat];
        if (edge_case)
        {
            double c = relevant_cut(mi) * cut_factor();
            if (!(c > 0))
                continue;
            double e;
            switch (r.integer(0, 3))
            {
                case 0: e = verif::next_up(c); break;
                case 1: e = c * (1 + 1e-12); break;
                case 2: e = c * (1 + 1e-6); break;
                default: e = c * r.uniform(1.0, 2.0); break;
            }
            if (!(e > c && e >= m.e_lo && e < m.e_hi))
                continue;
            in.energy = e;
            found = true;
        }
        else
        {
            found = admissible(mi, in.energy);
        }
    }
    if (!found)
    {
        *why = "precondition: no material whose production cut admits this energy";
        return false;
    }
    MatInfo const& mi = w.mats[in.mat];
    in.elcomp = ElementComponentId{ElementComponentId::size_type(
        r.integer(0, std::int64_t(mi.z.size()) - 1))};
    in.isocomp = IsotopeComponentId{IsotopeComponentId::size_type(r.integer(0, 1))};

    gen_direction(r, in);

    // ---- random stream
    double s = r.uniform();
    in.engine_seed = r.u64();
    in.force_kind = int(r.integer(0, 5));
    in.force_n = int(r.integer(1, 8));
    in.stream_kind = s < 0.5 ? 0 : s < 0.7 ? 1 : s < 0.85 ? 2 : s < 0.93 ? 3 : 4;
    in.prefill = unsigned(r.integer(0, 6));
    return true;
}

HostileEngine make_engine(CaseInput const& in)
{
    double p = 0;
    switch (in.stream_kind)
    {
        case 1: p = 0.02; break;
        case 2: p = 0.25; break;
        case 4: p = 0.05; break;
        default: break;
    }
    HostileEngine e(in.engine_seed, p, watchdog_draws);
    if (in.stream_kind >= 3)
        e.force(in.force_kind, in.force_n);
    return e;
}

//---------------------------------------------------------------------------//
Outcome Harness::run_once(ModelDesc const& m,
                          CaseInput const& in,
                          unsigned prefill,
                          std::string* precond)
{
    Outcome o;
    auto& sref = w.stack->ref();
    using SecId = ItemId<Secondary>;
    using SizeId = ItemId<size_type>;
    unsigned const cap = w.stack_capacity;
    for (unsigned i = 0; i < cap; ++i)
        sref.storage[SecId{i}] = sentinel();
    sref.size[SizeId{0}] = prefill;
    o.size_before = prefill;
    StackAllocator<Secondary> alloc(sref);

    MatInfo const& mi = w.mats[in.mat];
    HostileEngine eng = make_engine(in);
    try
    {
        ParticleTrackView particle(w.particles->host_ref(), w.pstate->ref(), TrackSlotId{0});
        ParticleTrackView::Initializer_t init;
        init.particle_id = in.particle;
        init.energy = units::MevEnergy{in.energy};
        particle = init;

        MaterialView material(w.materials->host_ref(), mi.id);
        Ctx c{w,
              particle,
              in.dir,
              material,
              in.elcomp,
              material.element_id(in.elcomp),
              in.isocomp,
              CutoffView(w.cutoffs->host_ref(), mi.id),
              alloc,
              in.variant};
        if (precond)
        {
            if (m.coulomb)
                *precond = precondition_coulomb(c);
            else if (m.muhad_kind >= 0)
                *precond = precondition_muhad(c, m.muhad_kind);
            if (!precond->empty())
            {
                o.status = Outcome::rejected;
                o.what = "precondition: " + *precond;
                return o;
            }
        }
        o.result = m.invoke(c, eng);
        o.declared_threshold = c.declared_threshold;
        o.target_mass = c.target_mass;
    }
    catch (verif::DrawLimitExceeded const&)
    {
        o.status = Outcome::unbounded;
    }
    catch (DebugError const& e)
    {
        o.status = Outcome::debug_assert;
        o.what = verif::describe(e);
        o.bounds_assert = verif::is_bounds_assertion(e);
        if (o.bounds_assert)
            o.bounds_key = verif::bounds_key("C04", e);
    }
    catch (RuntimeError const& e)
    {
        o.status = Outcome::rejected;
        o.what = "rejected input";
    }
    o.draws = eng.count();
    o.size_after = sref.size[SizeId{0}];
    if (o.status == Outcome::ok)
    {
        auto span = o.result.secondaries;
        if (!span.empty())
        {
            Secondary const* base = &sref.storage[SecId{0}];
            o.sec_offset = span.data() - base;
            if (o.sec_offset >= 0 && std::size_t(o.sec_offset) + span.size() <= cap)
                o.secondaries.assign(span.begin(), span.end());
        }
        // sentinel check outside [prefill, size_after)
        unsigned lo_ = prefill, hi_ = std::min(std::max(o.size_after, prefill), cap);
        for (unsigned i = 0; i < cap; ++i)
        {
            if (i >= lo_ && i < hi_)
                continue;
            if (!is_sentinel(sref.storage[SecId{i}]))
            {
                o.sentinel_ok = false;
                o.sentinel_bad_slot = int(i);
                break;
            }
        }
    }
    return o;
}

//---------------------------------------------------------------------------//
json jvec3(Real3 const& v)
{
    return json::array({hexd(v[0]), hexd(v[1]), hexd(v[2])});
}

json Harness::describe(ModelDesc const& m, CaseInput const& in) const
{
    MatInfo const& mi = w.mats[in.mat];
    json j;
    j["seed"] = in.seed;
    j["model"] = m.name;
    j["index"] = in.index;
    j["particle"] = w.particles->id_to_label(in.particle);
    j["energy"] = in.energy;
    j["energy_hex"] = hexd(in.energy);
    j["energy_kind"] = in.energy_kind;
    j["material"] = w.materials->id_to_label(mi.id).name;
    j["Z"] = mi.z;
    j["elcomp"] = in.elcomp.get();
    j["isocomp"] = in.isocomp.get();
    j["cut_gamma"] = mi.cut_gamma;
    j["cut_electron"] = mi.cut_electron;
    j["dir"] = json::array({in.dir[0], in.dir[1], in.dir[2]});
    j["dir_hex"] = jvec3(in.dir);
    j["dir_kind"] = in.dir_kind;
    j["variant"] = in.variant;
    j["stream_kind"] = in.stream_kind;
    j["engine_seed"] = in.engine_seed;
    j["force"] = json::array({in.force_kind, in.force_n});
    j["prefill"] = in.prefill;
    return j;
}

json Harness::describe(Outcome const& o) const
{
    static char const* const actions[] = {"scattered", "absorbed", "unchanged", "failed"};
    json j;
    j["status"] = int(o.status);
    if (!o.what.empty())
        j["what"] = o.what;
    j["draws"] = o.draws;
    j["stack_size_before"] = o.size_before;
    j["stack_size_after"] = o.size_after;
    if (o.status != Outcome::ok)
        return j;
    auto const& r = o.result;
    j["action"] = actions[int(r.action)];
    if (r.action == Interaction::Action::scattered)
    {
        j["energy"] = r.energy.value();
        j["energy_hex"] = hexd(r.energy.value());
        j["direction"] = jvec3(r.direction);
    }
    if (r.action != Interaction::Action::failed)
        j["deposition"] = hexd(r.energy_deposition.value());
    j["num_secondaries"] = r.secondaries.size();
    j["secondaries_offset"] = o.sec_offset;
    json secs = json::array();
    for (auto const& s : o.secondaries)
    {
        json e;
        e["particle_id"] = s.particle_id ? int(s.particle_id.get()) : -1;
        e["energy"] = s.energy.value();
        e["energy_hex"] = hexd(s.energy.value());
        e["direction"] = jvec3(s.direction);
        secs.push_back(e);
    }
    j["secondaries"] = secs;
    return j;
}

int zbucket(int z)
{
    return z <= 2 ? 0 : z <= 10 ? 1 : z <= 30 ? 2 : z <= 60 ? 3 : 4;
}

//---------------------------------------------------------------------------//
void Harness::run_case(int model, u64 seed, u64 index)
{
    ModelDesc const& m = models[model];
    verif::Rng r(verif::mix_seed(verif::mix_seed(seed, fnv(m.name)), index));
    CaseInput in;
    in.model = model;
    in.seed = seed;
    in.index = index;
    std::string why;
    if (!generate(m, in, r, &why))
    {
        rep.inconclusive(why);
        return;
    }
    judge(m, in);
}

void Harness::judge(ModelDesc const& m, CaseInput const& in)
{
    using Action = Interaction::Action;
    MatInfo const& mi = w.mats[in.mat];
    std::string precond;
    Outcome o = run_once(m, in, in.prefill, &precond);

    // Regime marker for the sampling-effort monitors: incident energy within 0.1% of the
    // kinematic threshold set by the production cut (the sampled range degenerates there)
    bool near_cut = false;
    {
        double c = 0;
        switch (m.cut)
        {
            case CutKind::gamma_brems:
            case CutKind::gamma_mubrems: c = mi.cut_gamma; break;
            case CutKind::electron_mb:
                c = mi.cut_electron * (in.particle == w.electron ? 2 : 1);
                break;
            default: break;
        }
        near_cut = c > 0 && in.energy <= 1.001 * c;
    }

    struct Viol
    {
        std::string key, detail;
    };
    std::vector<Viol> viols;
    // key = C04/<monitor>/<site>[/<sub>]; site = model family or final-state routine
    auto flag = [&](std::string const& monitor,
                    std::string const& site,
                    std::string const& detail,
                    std::string const& sub = "") {
        std::string key = "C04/" + monitor + "/" + site + (sub.empty() ? "" : "/" + sub);
        for (auto const& v : viols)
            if (v.key == key)
                return;  // one report per key and case
        viols.push_back({key, "[" + m.name + "] " + detail});
    };
    auto emit = [&](Outcome const& oc, std::string const& extra_key = "", json extra = json()) {
        json wj = describe(m, in);
        wj["observed"] = describe(oc);
        if (!extra_key.empty())
            wj[extra_key] = std::move(extra);
        bool first = true;
        if (debug_enabled())
            for (auto const& v : viols)
                std::fprintf(stderr,
                             "VIOL %s model=%s ekind=%s stream=%d dir=%s E=%.17g near_cut=%d\n",
                             v.key.c_str(),
                             m.name.c_str(),
                             in.energy_kind.c_str(),
                             in.stream_kind,
                             in.dir_kind.c_str(),
                             in.energy,
                             int(near_cut));
        for (auto const& v : viols)
        {
            if (first)
                rep.violation(v.key, v.detail, wj);
            else
                rep.violation_in_case(v.key, v.detail, wj);
            first = false;
        }
    };

    bool const random_stream = in.stream_kind == 0;
    std::string const stream_tag = random_stream ? "r" : "a";

    //// non-ok statuses ////
    if (o.status == Outcome::rejected)
    {
        rep.inconclusive(o.what);
        return;
    }
    if (o.status == Outcome::debug_assert)
    {
        if (o.bounds_assert)
        {
            viols.push_back({o.bounds_key, "container bounds assertion: " + o.what});
            emit(o);
        }
        else
        {
            rep.inconclusive("debug-assert: " + o.what);
            rep.observe("assert:" + o.what);
        }
        return;
    }
    if (o.status == Outcome::unbounded)
    {
        flag("unbounded-sampling",
             m.family,
             "sampling did not finish within " + std::to_string(watchdog_draws) + " draws",
             near_cut ? "near-cut" : "");
        emit(o);
        return;
    }

    Interaction const& res = o.result;
    rep.observe_max("max_draws_" + std::string(random_stream ? "random" : "adversarial") + "/"
                        + m.name,
                    double(o.draws));
    if (random_stream && o.draws > random_stream_bound)
        rep.observe("random_stream_draws_above_1e5/" + m.name + (near_cut ? "/near-cut" : ""));

    //// (c) action / allocation consistency ////
    unsigned const allocated = o.size_after >= o.size_before ? o.size_after - o.size_before : 0;
    if (o.size_after < o.size_before || o.size_after > w.stack_capacity)
        flag("alloc-bounds", m.family, "allocator size decreased or exceeds capacity");
    if (!o.sentinel_ok)
        flag("alloc-bounds",
             m.family,
             "stack slot " + std::to_string(o.sentinel_bad_slot)
                 + " outside the block allocated by this interaction was written");
    if (res.action == Action::failed)
    {
        flag("spurious-failure",
             m.family,
             "Interaction::failed although the stack had "
                 + std::to_string(w.stack_capacity - in.prefill) + " free slots");
        emit(o);
        return;
    }
    if (!res.secondaries.empty())
    {
        if (o.sec_offset != std::ptrdiff_t(o.size_before)
            || res.secondaries.size() > allocated)
        {
            flag("alloc-bounds",
                 m.family,
                 "secondaries span is not inside the block allocated by this interaction");
            emit(o);
            return;
        }
    }

    bool finite_ok = true;
    std::string nonfinite_fields;
    auto note_nonfinite = [&](std::string const& what) {
        finite_ok = false;
        nonfinite_fields += (nonfinite_fields.empty() ? "" : ", ") + what;
    };
    // A negative value no larger than the rounding error of the subtraction that produced
    // it (|e| <= 4 u E_inc) is reported under its own sub-site
    auto energy_ok = [&](double e, char const* what) {
        if (!std::isfinite(e))
        {
            note_nonfinite(std::string(what) + " energy");
        }
        else if (e < 0)
        {
            bool ulp = -e <= 4 * double(u_round) * std::max(in.energy, 1e-300);
            flag("validity-energy",
                 m.family,
                 std::string(what) + " energy is negative (" + hexd(e) + ")",
                 std::string(what) + (ulp ? "-negative-ulp" : "-negative"));
        }
    };
    auto direction_ok = [&](Real3 const& d, char const* what) {
        if (soft_unit(d))
            return;
        if (!(std::isfinite(d[0]) && std::isfinite(d[1]) && std::isfinite(d[2])))
        {
            note_nonfinite(std::string(what) + " direction");
            return;
        }
        flag("validity-direction",
             m.helper,
             std::string(what) + " direction is not a unit vector",
             "not-unit");
        finite_ok = false;
    };
    energy_ok(res.energy_deposition.value(), "deposition");
    if (res.action == Action::scattered)
    {
        energy_ok(res.energy.value(), "outgoing");
        direction_ok(res.direction, "outgoing");
    }
    else if (res.action == Action::absorbed)
    {
        if (res.energy.value() != 0)
            flag("action", m.family, "absorbed but outgoing energy is not zero", "absorbed-energy");
    }
    else if (res.action == Action::unchanged)
    {
        if (!res.secondaries.empty() || res.energy_deposition.value() != 0 || allocated != 0)
            flag("action",
                 m.family,
                 "unchanged but secondaries / deposition / allocation present",
                 "unchanged-fields");
    }

    std::size_t nvalid = 0, ncleared = 0;
    for (std::size_t i = 0; i < o.secondaries.size(); ++i)
    {
        Secondary const& s = o.secondaries[i];
        if (!s)
        {
            ++ncleared;
            if (s.energy.value() != 0)
                flag("validity-energy",
                     m.family,
                     "cleared secondary (no particle id) carries energy",
                     "cleared-secondary");
            continue;
        }
        ++nvalid;
        if (!(s.particle_id < w.particles->size()))
        {
            flag("validity-particle", m.family, "secondary particle id is not a defined particle");
            finite_ok = false;
            continue;
        }
        energy_ok(s.energy.value(), "secondary");
        direction_ok(s.direction, "secondary");
    }

    if (!nonfinite_fields.empty())
    {
        // one key per routine: NaN/inf in energies come from the model's own sampler,
        // NaN directions alone from its final-state helper
        bool only_dirs = nonfinite_fields.find("energy") == std::string::npos;
        std::string site = only_dirs ? m.helper : m.family;
        // A product at rest (energy exactly 0) has no direction: a NaN there comes from the
        // final-state helper normalising a zero momentum (0/0), never from the frame rotation,
        // even if the differential run below happens to be finite through rounding noise.
        bool nan_only_at_rest = only_dirs && res.action == Action::scattered && res.energy.value() == 0
                                && !(std::isfinite(res.direction[0]) && std::isfinite(res.direction[1])
                                     && std::isfinite(res.direction[2]));
        for (auto const& sa : o.secondaries)
            if (sa && !(std::isfinite(sa.direction[0]) && std::isfinite(sa.direction[1]) && std::isfinite(sa.direction[2])))
                nan_only_at_rest = false;
        if (only_dirs && !nan_only_at_rest && in.dir[0] == 0 && in.dir[1] == 0 && std::fabs(in.dir[2]) != 1)
        {
            // On-axis incident direction that is only a *soft* unit vector (1 - z^2 > 0 with
            // x = y = 0: the small-angle branch of rotate()).  Differential run: same case,
            // same stream, exactly normalised pole.  If that is finite, the NaN is due to
            // the frame rotation shared by all models, not to this model.
            CaseInput alt = in;
            alt.dir = {0, 0, in.dir[2] > 0 ? 1.0 : -1.0};
            Outcome oa = run_once(m, alt, in.prefill, nullptr);
            bool alt_finite = oa.status == Outcome::ok;
            if (alt_finite && oa.result.action == Action::scattered)
                alt_finite = std::isfinite(oa.result.direction[0])
                             && std::isfinite(oa.result.direction[1])
                             && std::isfinite(oa.result.direction[2]);
            for (auto const& sa : oa.secondaries)
                if (sa)
                    alt_finite = alt_finite && std::isfinite(sa.direction[0])
                                 && std::isfinite(sa.direction[1])
                                 && std::isfinite(sa.direction[2]);
            if (std::getenv("VERIF_DEBUG"))
            {
                std::cerr << "ALT status=" << int(oa.status) << " E=" << hexd(oa.result.energy.value()) << " dir=("
                          << oa.result.direction[0] << "," << oa.result.direction[1] << "," << oa.result.direction[2]
                          << ") nsec=" << oa.secondaries.size();
                for (auto const& sa : oa.secondaries)
                    std::cerr << " sec E=" << hexd(sa.energy.value()) << " dir=(" << sa.direction[0] << ","
                              << sa.direction[1] << "," << sa.direction[2] << ")";
                std::cerr << "\n";
            }
            if (alt_finite)
                site = "frame-rotation-small-angle-branch";
        }
        flag("validity-nonfinite", site, "non-finite " + nonfinite_fields);
    }

    //// (c) production threshold of the model ////
    bool in_threshold_band = false;
    {
        auto check_thr = [&](Secondary const& s, double thr, long double band, char const* what) {
            if (!s || !std::isfinite(s.energy.value()) || !(thr > 0))
                return;
            long double e = s.energy.value();
            if (e >= thr)
                return;
            if (band >= 1 || e >= (long double)thr * (1 - band))
            {
                // inside the rounding band of the sampler (or its precision is exhausted):
                // untestable
                in_threshold_band = true;
                return;
            }
            flag("threshold",
                 m.family,
                 std::string("secondary below ") + what + ": " + hexd(s.energy.value()) + " < "
                     + hexd(thr));
        };
        double etot = in.energy + w.particles->get(in.particle).mass().value();
        switch (m.thr)
        {
            case Threshold::kn:
                if (!o.secondaries.empty())
                    check_thr(o.secondaries[0], 1e-4, 0, "KleinNishina secondary_cutoff()");
                break;
            case Threshold::relax:
                for (std::size_t i = 1; i < o.secondaries.size(); ++i)
                {
                    auto const& s = o.secondaries[i];
                    if (s.particle_id == w.gamma)
                        check_thr(s, mi.cut_gamma, 0, "gamma production cut (relaxation)");
                    else if (s.particle_id == w.electron)
                        check_thr(s, mi.cut_electron, 0, "electron production cut (relaxation)");
                    else if (s)
                        flag("validity-particle",
                             m.family,
                             "relaxation secondary is neither gamma nor electron",
                             "relaxation");
                }
                break;
            case Threshold::electron_cut:
                if (!o.secondaries.empty())
                    check_thr(o.secondaries[0], mi.cut_electron, threshold_band(0), "electron production cut");
                break;
            case Threshold::gamma_cut:
                if (!o.secondaries.empty())
                    check_thr(o.secondaries[0], mi.cut_gamma, threshold_band(0), "gamma production cut");
                break;
            case Threshold::gamma_cut_brems:
                if (!o.secondaries.empty())
                {
                    long double d = (long double)mi.electron_density * detail::migdal_constant()
                                    * etot * etot;
                    check_thr(o.secondaries[0],
                              mi.cut_gamma,
                              threshold_band(d / ((long double)mi.cut_gamma * mi.cut_gamma)),
                              "gamma production cut");
                }
                break;
            case Threshold::declared:
                if (res.action == Action::unchanged)
                    break;
                if (!(o.declared_threshold > 0 && o.declared_threshold <= mi.cut_electron))
                    flag("threshold",
                         m.family,
                         "model's declared minimum secondary energy is not in (0, electron cut]",
                         "declared");
                else if (!o.secondaries.empty())
                    check_thr(o.secondaries[0], o.declared_threshold, threshold_band(0), "model minimum secondary energy");
                break;
            default: break;
        }
    }

    //// (a) energy ////
    auto mass_of = [&](ParticleId p) { return (long double)w.particles->get(p).mass().value(); };
    long double const two_me = 2.0L * w.electron_mass;
    if (finite_ok && res.action != Action::unchanged)
    {
        long double a_inc = in.energy + (in.particle == w.positron ? two_me : 0);
        long double a_out = res.energy_deposition.value();
        if (res.action == Action::scattered)
            a_out += (long double)res.energy.value() + (in.particle == w.positron ? two_me : 0);
        for (auto const& s : o.secondaries)
            if (s)
                a_out += (long double)s.energy.value() + (s.particle_id == w.positron ? two_me : 0);
        long double scale = std::max(a_inc, a_out);
        if (m.neutron)
            scale = in.energy + w.neutron_mass + o.target_mass;  // boost works on E_n + M
        long double tol = energy_tol(scale, o.secondaries.size());
        if (m.neutron)
        {
            // CHIPS: the scattered energy comes out of boost(): gamma = 1/sqrt(1 - v^2)
            // amplifies the ~3u error of v^2 by 1 / (2 (1 - v^2)); the recoil is then
            // clamp_to_nonneg'd, so this error is not cancelled in the balance.
            // v = p_n / (E_n + M).
            long double mn = w.neutron_mass;
            long double pn2 = (long double)in.energy * (in.energy + 2 * mn);
            long double v2 = pn2 / (scale * scale);
            tol += 4.0L * u_round * scale / (1 - v2);
        }
        long double err = fabsl(a_inc - a_out);
        if (err <= tol)
            rep.observe_max("energy_err_over_tol/" + m.name, double(err / tol));
        if (err > tol)
        {
            char buf[200];
            std::snprintf(buf,
                          sizeof buf,
                          "energy not conserved: in %.17Lg out %.17Lg diff %.3Lg tol %.3Lg",
                          a_inc,
                          a_out,
                          a_inc - a_out,
                          tol);
            flag("energy", m.family, buf);
        }
    }

    //// (b) momentum ////
    bool momentum_judged = false;
    if (finite_ok && m.derived != Derived::none && res.action != Action::unchanged
        && ncleared == 0 && viols.empty())
    {
        auto pmag = [](long double t, long double mass) { return sqrtl(t * (t + 2 * mass)); };
        long double pin = pmag(in.energy, mass_of(in.particle));
        long double nrm = sqrtl((long double)in.dir[0] * in.dir[0] + (long double)in.dir[1] * in.dir[1]
                                + (long double)in.dir[2] * in.dir[2]);
        long double sum[3] = {pin * in.dir[0] / nrm, pin * in.dir[1] / nrm, pin * in.dir[2] / nrm};
        long double psum = pin;
        long double pder = -1;
        if (res.action == Action::scattered)
        {
            long double p = pmag(res.energy.value(), mass_of(in.particle));
            for (int k = 0; k < 3; ++k)
                sum[k] -= p * res.direction[k];
            psum += p;
            if (m.derived == Derived::outgoing)
                pder = p;
        }
        for (std::size_t i = 0; i < o.secondaries.size(); ++i)
        {
            auto const& s = o.secondaries[i];
            long double p = pmag(s.energy.value(), mass_of(s.particle_id));
            for (int k = 0; k < 3; ++k)
                sum[k] -= p * s.direction[k];
            psum += p;
            if ((m.derived == Derived::sec0 && i == 0) || (m.derived == Derived::sec1 && i == 1))
                pder = p;
        }
        if (pder > 0)
        {
            long double s_inc = hypotl(in.dir[0], in.dir[1]);
            long double resid = sqrtl(sum[0] * sum[0] + sum[1] * sum[1] + sum[2] * sum[2]);
            long double tol = momentum_tol(psum, pder, in.dir);
            momentum_judged = true;
            if (resid <= tol && tol < 1e-6L * psum)  // margin seen where the check is sharp
                rep.observe_max("momentum_err_over_tol/" + m.name + "/" + rotate_branch(in.dir),
                                double(resid / tol));
            if (resid > tol)
            {
                char buf[240];
                std::snprintf(buf,
                              sizeof buf,
                              "momentum not conserved: |p_inc - sum p_out| = %.6Lg, tol %.3Lg, "
                              "|p_inc| = %.6Lg, sin(theta_inc) = %.3Lg",
                              resid,
                              tol,
                              pin,
                              s_inc);
                // Incident directions with 0 < sin(theta) < min_accurate_sintheta (0.005) take
                // the documented small-angle branch of celeritas::rotate(), shared by every
                // model: failures there are keyed by that branch, not by the model.
                if (in_small_angle_branch(in.dir))
                    flag("momentum", "frame-rotation-small-angle-branch", buf);
                else
                    flag("momentum", m.family, buf);
            }
        }
    }

    if (!viols.empty())
    {
        emit(o);
        return;
    }
    if (in_threshold_band)
    {
        rep.inconclusive("untestable: secondary energy within the rounding band below the cut");
        return;
    }

    //// held: coverage cell ////
    {
        int z = mi.z[in.elcomp.get()];
        int dec = in.energy > 0 ? int(std::floor(std::log10(in.energy))) : -99;
        char const act = res.action == Action::scattered  ? 's'
                         : res.action == Action::absorbed ? 'a'
                                                          : 'u';
        std::string cell = m.name + "/E" + std::to_string(dec) + "/Z"
                           + (m.zdep ? std::to_string(zbucket(z)) : std::string("-")) + "/" + act
                           + std::to_string(nvalid) + (ncleared ? "c" + std::to_string(ncleared) : "")
                           + "/" + stream_tag;
        if (m.variant_hi > m.variant_lo)
            cell += "/v" + std::to_string(in.variant);
        rep.held(cell);
        rep.observe("action:" + m.name + ":" + act);
        if (momentum_judged)
            rep.observe("momentum_judged:" + m.name);
        if (in.energy_kind != "loguniform")
            rep.observe("energy_kind:" + in.energy_kind);
        if (in.dir_kind != "sphere")
            rep.observe("dir_kind:" + in.dir_kind);
        if (rep.want_sample(8) && (in.index % 997) == 3)
        {
            json sj = describe(m, in);
            sj["observed"] = describe(o);
            rep.sample(sj);
        }
    }

    //// (e) allocation failure: same case, same stream, too little space ////
    if (allocated > 0 && (in.index % 3 == 0 || allocated > 2))
    {
        verif::Rng r2(verif::mix_seed(in.engine_seed, 0xA110C));
        unsigned remaining = unsigned(r2.integer(0, allocated - 1));
        unsigned prefill = w.stack_capacity - remaining;
        Outcome f = run_once(m, in, prefill, nullptr);
        json extra;
        extra["needed"] = allocated;
        extra["remaining"] = remaining;
        if (f.status == Outcome::debug_assert && !f.bounds_assert)
        {
            rep.inconclusive("debug-assert: " + f.what);
            return;
        }
        if (f.status == Outcome::debug_assert)
        {
            viols.push_back({f.bounds_key, "container bounds assertion: " + f.what});
        }
        else if (f.status == Outcome::unbounded)
        {
            flag("unbounded-sampling", m.family, "sampling did not finish (allocation-failure run)");
        }
        else if (f.status == Outcome::ok)
        {
            if (f.result.action != Action::failed)
                flag("alloc-failure",
                     m.family,
                     "stack had " + std::to_string(remaining) + " free slots but the interaction needs "
                         + std::to_string(allocated) + " and did not return Interaction::failed",
                     "not-failed");
            else
            {
                if (f.size_after != f.size_before)
                    flag("alloc-failure",
                         m.family,
                         "failed interaction left the allocator size changed ("
                             + std::to_string(f.size_before) + " -> " + std::to_string(f.size_after)
                             + "): partial emission",
                         "size");
                if (!f.sentinel_ok)
                    flag("alloc-failure", m.family, "failed interaction wrote a secondary slot", "write");
                if (!f.result.secondaries.empty() || f.result.energy_deposition.value() != 0)
                    flag("alloc-failure",
                         m.family,
                         "failed interaction reports secondaries or deposition",
                         "fields");
            }
        }
        if (!viols.empty())
        {
            emit(f, "alloc_failure", extra);
            return;
        }
        rep.held(m.name + "/allocfail/need" + std::to_string(std::min(allocated, 3u))
                 + (remaining ? "/partial-space" : "/no-space"));
    }
}

//---------------------------------------------------------------------------//
// Direct monitor of the shared final-state helper ExitingDirectionSampler
// (InteractionUtils.hh): the exiting direction must be a unit vector whose cosine to the
// incident direction is the requested polar cosine.
//   tolerance: 8u (from_spherical + normalisation) + sin(theta_s) * frame_axis_error(s_inc)
//              + |c| sin^2(theta_s) * frame_scale_error(s_inc)
void Harness::run_helper_case(u64 seed, u64 index)
{
    verif::Rng r(verif::mix_seed(verif::mix_seed(seed, fnv("exiting-direction-sampler")), index));
    CaseInput in;
    in.seed = seed;
    in.index = index;
    gen_direction(r, in);
    double c;
    std::string ckind;
    double t = r.uniform();
    if (t < 0.6)
    {
        c = r.uniform(-1, 1);
        ckind = "uniform";
    }
    else if (t < 0.7)
    {
        c = r.coin() ? 1.0 : -1.0;
        ckind = "pm1";
    }
    else if (t < 0.9)
    {
        double d = std::pow(10.0, r.uniform(-17, -1));
        c = r.coin() ? 1.0 - d : -1.0 + d;
        ckind = "near-pm1";
    }
    else
    {
        c = r.coin() ? verif::next_down(1.0, int(r.integer(1, 3)))
                     : verif::next_up(-1.0, int(r.integer(1, 3)));
        ckind = "ulp-pm1";
    }
    in.engine_seed = r.u64();
    in.stream_kind = r.coin() ? 0 : 2;
    HostileEngine eng = make_engine(in);
    Real3 out;
    try
    {
        out = ExitingDirectionSampler{c, in.dir}(eng);
    }
    catch (DebugError const& e)
    {
        rep.inconclusive("debug-assert: " + verif::describe(e));
        rep.observe("assert:" + verif::describe(e));
        return;
    }
    long double s_inc = hypotl(in.dir[0], in.dir[1]);
    // cosine to the *true* incident direction dir / |dir| (dir is only a soft unit vector)
    long double nrm = sqrtl((long double)in.dir[0] * in.dir[0] + (long double)in.dir[1] * in.dir[1]
                            + (long double)in.dir[2] * in.dir[2]);
    long double dot = ((long double)out[0] * in.dir[0] + (long double)out[1] * in.dir[1]
                       + (long double)out[2] * in.dir[2])
                      / nrm;
    long double sin_s = sqrtl(std::max(0.0L, 1 - (long double)c * c));
    long double tol = 8.0L * u_round + sin_s * frame_axis_error(in.dir)
                      + fabsl(c) * sin_s * sin_s * frame_scale_error(in.dir);
    json wj;
    wj["seed"] = seed;
    wj["model"] = "exiting-direction-sampler";
    wj["index"] = index;
    wj["costheta"] = hexd(c);
    wj["dir"] = json::array({in.dir[0], in.dir[1], in.dir[2]});
    wj["dir_hex"] = jvec3(in.dir);
    wj["dir_kind"] = in.dir_kind;
    wj["engine_seed"] = in.engine_seed;
    wj["result"] = jvec3(out);
    wj["dot"] = double(dot);
    std::string const branch = rotate_branch(in.dir);
    if (!soft_unit(out))
    {
        rep.violation("C04/validity-direction/exiting-direction-sampler/" + branch,
                      "exiting direction is not a unit vector",
                      wj);
        return;
    }
    if (debug_enabled() && fabsl(dot - c) > 0.5L * tol)
        std::fprintf(stderr,
                     "HELPER ratio=%.3Lg branch=%s c=%.17g dir=(%a,%a,%a) s_inc=%.3Lg err=%.3Lg tol=%.3Lg axis=%.3Lg\n",
                     fabsl(dot - c) / tol, branch.c_str(), c, in.dir[0], in.dir[1], in.dir[2], s_inc, dot - c, tol,
                     frame_axis_error(in.dir));
    if (fabsl(dot - c) <= tol)
        rep.observe_max("helper_dot_err_over_tol/" + branch, double(fabsl(dot - c) / tol));
    if (fabsl(dot - c) > tol)
    {
        char buf[200];
        std::snprintf(buf,
                      sizeof buf,
                      "cosine to the incident direction %.17Lg differs from the requested %.17g by "
                      "%.3Lg (tol %.3Lg), sin(theta_inc) = %.3Lg",
                      dot,
                      c,
                      dot - c,
                      tol,
                      s_inc);
        rep.violation("C04/polar-angle/exiting-direction-sampler/" + branch, buf, wj);
        return;
    }
    rep.held("exiting-direction-sampler/" + branch + "/" + ckind + "/" + in.dir_kind
             + (in.dir[1] < 0 ? "/y-" : "/y+"));
}


}  // namespace

//---------------------------------------------------------------------------//
int main(int argc, char** argv)
{
    auto args = verif::parse_args(argc, argv);
    if (args.property.empty())
        args.property = "C04";
    if (args.property != "C04")
    {
        std::cerr << "interact_engine serves C04 only\n";
        return 2;
    }
    verif::Report rep("C04", "interact", args);
    rep.set_rule(
        "case = (model, incident particle, energy, material [element, isotope, production cuts], "
        "incident direction, 32-bit word stream, stack prefill), generated from (seed, model, "
        "index). Energies: 79% log-uniform over the model's applicability interval [lo, hi) "
        "(lo = 1 eV where the model's lower limit is 0, hi = 1e8 MeV where it is unbounded), 10% "
        "interval end points / internal branch points +-1..2 ulp, 8% just above the production "
        "cut, 3% exactly 0 for e+ annihilation. Materials: 15 elements Z=1..98 x 12 production-cut "
        "levels (0, 0.1 eV .. 1 GeV, re-drawn per seed) + 3 compounds; directions: sphere, +-z "
        "poles, near-pole down to sin(theta)=1e-12, axes. Streams: 50% plain random, 50% "
        "adversarial (runs of 0x00000000 / 0xFFFFFFFF / alternating words spliced in or forced "
        "at the start). Every case with an allocation is re-run with fewer free stack slots than "
        "needed. Cell = model / energy decade / Z bucket / action+#secondaries(+cleared) / stream "
        "kind / variant, plus allocation-failure cells; a case is non-trivial when the interactor "
        "was sampled and every oracle (energy, momentum where applicable, validity, threshold, "
        "draws, allocator bookkeeping) was evaluated.");
    rep.assume("inputs satisfy each interactor's documented preconditions (CELER_EXPECT in "
               "constructors, positive Coulomb cross section, energy inside the SB table); cases "
               "that cannot are counted inconclusive");
    rep.assume("zero production cut is outside the domain of ionisation and bremsstrahlung "
               "models (their cross sections diverge); it is exercised for relaxation, Compton, "
               "Coulomb");
    rep.assume("Livermore PE / relaxation tables of Z=19, Seltzer-Berger tables of Z=29 and CHIPS "
               "cross-section files of Z=2/29 are served for every element (only these exist "
               "offline); the relations checked do not depend on the tabulated values");
    rep.assume("energy floor 1e-6 MeV for models whose applicability starts at 0 (except e+ "
               "annihilation at rest) and ceiling 1e8 MeV (detail::high_energy_limit) for "
               "models without an upper limit");

    std::string const variant = args.get("variant", "plain");
    u64 const nshards = std::max<u64>(1, std::strtoull(args.get("nshards", "1").c_str(), nullptr, 10));

    try
    {
        if (!args.replay.empty())
        {
            std::ifstream f(args.replay);
            json rj = json::parse(f);
            std::map<u64, std::unique_ptr<World>> worlds;
            for (auto const& wj : rj.at("witnesses"))
            {
                auto const& c = wj.at("case");
                u64 seed = c.at("seed").get<u64>();
                u64 index = c.at("index").get<u64>();
                std::string model = c.at("model").get<std::string>();
                auto& wp = worlds[seed];
                if (!wp)
                    wp = std::make_unique<World>(seed);
                Harness h(*wp, rep);
                if (model == "exiting-direction-sampler")
                    h.run_helper_case(seed, index);
                for (std::size_t i = 0; i < h.models.size(); ++i)
                    if (h.models[i].name == model)
                        h.run_case(int(i), seed, index);
            }
            return rep.finish();
        }

        World world(args.seed);
        Harness h(world, rep);
        rep.note("cut_levels_MeV", world.cut_levels);
        rep.note("sb_table_min_energy", world.sb_min_energy);
        rep.note("relax_max_secondary", world.relax_max_secondary);
        rep.note("num_materials", world.mats.size());
        u64 n = std::max<u64>(1, args.budget(20000, 5000000) / nshards);
        if (args.has("n"))
            n = std::strtoull(args.get("n").c_str(), nullptr, 10);
        std::string only = args.get("model", "");
        for (std::size_t mi = 0; mi < h.models.size(); ++mi)
        {
            if (!only.empty() && h.models[mi].name != only)
                continue;
            for (u64 i = 0; i < n; ++i)
                h.run_case(int(mi), args.seed, i);
        }
        if (only.empty() || only == "exiting-direction-sampler")
        {
            for (u64 i = 0; i < n; ++i)
                h.run_helper_case(args.seed, i);
        }
        rep.note("models", [&] {
            json a = json::array();
            for (auto const& m : h.models)
                a.push_back(m.name);
            return a;
        }());
        rep.note("cases_per_model", n);
    }
    catch (std::exception const& e)
    {
        std::cerr << "harness failure: " << e.what() << "\n";
        return 2;
    }
    return rep.finish();
}
