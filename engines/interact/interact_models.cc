// Engine `interact`: one invoker per interactor.  Each mirrors the executor in
// src/celeritas/em/executor/*.hh (or neutron/executor) line by line, with the views taken
// from Ctx instead of CoreTrackView.
#include "interact_world.hh"

#include "celeritas/em/distribution/BetheBlochEnergyDistribution.hh"
#include "celeritas/em/distribution/BraggICRU73QOEnergyDistribution.hh"
#include "celeritas/em/distribution/MuBBEnergyDistribution.hh"
#include "celeritas/em/interactor/AtomicRelaxationHelper.hh"
#include "celeritas/em/interactor/BetheHeitlerInteractor.hh"
#include "celeritas/em/interactor/CombinedBremInteractor.hh"
#include "celeritas/em/interactor/CoulombScatteringInteractor.hh"
#include "celeritas/em/interactor/EPlusGGInteractor.hh"
#include "celeritas/em/interactor/KleinNishinaInteractor.hh"
#include "celeritas/em/interactor/LivermorePEInteractor.hh"
#include "celeritas/em/interactor/MollerBhabhaInteractor.hh"
#include "celeritas/em/interactor/MuBremsstrahlungInteractor.hh"
#include "celeritas/em/interactor/MuHadIonizationInteractor.hh"
#include "celeritas/em/interactor/RayleighInteractor.hh"
#include "celeritas/em/interactor/RelativisticBremInteractor.hh"
#include "celeritas/em/interactor/SeltzerBergerInteractor.hh"
#include "celeritas/em/model/BetheBlochModel.hh"
#include "celeritas/em/model/BetheHeitlerModel.hh"
#include "celeritas/em/model/BraggModel.hh"
#include "celeritas/em/model/CombinedBremModel.hh"
#include "celeritas/em/model/CoulombScatteringModel.hh"
#include "celeritas/em/model/EPlusGGModel.hh"
#include "celeritas/em/model/ICRU73QOModel.hh"
#include "celeritas/em/model/KleinNishinaModel.hh"
#include "celeritas/em/model/LivermorePEModel.hh"
#include "celeritas/em/model/MollerBhabhaModel.hh"
#include "celeritas/em/model/MuBetheBlochModel.hh"
#include "celeritas/em/model/MuBremsstrahlungModel.hh"
#include "celeritas/em/model/RayleighModel.hh"
#include "celeritas/em/model/RelativisticBremModel.hh"
#include "celeritas/em/model/SeltzerBergerModel.hh"
#include "celeritas/em/params/AtomicRelaxationParams.hh"
#include "celeritas/em/params/WentzelOKVIParams.hh"
#include "celeritas/em/xs/WentzelHelper.hh"
#include "celeritas/mat/ElementView.hh"
#include "celeritas/mat/IsotopeView.hh"
#include "celeritas/neutron/interactor/ChipsNeutronElasticInteractor.hh"
#include "celeritas/neutron/model/ChipsNeutronElasticModel.hh"

namespace iv
{
using verif::HostileEngine;

Interaction invoke_kn(Ctx& c, HostileEngine& rng)
{
    KleinNishinaInteractor interact(c.w.kn->host_ref(), c.particle, c.dir, c.alloc);
    return interact(rng);
}

Interaction invoke_pe(Ctx& c, HostileEngine& rng)
{
    // PhysicsStepView::make_relaxation_helper: params.hardwired.relaxation_data (empty
    // when relaxation is disabled) + per-track scratch
    static AtomicRelaxParamsRef const no_params{};
    static AtomicRelaxStateRef const no_state{};
    AtomicRelaxParamsRef const& rp = c.variant == 0   ? no_params
                                     : c.variant == 1 ? c.w.relax_fluor->host_ref()
                                                      : c.w.relax_auger->host_ref();
    AtomicRelaxStateRef const& rs = c.variant == 0   ? no_state
                                    : c.variant == 1 ? c.w.relax_state_fluor->ref()
                                                     : c.w.relax_state_auger->ref();
    AtomicRelaxationHelper relaxation(rp, rs, c.el, TrackSlotId{0});
    LivermorePEInteractor interact(
        c.w.pe->host_ref(), relaxation, c.el, c.particle, c.cutoffs, c.dir, c.alloc);
    return interact(rng);
}

Interaction invoke_rayleigh(Ctx& c, HostileEngine& rng)
{
    RayleighInteractor interact(c.w.rayleigh->host_ref(), c.particle, c.dir, c.el);
    return interact(rng);
}

Interaction invoke_bh(Ctx& c, HostileEngine& rng)
{
    auto element = c.material.make_element_view(c.elcomp);
    auto const& data = (c.variant == 0 ? c.w.bh : c.w.bh_lpm)->host_ref();
    BetheHeitlerInteractor interact(
        data, c.particle, c.dir, c.alloc, c.material, element);
    return interact(rng);
}

Interaction invoke_eplusgg(Ctx& c, HostileEngine& rng)
{
    EPlusGGInteractor interact(c.w.eplusgg->host_ref(), c.particle, c.dir, c.alloc);
    return interact(rng);
}

Interaction invoke_mb(Ctx& c, HostileEngine& rng)
{
    MollerBhabhaInteractor interact(
        c.w.mb->host_ref(), c.particle, c.cutoffs, c.dir, c.alloc);
    return interact(rng);
}

Interaction invoke_sb(Ctx& c, HostileEngine& rng)
{
    SeltzerBergerInteractor interact(c.w.sb->host_ref(),
                                     c.particle,
                                     c.dir,
                                     c.cutoffs,
                                     c.alloc,
                                     c.material,
                                     c.elcomp);
    return interact(rng);
}

Interaction invoke_rb(Ctx& c, HostileEngine& rng)
{
    auto const& data = (c.variant == 0 ? c.w.rb : c.w.rb_lpm)->host_ref();
    RelativisticBremInteractor interact(
        data, c.particle, c.dir, c.cutoffs, c.alloc, c.material, c.elcomp);
    return interact(rng);
}

Interaction invoke_cb(Ctx& c, HostileEngine& rng)
{
    CombinedBremInteractor interact(c.w.cb->host_ref(),
                                    c.particle,
                                    c.dir,
                                    c.cutoffs,
                                    c.alloc,
                                    c.material,
                                    c.elcomp);
    return interact(rng);
}

std::string precondition_coulomb(Ctx& c)
{
    // The process is only selected where its cross section is positive; the sampler
    // documents (BernoulliDistribution) that electron + nuclear xs must not both vanish.
    auto const& wentzel = c.w.wentzel[c.variant]->host_ref();
    auto const& data = c.w.coulomb->host_ref();
    ElementView element = c.material.make_element_view(c.elcomp);
    IsotopeView target = element.make_isotope_view(c.isocomp);
    WentzelHelper helper(c.particle,
                         c.material,
                         target.atomic_number(),
                         wentzel,
                         data.ids,
                         c.cutoffs.energy(data.ids.electron));
    real_type cmin = helper.cos_thetamax_nuclear();
    real_type cmax = data.cos_thetamax();
    if (!(helper.screening_coefficient() > 0))
        return "screening coefficient not positive";
    if (!(cmax <= cmin))
        return "cos_thetamax > cos_thetamin";
    real_type xe = helper.calc_xs_electron(cmin, cmax);
    real_type xn = helper.calc_xs_nuclear(cmin, cmax);
    if (!(xe >= 0 && xn >= 0 && (xe > 0 || xn > 0)))
        return "zero Coulomb cross section";
    return {};
}

Interaction invoke_coulomb(Ctx& c, HostileEngine& rng)
{
    auto const& wentzel = c.w.wentzel[c.variant]->host_ref();
    ElementView element = c.material.make_element_view(c.elcomp);
    IsotopeView target = element.make_isotope_view(c.isocomp);
    c.target_mass = target.nuclear_mass().value();
    CoulombScatteringInteractor interact(c.w.coulomb->host_ref(),
                                         wentzel,
                                         c.particle,
                                         c.dir,
                                         c.material,
                                         target,
                                         c.el,
                                         c.cutoffs);
    return interact(rng);
}

namespace
{
template<class ES>
std::string muhad_precondition(Ctx& c, MuHadIonizationData const& data)
{
    ES es(c.particle, c.cutoffs.energy(data.electron), data.electron_mass);
    if (!(es.min_secondary_energy().value() > 0))
        return "zero minimum secondary energy";
    if (!(c.particle.energy() > es.min_secondary_energy()))
        return "incident energy not above minimum secondary energy";
    return {};
}

template<class ES>
Interaction muhad(Ctx& c, MuHadIonizationData const& data, HostileEngine& rng)
{
    {
        // The model's own production threshold, as declared by its energy sampler
        ES es(c.particle, c.cutoffs.energy(data.electron), data.electron_mass);
        c.declared_threshold = es.min_secondary_energy().value();
    }
    MuHadIonizationInteractor<ES> interact(
        data, c.particle, c.cutoffs, c.dir, c.alloc);
    return interact(rng);
}
}  // namespace

std::string precondition_muhad(Ctx& c, int which)
{
    switch (which)
    {
        case 0:
            return muhad_precondition<BraggICRU73QOEnergyDistribution>(
                c, c.w.bragg->host_ref());
        case 1:
            return muhad_precondition<BetheBlochEnergyDistribution>(
                c, c.w.bethe_bloch->host_ref());
        default:
            return muhad_precondition<MuBBEnergyDistribution>(c,
                                                              c.w.mu_bb->host_ref());
    }
}

Interaction invoke_bragg(Ctx& c, HostileEngine& rng)
{
    return muhad<BraggICRU73QOEnergyDistribution>(c, c.w.bragg->host_ref(), rng);
}
Interaction invoke_icru(Ctx& c, HostileEngine& rng)
{
    return muhad<BraggICRU73QOEnergyDistribution>(c, c.w.icru->host_ref(), rng);
}
Interaction invoke_bethe_bloch(Ctx& c, HostileEngine& rng)
{
    return muhad<BetheBlochEnergyDistribution>(c, c.w.bethe_bloch->host_ref(), rng);
}
Interaction invoke_mu_bb(Ctx& c, HostileEngine& rng)
{
    return muhad<MuBBEnergyDistribution>(c, c.w.mu_bb->host_ref(), rng);
}

Interaction invoke_mu_brems(Ctx& c, HostileEngine& rng)
{
    MuBremsstrahlungInteractor interact(c.w.mu_brems->host_ref(),
                                        c.particle,
                                        c.dir,
                                        c.cutoffs,
                                        c.alloc,
                                        c.material,
                                        c.elcomp);
    return interact(rng);
}

Interaction invoke_chips(Ctx& c, HostileEngine& rng)
{
    ElementView element = c.material.make_element_view(c.elcomp);
    IsotopeView target = element.make_isotope_view(c.isocomp);
    c.target_mass = target.nuclear_mass().value();
    ChipsNeutronElasticInteractor interact(
        c.w.chips->host_ref(), c.particle, c.dir, target);
    return interact(rng);
}

}  // namespace iv
