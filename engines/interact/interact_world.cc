// Engine `interact`: construction of the production Params / Model objects from synthetic
// imported data (the way each Process::build_models would, see src/celeritas/em/process).
#include "interact_world.hh"

#include <cmath>
#include <cstdlib>

#include "corecel/io/Logger.hh"
#include "celeritas/Constants.hh"
#include "celeritas/em/model/BetheBlochModel.hh"
#include "celeritas/em/model/BetheHeitlerModel.hh"
#include "celeritas/em/model/BraggModel.hh"
#include "celeritas/em/model/CombinedBremModel.hh"
#include "celeritas/em/model/CoulombScatteringModel.hh"
#include "celeritas/em/model/EPlusGGModel.hh"
#include "celeritas/em/model/ICRU73QOModel.hh"
#include "celeritas/em/model/KleinNishinaModel.hh"
#include "celeritas/em/model/LivermorePEModel.hh"
#include "celeritas/em/model/MollerBhabhaModel.hh"
#include "celeritas/em/model/MuBetheBlochModel.hh"
#include "celeritas/em/model/MuBremsstrahlungModel.hh"
#include "celeritas/em/model/RayleighModel.hh"
#include "celeritas/em/model/RelativisticBremModel.hh"
#include "celeritas/em/model/SeltzerBergerModel.hh"
#include "celeritas/em/params/AtomicRelaxationParams.hh"
#include "celeritas/em/params/WentzelOKVIParams.hh"
#include "celeritas/io/AtomicRelaxationReader.hh"
#include "celeritas/io/ImportProcess.hh"
#include "celeritas/io/LivermorePEReader.hh"
#include "celeritas/io/NeutronXsReader.hh"
#include "celeritas/io/SeltzerBergerReader.hh"
#include "celeritas/mat/MaterialParams.hh"
#include "celeritas/neutron/model/ChipsNeutronElasticModel.hh"
#include "celeritas/phys/CutoffParams.hh"
#include "celeritas/phys/ImportedProcessAdapter.hh"
#include "celeritas/phys/PDGNumber.hh"
#include "celeritas/phys/ParticleParams.hh"

namespace iv
{
namespace
{
ImportProcess make_import_process(int pdg,
                                  int secondary,
                                  ImportProcessClass ipc,
                                  std::vector<ImportModelClass> models,
                                  std::size_t num_materials,
                                  double elo,
                                  double ehi)
{
    ImportProcess result;
    result.particle_pdg = pdg;
    result.secondary_pdg = secondary;
    result.process_type = ImportProcessType::electromagnetic;
    result.process_class = ipc;
    for (auto mcls : models)
    {
        ImportModel m;
        m.model_class = mcls;
        m.materials.resize(num_materials);
        for (ImportModelMaterial& imm : m.materials)
        {
            imm.energy = {elo, ehi};
        }
        result.models.push_back(std::move(m));
    }
    return result;
}
}  // namespace

World::~World() = default;

World::World(std::uint64_t seed)
{
    using namespace units;
    using constants::stable_decay_constant;
    constexpr auto zero = zero_quantity();

    self_logger().level(LogLevel::error);
    world_logger().level(LogLevel::error);

    char const* repo = std::getenv("VERIF_REPO");
    data_dir = std::string(repo ? repo : "/repo") + "/test/celeritas/data/";

    //// PARTICLES ////
    {
        ParticleParams::Input in = {
            {"gamma", pdg::gamma(), zero, zero, stable_decay_constant},
            {"electron",
             pdg::electron(),
             MevMass{0.5109989461},
             ElementaryCharge{-1},
             stable_decay_constant},
            {"positron",
             pdg::positron(),
             MevMass{0.5109989461},
             ElementaryCharge{1},
             stable_decay_constant},
            {"mu_minus",
             pdg::mu_minus(),
             MevMass{105.6583745},
             ElementaryCharge{-1},
             stable_decay_constant},
            {"mu_plus",
             pdg::mu_plus(),
             MevMass{105.6583745},
             ElementaryCharge{1},
             stable_decay_constant},
            {"neutron",
             pdg::neutron(),
             MevMass{939.5654133},
             zero,
             stable_decay_constant},
            {"proton",
             pdg::proton(),
             MevMass{938.272013},
             ElementaryCharge{1},
             stable_decay_constant},
        };
        particles = std::make_shared<ParticleParams>(std::move(in));
        gamma = particles->find(pdg::gamma());
        electron = particles->find(pdg::electron());
        positron = particles->find(pdg::positron());
        mu_minus = particles->find(pdg::mu_minus());
        mu_plus = particles->find(pdg::mu_plus());
        neutron = particles->find(pdg::neutron());
        proton = particles->find(pdg::proton());
        electron_mass = particles->get(electron).mass().value();
        muon_mass = particles->get(mu_minus).mass().value();
        neutron_mass = particles->get(neutron).mass().value();
        proton_mass = particles->get(proton).mass().value();
    }

    //// PRODUCTION-CUT LEVELS (seed dependent) ////
    verif::Rng rng(verif::mix_seed(seed, 0xC04C07ull));
    {
        // 0, then one value per decade band from 0.1 eV up to beyond any incident energy
        double const lo[] = {1e-7, 1e-6, 1e-5, 1e-4, 1e-3, 1e-2, 0.1, 1, 10, 1e3, 1e5};
        double const hi[] = {1e-6, 1e-5, 1e-4, 1e-3, 1e-2, 0.1, 1, 10, 1e3, 1e5, 1e9};
        cut_levels.push_back(0.0);
        for (int i = 0; i < 11; ++i)
        {
            cut_levels.push_back(rng.loguniform(lo[i], hi[i]));
        }
    }
    int const nlev = int(cut_levels.size());  // 12

    //// MATERIALS ////
    struct El
    {
        int z;
        double mass;
        char const* name;
    };
    static El const els[] = {{1, 1.008, "H"},
                             {2, 4.0026, "He"},
                             {4, 9.0122, "Be"},
                             {6, 12.011, "C"},
                             {8, 15.999, "O"},
                             {13, 26.982, "Al"},
                             {19, 39.0983, "K"},
                             {26, 55.845, "Fe"},
                             {29, 63.546, "Cu"},
                             {47, 107.87, "Ag"},
                             {64, 157.25, "Gd"},
                             {74, 183.84, "W"},
                             {82, 207.2, "Pb"},
                             {92, 238.03, "U"},
                             {98, 251.08, "Cf"}};  // MaterialParams supports Z <= 98 (mean excitation energies)
    int const nel = int(sizeof(els) / sizeof(els[0]));
    {
        MaterialParams::Input in;
        double const mp = 938.272013, mn = 939.5654133;
        for (int e = 0; e < nel; ++e)
        {
            int a0 = std::max(1, int(std::lround(els[e].mass)));
            std::vector<std::pair<IsotopeId, real_type>> fr;
            for (int k = 0; k < 2; ++k)
            {
                int a = a0 + k;
                double be = (a == 1) ? 0.0 : (a <= 4 ? 2.2 * (a - 1) * (a - 1) : 8.0 * a);
                MaterialParams::IsotopeInput iso;
                iso.atomic_number = AtomicNumber{els[e].z};
                iso.atomic_mass_number = AtomicNumber{a};
                iso.binding_energy = MevEnergy{be};
                iso.proton_loss_energy = MevEnergy{a == 1 ? 0.0 : 7.0};
                iso.neutron_loss_energy = MevEnergy{a == 1 ? 0.0 : 8.0};
                iso.nuclear_mass = MevMass{els[e].z * mp + (a - els[e].z) * mn - be};
                iso.label = Label{std::to_string(a) + els[e].name};
                fr.push_back({IsotopeId{IsotopeId::size_type(in.isotopes.size())},
                              k == 0 ? 0.7 : 0.3});
                in.isotopes.push_back(std::move(iso));
            }
            in.elements.push_back({AtomicNumber{els[e].z},
                                   AmuMass{els[e].mass},
                                   fr,
                                   Label{els[e].name}});
        }
        double const dens[] = {0.141, 1e-5, 0.05477, 1.0};  // mol/cm^3
        auto add_mat = [&](std::vector<std::pair<ElementId, real_type>> comp,
                           std::string const& name,
                           int lev) {
            MatInfo mi;
            mi.id = MaterialId{MaterialId::size_type(in.materials.size())};
            for (auto const& c : comp)
                mi.z.push_back(els[c.first.get()].z);
            mi.level_gamma = lev;
            mi.level_electron = (lev * 5 + 3) % nlev;  // permutation (gcd(5,12)=1)
            mi.cut_gamma = cut_levels[mi.level_gamma];
            mi.cut_electron = cut_levels[mi.level_electron];
            MaterialParams::MaterialInput m;
            m.number_density = native_value_from(
                MolCcDensity{dens[(in.materials.size() * 7 + lev) % 4]});
            m.temperature = 293.0;
            m.matter_state = MatterState::solid;
            m.elements_fractions = std::move(comp);
            m.label = Label{name + "_L" + std::to_string(lev)};
            in.materials.push_back(std::move(m));
            mats.push_back(std::move(mi));
        };
        for (int e = 0; e < nel; ++e)
            for (int l = 0; l < nlev; ++l)
                add_mat({{ElementId{ElementId::size_type(e)}, 1.0}}, els[e].name, l);
        for (int l = 0; l < nlev; ++l)
        {
            add_mat({{ElementId{4}, 0.5}, {ElementId{11}, 0.3}, {ElementId{12}, 0.2}},
                    "PbWO",
                    l);
            add_mat({{ElementId{0}, 2.0 / 3}, {ElementId{4}, 1.0 / 3}}, "H2O", l);
            add_mat({{ElementId{3}, 0.2}, {ElementId{7}, 0.5}, {ElementId{14}, 0.3}},
                    "CFeCf",
                    l);
        }
        materials = std::make_shared<MaterialParams>(in);
        for (auto& mi : mats)
            mi.electron_density = materials->get(mi.id).electron_density();
    }

    //// CUTOFFS ////
    {
        CutoffParams::Input in;
        in.materials = materials;
        in.particles = particles;
        CutoffParams::MaterialCutoffs cg, ce, cp;
        for (auto const& mi : mats)
        {
            cg.push_back({MevEnergy{mi.cut_gamma}, 0.07});
            ce.push_back({MevEnergy{mi.cut_electron}, 0.07});
            cp.push_back({MevEnergy{mi.cut_electron}, 0.07});
        }
        in.cutoffs.insert({pdg::gamma(), cg});
        in.cutoffs.insert({pdg::electron(), ce});
        in.cutoffs.insert({pdg::positron(), cp});
        cutoffs = std::make_shared<CutoffParams>(in);
    }

    //// IMPORTED PROCESS STUBS (only the keys and energy bounds are used) ////
    {
        using IPC = ImportProcessClass;
        using IMC = ImportModelClass;
        std::size_t nm = mats.size();
        std::vector<ImportProcess> v;
        v.push_back(make_import_process(
            22, 0, IPC::rayleigh, {IMC::livermore_rayleigh}, nm, 1e-4, 1e8));
        v.push_back(make_import_process(
            22, 11, IPC::conversion, {IMC::bethe_heitler_lpm}, nm, 1.022, 1e8));
        for (int p : {11, -11})
        {
            v.push_back(make_import_process(
                p, 22, IPC::e_brems, {IMC::e_brems_sb, IMC::e_brems_lpm}, nm, 1e-4, 1e8));
            // Lower bound of the Coulomb single-scattering grid: 1 keV (the
            // library default lowest electron energy); upper = high_energy_limit
            v.push_back(make_import_process(
                p, 0, IPC::coulomb_scat, {IMC::e_coulomb_scattering}, nm, 1e-3, 1e8));
        }
        for (int p : {13, -13})
        {
            v.push_back(
                make_import_process(p, 22, IPC::mu_brems, {IMC::mu_brems}, nm, 1e-4, 1e8));
        }
        imported = std::make_shared<ImportedProcesses>(std::move(v));
    }

    //// MODELS ////
    ActionId::size_type aid = 0;
    auto next_id = [&aid] { return ActionId{aid++}; };

    kn = std::make_shared<KleinNishinaModel>(next_id(), *particles);
    {
        // Livermore data exist offline for Z=19 only: serve it for every element
        LivermorePEReader read_pe(data_dir.c_str());
        pe = std::make_shared<LivermorePEModel>(
            next_id(), *particles, *materials, [read_pe](AtomicNumber) {
                return read_pe(AtomicNumber{19});
            });
    }
    rayleigh
        = std::make_shared<RayleighModel>(next_id(), *particles, *materials, imported);
    bh = std::make_shared<BetheHeitlerModel>(next_id(), *particles, imported, false);
    bh_lpm = std::make_shared<BetheHeitlerModel>(next_id(), *particles, imported, true);
    eplusgg = std::make_shared<EPlusGGModel>(next_id(), *particles);
    mb = std::make_shared<MollerBhabhaModel>(next_id(), *particles);
    {
        // Seltzer-Berger tables exist offline for Z=29 only: serve for every element
        SeltzerBergerReader read_sb(data_dir.c_str());
        auto load = [read_sb](AtomicNumber) { return read_sb(AtomicNumber{29}); };
        sb = std::make_shared<SeltzerBergerModel>(
            next_id(), *particles, *materials, imported, load);
        cb = std::make_shared<CombinedBremModel>(
            next_id(), *particles, *materials, imported, load, true);
    }
    rb = std::make_shared<RelativisticBremModel>(
        next_id(), *particles, *materials, imported, false);
    rb_lpm = std::make_shared<RelativisticBremModel>(
        next_id(), *particles, *materials, imported, true);
    coulomb = std::make_shared<CoulombScatteringModel>(
        next_id(), *particles, *materials, imported);
    {
        // As MuIonizationProcess::build_models (+ proton for the hadron case)
        Applicability mm, mp, pp;
        mm.particle = mu_minus;
        mm.lower = zero_quantity();
        mm.upper = MevEnergy{0.2};
        mp = mm;
        mp.particle = mu_plus;
        pp = mm;
        pp.particle = proton;
        pp.upper = MevEnergy{2.0};
        icru = std::make_shared<ICRU73QOModel>(
            next_id(), *particles, Model::SetApplicability{mm});
        bragg = std::make_shared<BraggModel>(
            next_id(), *particles, Model::SetApplicability{mp, pp});
        mm.lower = mm.upper;
        mm.upper = MevEnergy{1e3};
        mp.lower = mm.lower;
        mp.upper = mm.upper;
        pp.lower = pp.upper;
        pp.upper = MevEnergy{1e8};
        bethe_bloch = std::make_shared<BetheBlochModel>(
            next_id(), *particles, Model::SetApplicability{mm, mp, pp});
        mm.lower = mm.upper;
        mm.upper = MevEnergy{1e8};
        mp.lower = mm.lower;
        mp.upper = mm.upper;
        mu_bb = std::make_shared<MuBetheBlochModel>(
            next_id(), *particles, Model::SetApplicability{mm, mp});
    }
    mu_brems = std::make_shared<MuBremsstrahlungModel>(next_id(), *particles, imported);
    {
        // CHIPS: cross section files el2 / el29 exist offline; the interactor only uses
        // the A-dependent coefficients, the micro xs grid is loaded as the model requires
        NeutronXsReader read_el(NeutronXsType::el, data_dir.c_str());
        chips = std::make_shared<ChipsNeutronElasticModel>(
            next_id(), *particles, *materials, [read_el](AtomicNumber z) {
                return read_el(AtomicNumber{z.get() <= 2 ? 2 : 29});
            });
    }

    //// ATOMIC RELAXATION ////
    {
        AtomicRelaxationReader read_relax(data_dir.c_str(), data_dir.c_str());
        AtomicRelaxationParams::Input in;
        in.cutoffs = cutoffs;
        in.materials = materials;
        in.particles = particles;
        in.load_data
            = [read_relax](AtomicNumber) { return read_relax(AtomicNumber{19}); };
        in.is_auger_enabled = false;
        relax_fluor = std::make_shared<AtomicRelaxationParams>(in);
        in.is_auger_enabled = true;
        relax_auger = std::make_shared<AtomicRelaxationParams>(in);
        relax_state_fluor = std::make_unique<RelaxStore>(relax_fluor->host_ref(), 1);
        relax_state_auger = std::make_unique<RelaxStore>(relax_auger->host_ref(), 1);
        for (auto const* p : {relax_fluor.get(), relax_auger.get()})
        {
            auto const& ref = p->host_ref();
            for (auto i : range(ElementId{ref.elements.size()}))
            {
                relax_max_secondary = std::max<unsigned>(relax_max_secondary,
                                                         ref.elements[i].max_secondary);
            }
        }
    }

    //// WENTZEL OK&VI ////
    {
        auto add = [&](bool combined, double limit, NuclearFormFactorType ff, char const* l) {
            WentzelOKVIParams::Options o;
            o.is_combined = combined;
            o.polar_angle_limit = limit;
            o.form_factor = ff;
            wentzel.push_back(std::make_shared<WentzelOKVIParams>(materials, o));
            wentzel_label.push_back(l);
        };
        add(false, 0, NuclearFormFactorType::exponential, "ss-exp");
        add(false, 0, NuclearFormFactorType::gaussian, "ss-gauss");
        add(false, 0, NuclearFormFactorType::flat, "ss-flat");
        add(false, 0, NuclearFormFactorType::none, "ss-none");
        add(true, constants::pi, NuclearFormFactorType::exponential, "comb-pi");
        add(true, 0.2, NuclearFormFactorType::exponential, "comb-0.2");
    }

    //// DERIVED INFO ////
    {
        auto const& t = sb->host_ref().differential_xs;
        auto const& g = t.elements[ElementId{0}].grid;
        sb_min_energy = std::exp(t.reals[g.x.front()]);
    }
    {
        auto const& xs = pe->host_ref().xs;
        auto const& el = xs.elements[ElementId{0}];
        pe_special.push_back(el.thresh_lo.value());
        pe_special.push_back(el.thresh_hi.value());
        for (auto const& sh : xs.shells[el.shells])
            pe_special.push_back(sh.binding_energy.value());
    }

    //// STATE ////
    pstate = std::make_unique<ParticleStore>(particles->host_ref(), 1);
    stack_capacity = std::max(32u, 2 * (relax_max_secondary + 1) + 8);
    stack = std::make_unique<StackStore>(stack_capacity);
}

}  // namespace iv
