// Engine `interact` (property C04): shared declarations.
//
// The "world" holds the production Params/Model objects built from synthetic imported
// data (no Geant4/ROOT): particles, a material table (15 elements x 12 production-cut
// levels + compounds), CutoffParams, every EM Model + the CHIPS neutron elastic model,
// atomic relaxation params, Wentzel OK&VI params, and the per-track state stores an
// executor would get from CoreTrackView (particle state, secondary stack, relaxation
// scratch).
#pragma once

#include <cstdint>
#include <memory>
#include <string>
#include <vector>

#include "corecel/cont/Array.hh"
#include "corecel/data/CollectionStateStore.hh"
#include "corecel/data/StackAllocator.hh"
#include "corecel/data/StackAllocatorData.hh"
#include "celeritas/Quantities.hh"
#include "celeritas/Types.hh"
#include "celeritas/em/data/AtomicRelaxationData.hh"
#include "celeritas/mat/MaterialView.hh"
#include "celeritas/phys/CutoffView.hh"
#include "celeritas/phys/Interaction.hh"
#include "celeritas/phys/ParticleData.hh"
#include "celeritas/phys/ParticleTrackView.hh"
#include "celeritas/phys/Secondary.hh"

#include "verif_celer.hh"

namespace celeritas
{
class ParticleParams;
class MaterialParams;
class CutoffParams;
class ImportedProcesses;
class AtomicRelaxationParams;
class WentzelOKVIParams;
class KleinNishinaModel;
class LivermorePEModel;
class RayleighModel;
class BetheHeitlerModel;
class EPlusGGModel;
class MollerBhabhaModel;
class SeltzerBergerModel;
class RelativisticBremModel;
class CombinedBremModel;
class CoulombScatteringModel;
class BetheBlochModel;
class BraggModel;
class ICRU73QOModel;
class MuBetheBlochModel;
class MuBremsstrahlungModel;
class ChipsNeutronElasticModel;
}  // namespace celeritas

namespace iv
{
using namespace celeritas;

template<Ownership W, MemSpace M>
using SecStackData = StackAllocatorData<Secondary, W, M>;

//---------------------------------------------------------------------------//
struct MatInfo
{
    MaterialId id;
    std::vector<int> z;  // atomic numbers of the components
    double cut_gamma{0};  // [MeV]
    double cut_electron{0};  // [MeV]
    double electron_density{0};  // native units
    int level_gamma{0}, level_electron{0};
};

struct IsoInfo
{
    int z, a;
    double nuclear_mass;
};

//---------------------------------------------------------------------------//
struct World
{
    explicit World(std::uint64_t seed);
    ~World();

    std::string data_dir;

    std::shared_ptr<ParticleParams> particles;
    std::shared_ptr<MaterialParams> materials;
    std::shared_ptr<CutoffParams> cutoffs;
    std::shared_ptr<ImportedProcesses> imported;

    std::shared_ptr<KleinNishinaModel> kn;
    std::shared_ptr<LivermorePEModel> pe;
    std::shared_ptr<RayleighModel> rayleigh;
    std::shared_ptr<BetheHeitlerModel> bh, bh_lpm;
    std::shared_ptr<EPlusGGModel> eplusgg;
    std::shared_ptr<MollerBhabhaModel> mb;
    std::shared_ptr<SeltzerBergerModel> sb;
    std::shared_ptr<RelativisticBremModel> rb, rb_lpm;
    std::shared_ptr<CombinedBremModel> cb;
    std::shared_ptr<CoulombScatteringModel> coulomb;
    std::shared_ptr<BraggModel> bragg;
    std::shared_ptr<ICRU73QOModel> icru;
    std::shared_ptr<BetheBlochModel> bethe_bloch;
    std::shared_ptr<MuBetheBlochModel> mu_bb;
    std::shared_ptr<MuBremsstrahlungModel> mu_brems;
    std::shared_ptr<ChipsNeutronElasticModel> chips;

    std::shared_ptr<AtomicRelaxationParams> relax_fluor, relax_auger;
    std::vector<std::shared_ptr<WentzelOKVIParams>> wentzel;
    std::vector<std::string> wentzel_label;

    ParticleId gamma, electron, positron, mu_minus, mu_plus, neutron, proton;
    double electron_mass{0}, muon_mass{0}, neutron_mass{0}, proton_mass{0};

    std::vector<MatInfo> mats;
    std::vector<double> cut_levels;
    double sb_min_energy{0};  // lowest incident energy of the Seltzer-Berger table
    std::vector<double> pe_special;  // PE shell binding energies + fit thresholds
    unsigned relax_max_secondary{0};

    // Per-"track" state
    using ParticleStore = CollectionStateStore<ParticleStateData, MemSpace::host>;
    using StackStore = CollectionStateStore<SecStackData, MemSpace::host>;
    using RelaxStore = CollectionStateStore<AtomicRelaxStateData, MemSpace::host>;
    std::unique_ptr<ParticleStore> pstate;
    std::unique_ptr<StackStore> stack;
    std::unique_ptr<RelaxStore> relax_state_fluor, relax_state_auger;
    unsigned stack_capacity{0};
};

//---------------------------------------------------------------------------//
// Everything an executor hands to an interactor
struct Ctx
{
    World const& w;
    ParticleTrackView particle;
    Real3 dir;
    MaterialView material;
    ElementComponentId elcomp;
    ElementId el;
    IsotopeComponentId isocomp;
    CutoffView cutoffs;
    StackAllocator<Secondary>& alloc;
    int variant{0};

    // Filled by the invoker (declared by the production code for this case)
    double declared_threshold{-1};  // model's own minimum secondary energy [MeV]
    double target_mass{0};  // nuclear mass of the selected target isotope [MeV]
};

using InvokeFn = Interaction (*)(Ctx&, verif::HostileEngine&);

// Invokers: construct the interactor exactly like the corresponding executor in
// src/celeritas/em/executor (or neutron/executor) and sample once.
Interaction invoke_kn(Ctx&, verif::HostileEngine&);
Interaction invoke_pe(Ctx&, verif::HostileEngine&);  // variant 0 none, 1 fluor, 2 +auger
Interaction invoke_rayleigh(Ctx&, verif::HostileEngine&);
Interaction invoke_bh(Ctx&, verif::HostileEngine&);  // variant 0 no LPM, 1 LPM
Interaction invoke_eplusgg(Ctx&, verif::HostileEngine&);
Interaction invoke_mb(Ctx&, verif::HostileEngine&);
Interaction invoke_sb(Ctx&, verif::HostileEngine&);
Interaction invoke_rb(Ctx&, verif::HostileEngine&);  // variant 0 no LPM, 1 LPM
Interaction invoke_cb(Ctx&, verif::HostileEngine&);
Interaction invoke_coulomb(Ctx&, verif::HostileEngine&);  // variant = wentzel index
Interaction invoke_bragg(Ctx&, verif::HostileEngine&);
Interaction invoke_icru(Ctx&, verif::HostileEngine&);
Interaction invoke_bethe_bloch(Ctx&, verif::HostileEngine&);
Interaction invoke_mu_bb(Ctx&, verif::HostileEngine&);
Interaction invoke_mu_brems(Ctx&, verif::HostileEngine&);
Interaction invoke_chips(Ctx&, verif::HostileEngine&);

// Preconditions that need production helpers (returns empty string if admissible)
std::string precondition_coulomb(Ctx&);
std::string precondition_muhad(Ctx&, int which);  // 0 bragg/icru, 1 bethe-bloch, 2 mu-bb

}  // namespace iv
