// Reference models for the `optical` engine (property C20).  Nothing in this header calls
// celeritas code except physical constants / unit conversions (trusted).
//
//  * RefTable: refractive index n(E) as the piecewise-linear interpolant of the INPUT table
//    (own interpolation, long double).
//  * ref_dndx: mean Cerenkov photon number per unit length from the documented formula
//      dN/dx = (alpha z^2 / hbar c) * Int_{n beta > 1} (1 - 1/(n^2 beta^2)) dE
//    evaluated two ways: `exact` (closed-form integral of the piecewise-linear n(E)) and
//    `trap` (the tabulated "Cerenkov angle integral": trapezoid rule on 1/n^2 at the grid
//    points, linear in partial bins, as in G4Cerenkov / the CerenkovParams doc).  A correct
//    implementation of the documented formula lies between the two up to rounding.
//  * Chernoff / KL tail bounds (rigorous upper bounds on p-values) for the thorough-tier
//    distributional spot checks.
#pragma once

#include <algorithm>
#include <cmath>
#include <string>
#include <vector>

#include "celeritas/Constants.hh"
#include "celeritas/Quantities.hh"
#include "celeritas/Units.hh"

namespace optref
{
using ld = long double;
constexpr double EPS = 2.220446049250313e-16;  // machine epsilon (2u)

struct RefTable
{
    std::vector<double> x;  // photon energy [MeV], strictly increasing for valid tables
    std::vector<double> y;  // refractive index
    std::string shape;
    bool valid = true;  // false: deliberately outside the documented domain

    ld n(double E) const
    {
        if (E <= x.front())
            return y.front();
        if (E >= x.back())
            return y.back();
        std::size_t hi = std::size_t(std::upper_bound(x.begin(), x.end(), E) - x.begin());
        std::size_t lo = hi - 1;
        ld f = (ld(E) - ld(x[lo])) / (ld(x[hi]) - ld(x[lo]));
        return ld(y[lo]) + f * (ld(y[hi]) - ld(y[lo]));
    }
    ld nl(ld E) const
    {
        if (E <= x.front())
            return y.front();
        if (E >= x.back())
            return y.back();
        std::size_t hi = 1;
        while (hi + 1 < x.size() && ld(x[hi]) <= E)
            ++hi;
        std::size_t lo = hi - 1;
        ld f = (E - ld(x[lo])) / (ld(x[hi]) - ld(x[lo]));
        return ld(y[lo]) + f * (ld(y[hi]) - ld(y[lo]));
    }
    double emin() const { return x.front(); }
    double emax() const { return x.back(); }
    double nmin() const { return y.front(); }
    double nmax() const { return y.back(); }
};

// alpha/(hbar c) * (1 MeV in native energy): photons per native length per MeV of spectrum
inline ld dndx_prefactor()
{
    using namespace celeritas;
    return ld(constants::alpha_fine_structure)
           / (ld(constants::hbar_planck) * ld(constants::c_light))
           * ld(native_value_from(units::MevEnergy{1}));
}

struct Dndx
{
    ld trap = 0;  // tabulated-integral variant (may be slightly negative just above threshold)
    ld exact = 0;  // closed-form variant (>= 0)
    ld mag = 0;  // magnitude of the cancelling terms (for the rounding allowance)
    ld estar = 0;  // lowest photon energy above threshold
    ld lo() const { return std::max<ld>(0, std::min(trap, exact)); }
    ld hi() const { return std::max<ld>(0, std::max(trap, exact)); }
    ld tol() const { return 64 * ld(EPS) * mag; }
};

// Exact integral of sin^2(theta) = 1 - ib^2/n(E)^2 over [Ea, Eb] (must lie in the region
// where n >= ib, inside the grid) for piecewise-linear n:  Int dE/n^2 over a linear piece
// from (a,na) to (b,nb) is (b-a)/(na nb).
inline ld sin2_integral(RefTable const& t, ld ib, ld Ea, ld Eb)
{
    ld sum = 0;
    for (std::size_t j = 0; j + 1 < t.x.size(); ++j)
    {
        ld a = std::max<ld>(t.x[j], Ea), b = std::min<ld>(t.x[j + 1], Eb);
        if (!(b > a))
            continue;
        ld na = t.nl(a), nb = t.nl(b);
        sum += (b - a) * (1 - ib * ib / (na * nb));
    }
    return sum;
}

inline Dndx ref_dndx(RefTable const& t, ld beta, ld zsq)
{
    Dndx r;
    std::size_t const N = t.x.size();
    ld const K = zsq * dndx_prefactor();
    r.estar = t.x.back();
    if (!(beta > 0))
        return r;
    ld const ib = 1 / beta;
    std::vector<ld> cai(N, 0);
    for (std::size_t i = 1; i < N; ++i)
    {
        cai[i] = cai[i - 1]
                 + ld(0.5) * (ld(t.x[i]) - ld(t.x[i - 1]))
                       * (1 / (ld(t.y[i - 1]) * ld(t.y[i - 1])) + 1 / (ld(t.y[i]) * ld(t.y[i])));
    }
    r.mag = K * ((ld(t.x.back()) - ld(t.x.front())) + cai[N - 1] * ib * ib);
    if (ib >= ld(t.y.back()))
        return r;  // at or below threshold: no energy with n beta > 1
    ld estar, caistar;
    if (ib <= ld(t.y.front()))
    {
        estar = t.x.front();
        caistar = 0;
    }
    else
    {
        std::size_t k = 0;
        while (k + 2 < N && ld(t.y[k + 1]) <= ib)
            ++k;
        ld f = (ib - ld(t.y[k])) / (ld(t.y[k + 1]) - ld(t.y[k]));
        estar = ld(t.x[k]) + f * (ld(t.x[k + 1]) - ld(t.x[k]));
        caistar = cai[k] + f * (cai[k + 1] - cai[k]);
    }
    r.estar = estar;
    r.trap = K * ((ld(t.x.back()) - estar) - (cai[N - 1] - caistar) * ib * ib);
    // exact: in the partial bin n(estar) == ib by construction
    ld ex = 0;
    for (std::size_t j = 0; j + 1 < N; ++j)
    {
        ld a = std::max<ld>(t.x[j], estar), b = t.x[j + 1];
        if (!(b > a))
            continue;
        ld na = (a == estar && ib > ld(t.y.front())) ? ib : ld(t.y[j]);
        ld nb = t.y[j + 1];
        ex += (b - a) * (1 - ib * ib / (na * nb));
    }
    r.exact = K * ex;
    return r;
}

//---------------------------------------------------------------------------//
// Rigorous tail bounds (upper bounds on the p-value => conservative tests)
// log P(X >= k) (k > lam) or log P(X <= k) (k < lam) for X ~ Poisson(lam)
inline double poisson_tail_logp(double k, double lam)
{
    if (lam <= 0)
        return k > 0 ? -INFINITY : 0.0;
    if (k <= 0)
        return -lam;
    return -(k * std::log(k / lam) - k + lam);
}
// log P(X/n deviates to k/n or beyond) for X ~ Binomial(n, p): -n KL(k/n || p)
inline double binomial_tail_logp(double k, double n, double p)
{
    double q = k / n;
    auto xlogy = [](double a, double b) { return a > 0 ? a * std::log(b) : 0.0; };
    if (p <= 0)
        return k > 0 ? -INFINITY : 0.0;
    if (p >= 1)
        return k < n ? -INFINITY : 0.0;
    double kl = xlogy(q, q / p) + xlogy(1 - q, (1 - q) / (1 - p));
    return -n * kl;
}

}  // namespace optref
