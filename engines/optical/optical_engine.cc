// Engine `optical` (property C20): Cerenkov / scintillation offload + generators driven on
// generated optical materials and steps; every photon is judged online.
//
// Real code driven (all through the production Params classes, no Geant4):
//   optical::MaterialParams / MaterialView, CerenkovParams, CerenkovDndxCalculator,
//   CerenkovOffload, CerenkovGenerator, ScintillationParams, ScintillationOffload,
//   ScintillationGenerator, ParticleParams/ParticleTrackView, SimParams/SimTrackView.
//
// Oracles (independent of the implementation; see optical_ref.hh for the reference models):
//   per photon   energy finite > 0; |dir| = |pol| = 1; dir.pol = 0; position on the
//                parent's step segment (component box + collinearity + fraction in [0,1]);
//                time >= pre-step time and inside the kinematic band of the step fraction
//   Cerenkov     energy inside the refractive-index grid; cos(angle to step direction) ==
//                1/(n(E) * mean beta), n(E) = own linear interpolation of the INPUT table;
//                no photons requested when mean beta * n_max < 1; dN/dx of the calculator
//                inside the [tabulated-integral, closed-form] band of the documented formula
//   scintill.    wavelength within the Box-Muller support of one of the material's
//                components; neutral parents emit at the post-step point; emission time
//                within the support of the exponential profile
//   thorough     Poisson mean of the photon number, Cerenkov spectrum split (Chernoff bounds,
//                p < 1e-6 -> re-run at 16 N -> violation only if p < 1e-9)
#include <array>
#include <memory>
#include <optional>
#include <set>

#include "corecel/data/CollectionStateStore.hh"
#include "corecel/math/ArrayUtils.hh"
#include "celeritas/Constants.hh"
#include "celeritas/Quantities.hh"
#include "celeritas/Types.hh"
#include "celeritas/Units.hh"
#include "celeritas/io/ImportOpticalMaterial.hh"
#include "celeritas/optical/CerenkovDndxCalculator.hh"
#include "celeritas/optical/CerenkovGenerator.hh"
#include "celeritas/optical/CerenkovOffload.hh"
#include "celeritas/optical/CerenkovParams.hh"
#include "celeritas/optical/GeneratorDistributionData.hh"
#include "celeritas/optical/MaterialParams.hh"
#include "celeritas/optical/MaterialView.hh"
#include "celeritas/optical/OffloadData.hh"
#include "celeritas/optical/ScintillationGenerator.hh"
#include "celeritas/optical/ScintillationOffload.hh"
#include "celeritas/optical/ScintillationParams.hh"
#include "celeritas/optical/TrackInitializer.hh"
#include "celeritas/phys/PDGNumber.hh"
#include "celeritas/phys/ParticleData.hh"
#include "celeritas/phys/ParticleParams.hh"
#include "celeritas/phys/ParticleTrackView.hh"
#include "celeritas/track/SimData.hh"
#include "celeritas/track/SimParams.hh"
#include "celeritas/track/SimTrackView.hh"

#include "optical_ref.hh"
#include "verif_celer.hh"
#include "verif_common.hh"

using namespace celeritas;
using optref::EPS;
using optref::ld;
using optref::RefTable;
using verif::json;
using u64 = std::uint64_t;

namespace
{
//---------------------------------------------------------------------------//
// Tolerances (each with its derivation)
//
// Unit vectors: the code documents its own tolerance for "is a unit vector"
// (ArraySoftUnit: |v.v - 1| < 3 * SoftEqualTraits<double>::rel_prec() = 3e-12). The rounding
// of make_unit_vector / from_spherical is ~8 eps, far inside; the monitor uses the documented
// value and records the largest deviation seen.
constexpr double tol_unit_sq = 3e-12;
// Orthogonality / cone angle floor: the same documented soft tolerance (a perturbation of
// 1.5e-12 of each unit vector changes a dot product by <= 3e-12); DESIGN uses 1e-12 for the
// cone.  On top of the floor a *derived rounding allowance* for the documented algorithms
// (see orth_allowance_* / cone_allowance below).  Excesses over the floor that stay inside
// the allowance are counted in `observed` (numerical-quality information), not flagged.
constexpr double tol_orth_floor = 3e-12;
constexpr double tol_cone_floor = 1e-12;
// Box-Muller support with 53-bit canonical reals: r = sqrt(-2 ln u), u >= 2^-53
//  => |z| <= sqrt(2*53*ln 2) = 8.57168...   (u == 0 gives inf and is judged by the energy
// oracle).  Exponential support: -ln u <= 53 ln 2 = 36.7368...
constexpr double z_support = 8.5717 * (1 + 1e-9);
constexpr double exp_support = 36.7369;

struct Species
{
    char const* name;
    int pdg;
    double mass;
    double charge;
};
Species const species[] = {
    {"electron", 11, 0.51099891, -1},
    {"positron", -11, 0.51099891, 1},
    {"mu_minus", 13, 105.6583745, -1},
    {"mu_plus", -13, 105.6583745, 1},
    {"proton", 2212, 938.272013, 1},
    {"anti_proton", -2212, 938.272013, -1},
    {"alpha", 1000020040, 3727.379, 2},
    {"anti_alpha", -1000020040, 3727.379, -2},
    {"gamma", 22, 0, 0},
    {"neutron", 2112, 939.565413, 0},
};
constexpr int num_charged = 8;
constexpr int num_species = 10;

//---------------------------------------------------------------------------//
// Generated inputs
struct ScintComp
{
    double yield_frac, lambda_mean, lambda_sigma, rise, fall;
};
struct ScintMat
{
    double yield_per_energy;
    double resolution_scale;
    std::vector<ScintComp> comps;
    bool wide = false;  // a component with sigma/mean > 0.1 (normal tail reaches lambda <= 0)
    std::string rise_class() const
    {
        bool z = false, p = false;
        for (auto const& c : comps)
            (c.rise == 0 ? z : p) = true;
        return z && p ? "mixed" : z ? "rise0" : "rise+";
    }
};

struct StepIn
{
    int sp = 0;
    double pre_speed = 0;
    double post_energy = 0;
    double post_speed = 0;  // as reported by the real ParticleTrackView
    double L = 0;
    Real3 pre{0, 0, 0}, post{0, 0, 0};
    double t0 = 0;
    unsigned mat = 0;
    double edep = 0;
    bool hostile = false;
    double p_extreme = 0;
    u64 rng_seed = 0;
};

json jtable(RefTable const& t)
{
    json j;
    j["shape"] = t.shape;
    j["x"] = t.x;
    j["y"] = t.y;
    json hx = json::array(), hy = json::array();
    for (double v : t.x)
        hx.push_back(verif::hexd(v));
    for (double v : t.y)
        hy.push_back(verif::hexd(v));
    j["x_hex"] = hx;
    j["y_hex"] = hy;
    return j;
}
json jscint(ScintMat const& m)
{
    json j;
    j["yield_per_energy"] = m.yield_per_energy;
    j["resolution_scale"] = m.resolution_scale;
    json c = json::array();
    for (auto const& k : m.comps)
        c.push_back({{"yield_frac", k.yield_frac},
                     {"lambda_mean", k.lambda_mean},
                     {"lambda_sigma", k.lambda_sigma},
                     {"rise_time", k.rise},
                     {"fall_time", k.fall}});
    j["components"] = c;
    return j;
}
json jstep(StepIn const& s)
{
    json j;
    j["particle"] = species[s.sp].name;
    j["charge"] = species[s.sp].charge;
    j["pre_speed"] = s.pre_speed;
    j["pre_speed_hex"] = verif::hexd(s.pre_speed);
    j["post_energy_MeV"] = s.post_energy;
    j["post_energy_hex"] = verif::hexd(s.post_energy);
    j["post_speed"] = s.post_speed;
    j["post_speed_hex"] = verif::hexd(s.post_speed);
    j["step_length"] = s.L;
    j["pre_pos"] = verif::jarr3(s.pre);
    j["post_pos"] = verif::jarr3(s.post);
    j["pre_pos_hex"] = json::array({verif::hexd(s.pre[0]), verif::hexd(s.pre[1]), verif::hexd(s.pre[2])});
    j["post_pos_hex"]
        = json::array({verif::hexd(s.post[0]), verif::hexd(s.post[1]), verif::hexd(s.post[2])});
    j["pre_time"] = s.t0;
    j["material"] = s.mat;
    j["energy_deposition_MeV"] = s.edep;
    j["stream"] = s.hostile ? "hostile" : "random";
    j["p_extreme"] = s.p_extreme;
    j["rng_seed"] = s.rng_seed;
    return j;
}
json jphoton(optical::TrackInitializer const& p)
{
    json j;
    j["energy_MeV"] = p.energy.value();
    j["position"] = verif::jarr3(p.position);
    j["direction"] = verif::jarr3(p.direction);
    j["polarization"] = verif::jarr3(p.polarization);
    j["time"] = p.time;
    return j;
}

//---------------------------------------------------------------------------//
// Generators of inputs.  Validity mirrors optical::MaterialParams (energy grid and index
// strictly increasing, >= 2 points), MatScintSpecInserter (all component fields > 0, rise
// >= 0, yield > 0), ScintillationParams (resolution scale >= 0).
RefTable gen_table(verif::Rng& r, bool allow_invalid)
{
    RefTable t;
    static char const* const shapes[] = {"two", "linear", "convex", "concave", "steps", "nearflat"};
    int sh = int(r.integer(0, 5));
    t.shape = shapes[sh];
    int npts = sh == 0 ? 2 : int(r.coin(0.3) ? r.integer(2, 6) : r.integer(3, 50));
    double e0 = r.loguniform(5e-7, 4e-6);
    double e1 = e0 * r.loguniform(1.02, 8.0);
    t.x.resize(npts);
    int gk = int(r.integer(0, 2));
    for (int i = 0; i < npts; ++i)
    {
        double f = double(i) / double(npts - 1);
        if (gk == 0)
            t.x[i] = e0 + (e1 - e0) * f;
        else if (gk == 1)
            t.x[i] = e0 * std::pow(e1 / e0, f);
        else
            t.x[i] = (i == 0 || i == npts - 1) ? (i ? e1 : e0) : r.uniform(e0, e1);
    }
    std::sort(t.x.begin(), t.x.end());
    for (int i = 1; i < npts; ++i)
        if (!(t.x[i] > t.x[i - 1]))
            t.x[i] = verif::next_up(t.x[i - 1]);
    double n0 = 1 + r.loguniform(1e-4, 1.9);
    double span = r.loguniform(1e-6, 3.0 - n0);
    double n1 = std::min(3.0, n0 + span);
    t.y.resize(npts);
    std::vector<double> w(npts, 0.0);
    if (sh == 4)
    {
        double tot = 0;
        for (int i = 1; i < npts; ++i)
        {
            w[i] = std::exp(3 * r.normal());
            tot += w[i];
        }
        double acc = 0;
        for (int i = 1; i < npts; ++i)
        {
            acc += w[i];
            w[i] = acc / tot;
        }
    }
    double p = sh == 2 ? r.uniform(2, 8) : sh == 3 ? r.uniform(0.15, 0.5) : 1.0;
    for (int i = 0; i < npts; ++i)
    {
        double f = (t.x[i] - t.x.front()) / (t.x.back() - t.x.front());
        if (sh == 4)
            f = w[i];
        else
            f = std::pow(f, p);
        t.y[i] = n0 + (n1 - n0) * f;
    }
    if (sh == 5)
    {
        t.y[0] = n0;
        for (int i = 1; i < npts; ++i)
            t.y[i] = verif::next_up(t.y[i - 1], int(r.integer(1, 8)));
    }
    for (int i = 1; i < npts; ++i)
        if (!(t.y[i] > t.y[i - 1]))
            t.y[i] = verif::next_up(t.y[i - 1]);
    if (allow_invalid && npts >= 2)
    {
        // outside the documented domain: the constructor must reject (RuntimeError)
        t.valid = false;
        int i = int(r.integer(1, npts - 1));
        if (r.coin())
        {
            t.shape = "flat";
            t.y[i] = t.y[i - 1];
        }
        else
        {
            t.shape = "nonmonotone";
            t.y[i] = t.y[i - 1] - (t.y[i - 1] - 1) * r.uniform(0.01, 0.5);
        }
    }
    return t;
}

ScintMat gen_scint(verif::Rng& r)
{
    ScintMat m;
    m.yield_per_energy = r.loguniform(1, 5e4);
    double pr = r.uniform();
    m.resolution_scale = pr < 0.1 ? 0.0 : pr < 0.5 ? 1.0 : r.uniform(0.1, 3.0);
    int nc = int(r.integer(1, 3));
    bool wide_mat = r.coin(0.04);
    int rk = int(r.integer(0, 2));  // 0: all zero rise, 1: all positive, 2: per-component
    for (int i = 0; i < nc; ++i)
    {
        ScintComp c;
        c.yield_frac = r.loguniform(0.01, 1.0);
        c.lambda_mean = r.loguniform(1e-5, 7e-5);  // 100-700 nm in cm
        double rel = wide_mat && (i == 0 || r.coin()) ? r.uniform(0.12, 0.4)
                                                      : r.loguniform(0.002, 0.1);
        if (rel > 0.1)
            m.wide = true;
        c.lambda_sigma = c.lambda_mean * rel;
        bool zero_rise = rk == 0 ? true : rk == 1 ? false : r.coin();
        c.rise = zero_rise ? 0.0 : r.loguniform(1e-10, 1e-7);
        c.fall = r.loguniform(1e-9, 1e-5);
        m.comps.push_back(c);
    }
    return m;
}

// Direction classes for the step (pole = exactly +-z; rotate() degenerates there)
void gen_geometry(verif::Rng& r, double L, StepIn& s)
{
    double f = r.coin(0.8) ? 1.0 : r.uniform(0.3, 1.0);  // displacement / path length
    double Lg = L * f;
    double w[3];
    double pk = r.uniform();
    if (pk < 0.15)
    {
        w[0] = w[1] = 0;
        w[2] = r.coin() ? 1 : -1;
    }
    else if (pk < 0.45)
    {
        double st = r.loguniform(1e-12, 0.02);
        double phi = r.coin(0.2) ? 1.5707963267948966 * double(r.integer(0, 3))
                                 : r.uniform(0, 6.283185307179586);
        double sg = r.coin() ? 1 : -1;
        w[0] = st * std::cos(phi);
        w[1] = st * std::sin(phi);
        if (std::fabs(w[0]) < 1e-16 * st)
            w[0] = 0;
        if (std::fabs(w[1]) < 1e-16 * st)
            w[1] = 0;
        w[2] = sg * std::sqrt(1 - st * st);
    }
    else if (pk < 0.55)
    {
        int ax = int(r.integer(0, 1));
        w[0] = w[1] = w[2] = 0;
        w[ax] = r.coin() ? 1 : -1;
    }
    else
    {
        r.unit3(w);
    }
    if (r.coin(0.25))
        s.pre = {0, 0, 0};
    else
    {
        double m = r.loguniform(1e-3, 1e4);
        double v[3];
        r.unit3(v);
        s.pre = {m * v[0], m * v[1], m * v[2]};
    }
    for (int i = 0; i < 3; ++i)
        s.post[i] = s.pre[i] + Lg * w[i];
    // the step must have a direction: if the displacement vanished in rounding, move the
    // pre-step point to the origin
    if (s.post[0] == s.pre[0] && s.post[1] == s.pre[1] && s.post[2] == s.pre[2])
    {
        s.pre = {0, 0, 0};
        for (int i = 0; i < 3; ++i)
            s.post[i] = Lg * w[i];
    }
    s.t0 = r.coin(0.2) ? 0.0 : r.loguniform(1e-12, 1e-3);
}

double kinetic_for_beta(double mass, double beta)
{
    if (beta <= 0)
        return 0;
    ld g = 1 / std::sqrt((1 - ld(beta)) * (1 + ld(beta)));
    return double(ld(mass) * (g - 1));
}

//---------------------------------------------------------------------------//
// Fixture: real celeritas objects shared by all cases
struct Fixture
{
    std::shared_ptr<ParticleParams> particles;
    std::shared_ptr<SimParams> sim;
    CollectionStateStore<ParticleStateData, MemSpace::host> pstate;
    CollectionStateStore<SimStateData, MemSpace::host> sstate;
    std::array<ParticleId, num_species> pid;

    Fixture()
    {
        ParticleParams::Input inp;
        for (auto const& sp : species)
            inp.push_back({sp.name,
                           PDGNumber{sp.pdg},
                           units::MevMass{sp.mass},
                           units::ElementaryCharge{sp.charge},
                           constants::stable_decay_constant});
        particles = std::make_shared<ParticleParams>(std::move(inp));
        for (int i = 0; i < num_species; ++i)
            pid[i] = particles->find(PDGNumber{species[i].pdg});
        pstate = CollectionStateStore<ParticleStateData, MemSpace::host>(particles->host_ref(), 1);
        sim = std::make_shared<SimParams>();
        sstate = CollectionStateStore<SimStateData, MemSpace::host>(sim->host_ref(), 1);
    }
    ParticleTrackView particle(int sp, double energy)
    {
        ParticleTrackView::Initializer_t init;
        init.particle_id = pid[sp];
        init.energy = units::MevEnergy{energy};
        ParticleTrackView v(particles->host_ref(), pstate.ref(), TrackSlotId{0});
        v = init;
        return v;
    }
    SimTrackView simview(double L, double t0)
    {
        SimTrackView::Initializer_t init;
        init.track_id = TrackId{0};
        init.parent_id = TrackId{};
        init.event_id = EventId{0};
        init.time = t0;
        SimTrackView v(sim->host_ref(), sstate.ref(), TrackSlotId{0});
        v = init;
        v.step_length(L);
        v.status(TrackStatus::alive);
        return v;
    }
};

//---------------------------------------------------------------------------//
// Geometry of the step as the oracle sees it (from the inputs only)
struct StepGeom
{
    ld d[3];  // fl(post - pre): the displacement the code is given
    ld dn;  // |d|
    ld axis[3];
    ld spole;  // sin(polar angle of the step direction)
    ld sinphi;  // |sin(azimuth)|
    ld prenorm;
    ld tol_pos;  // rounding of pre + u*d per point
    ld eta;  // resulting uncertainty of the recovered fraction
    std::string pole;

    explicit StepGeom(StepIn const& s)
    {
        for (int i = 0; i < 3; ++i)
            d[i] = ld(s.post[i] - s.pre[i]);  // one rounding, identical to the code's input
        dn = std::sqrt(d[0] * d[0] + d[1] * d[1] + d[2] * d[2]);
        for (int i = 0; i < 3; ++i)
            axis[i] = d[i] / dn;
        ld h = std::sqrt(d[0] * d[0] + d[1] * d[1]);
        spole = h / dn;
        sinphi = h > 0 ? std::fabs(d[1]) / h : ld(0);
        prenorm = std::sqrt(ld(s.pre[0]) * s.pre[0] + ld(s.pre[1]) * s.pre[1] + ld(s.pre[2]) * s.pre[2]);
        // pos_i = fma(u, d_i, pre_i): one rounding of a value bounded by |pre_i| + |d_i|
        // (<= eps/2 relative); 8 eps on the norms covers the 3 components and the
        // long-double evaluation of the residual
        tol_pos = 8 * ld(EPS) * (prenorm + dn);
        eta = tol_pos / dn;
        pole = spole == 0 ? "pole" : spole < 0.01 ? "nearpole" : "general";
    }
};

// Derived rounding allowance for the angle between rotate(v, axis) and the true axis
// direction.  rotate() is documented to decompose `rot` into a polar rotation with
// sin(theta) = sqrt(1 - z^2) and an azimuthal one with (x, y)/sin(theta), switching to
// normalised x/y below a threshold.  With |s'^2 - s^2| <= 4 eps (rounding of z^2 and of the
// unit norm of the axis):
//   polar error      dth = |s' - s| <= min(sqrt(4 eps), 4 eps / s)
//   azimuth error    dph = s * min(sqrt(4 eps), 4 eps / |sin phi|)   (branch that rebuilds
//                    sin(phi) from sqrt(1 - cos^2); only below s < 0.01)
//   non-orthogonal   the general branch scales the xy part by s/s' = 1 +- 2 eps / s^2, which
//                    survives the final normalisation as a relative change 2 eps / s^2
// A cone cosine then moves by at most (dth + dph) (sin(theta_c) + dth + dph) + 2 eps / s^2
// plus ~8 eps of plain rounding.  Safety factor 2.
struct RotAllowance
{
    ld tilt;  // dth + dph
    ld nonorth;  // 2 eps / s^2 (0 on the careful branch)
};
RotAllowance rot_allowance(StepGeom const& g)
{
    RotAllowance a{0, 0};
    ld s = g.spole;
    ld const e4 = 4 * ld(EPS);
    if (s == 0)
    {
        // exactly along z: the normalised axis may still be (0, 0, 1 - 2^-53), i.e.
        // s'^2 = 2 eps: the polar error bound sqrt(4 eps) applies, the azimuth is irrelevant
        a.tilt = std::sqrt(e4);
        return a;
    }
    ld dth = std::min(std::sqrt(e4), e4 / s);
    ld dph = 0;
    if (s < 0.01)
        dph = s * (g.sinphi > 0 ? std::min(std::sqrt(e4), e4 / g.sinphi) : std::sqrt(e4));
    a.tilt = dth + dph;
    if (s >= 0.004)
        a.nonorth = 2 * ld(EPS) / (s * s);
    return a;
}

//---------------------------------------------------------------------------//
struct Engine
{
    verif::Args const& args;
    verif::Report& rep;
    Fixture fx;
    u64 photons = 0;  // photons judged individually (the budget)
    u64 stat_photons = 0;  // photons only histogrammed by the thorough-tier spot checks
    std::string variant;

    Engine(verif::Args const& a, verif::Report& r) : args(a), rep(r)
    {
        variant = a.get("variant", "plain");
    }

    // running maxima of the monitored residuals (flushed into the report at the end)
    struct Maxima
    {
        double dir = 0, pol = 0, orth[2] = {0, 0}, orth_ratio[2] = {0, 0}, coll = 0;
        double cone[3] = {0, 0, 0}, cone_ratio[3] = {0, 0, 0}, z = 0, dndx = 0;
        u64 orth_excess[2] = {0, 0}, cone_excess = 0;
    } mx;
    void flush()
    {
        static char const* const gn[] = {"cerenkov", "scintillation"};
        static char const* const pn[] = {"pole", "nearpole", "general"};
        rep.observe_max("max_abs_dir_sq_minus_1", mx.dir);
        rep.observe_max("max_abs_pol_sq_minus_1", mx.pol);
        rep.observe_max("max_collinearity_residual_over_tol", mx.coll);
        rep.observe_max("max_min_abs_z_wavelength", mx.z);
        rep.observe_max("max_dndx_band_excess_over_tol", mx.dndx);
        for (int i = 0; i < 2; ++i)
        {
            rep.observe_max(std::string("max_abs_dir_dot_pol_") + gn[i], mx.orth[i]);
            rep.observe_max(std::string("max_orth_over_tol_") + gn[i], mx.orth_ratio[i]);
            if (mx.orth_excess[i])
                rep.observe(std::string("orth_above_soft_tol_within_rounding_allowance_") + gn[i],
                            mx.orth_excess[i]);
        }
        for (int i = 0; i < 3; ++i)
        {
            rep.observe_max(std::string("max_cone_err_") + pn[i], mx.cone[i]);
            rep.observe_max(std::string("max_cone_err_over_tol_") + pn[i], mx.cone_ratio[i]);
        }
        if (mx.cone_excess)
            rep.observe("cone_above_1e-12_within_rounding_allowance", mx.cone_excess);
    }

    // per-step bookkeeping of failures: first witness per key per step
    struct StepVerdict
    {
        std::set<std::string> fired;
        u64 good = 0;
    };

    void fire(StepVerdict& sv, std::string const& key, std::string const& detail, json w)
    {
        if (sv.fired.insert(key).second)
            rep.violation("C20/" + key, detail, std::move(w));
    }

    //-----------------------------------------------------------------------//
    // Checks common to both generators.  Returns the recovered step fraction.
    // `gen` is "cerenkov" or "scintillation".
    template<class W>
    bool check_common(optical::TrackInitializer const& ph,
                      StepIn const& s,
                      StepGeom const& g,
                      std::string const& gen,
                      ld orth_allow,
                      StepVerdict& sv,
                      W&& witness,
                      ld* u_out,
                      bool* vec_finite,
                      bool* pos_ok)
    {
        bool ok = true;
        auto bad = [&](std::string const& key, std::string const& what) {
            ok = false;
            fire(sv, key, what, witness());
        };
        double const E = ph.energy.value();
        if (!(std::isfinite(E) && E > 0))
        {
            if (gen == "scintillation")
            {
                // E = hc/lambda: lambda < 0 (normal tail) gives E < 0; |lambda| = inf or NaN
                // (log(0) in the Box-Muller radius) gives 0 / NaN
                if (std::isfinite(E) && E < 0)
                    bad("energy/scintillation-negative",
                        "scintillation photon energy is negative (sampled wavelength <= 0)");
                else
                    bad("energy/scintillation-zero-or-nonfinite",
                        "scintillation photon energy is zero/inf/NaN (non-finite or zero "
                        "sampled wavelength)");
            }
            else
                bad("energy/cerenkov-nonpositive-or-nonfinite",
                    "Cerenkov photon energy is not finite and positive");
        }
        auto dot = [](Real3 const& a, Real3 const& b) {
            return ld(a[0]) * b[0] + ld(a[1]) * b[1] + ld(a[2]) * b[2];
        };
        ld dd = dot(ph.direction, ph.direction), pp = dot(ph.polarization, ph.polarization);
        ld dp = dot(ph.direction, ph.polarization);
        *vec_finite = std::isfinite(double(dd)) && std::isfinite(double(pp));
        if (!*vec_finite)
        {
            // one defect, one key: NaN/inf components (not judged again as "not unit",
            // "not orthogonal", "off the cone")
            bad("nonfinite-direction-or-polarization/" + gen + "/" + g.pole,
                "photon direction/polarization has non-finite components");
        }
        else if (!(std::fabs(dd - 1) < tol_unit_sq))
            bad("unit-direction/" + gen, "photon direction is not a unit vector");
        else
            mx.dir = std::max(mx.dir, double(std::fabs(dd - 1)));
        if (!*vec_finite)
        {
        }
        else if (!(std::fabs(pp - 1) < tol_unit_sq))
            bad("unit-polarization/" + gen, "photon polarization is not a unit vector");
        else
            mx.pol = std::max(mx.pol, double(std::fabs(pp - 1)));
        if (*vec_finite)
        {
            ld tol = std::max<ld>(tol_orth_floor, orth_allow);
            if (!(std::fabs(dp) <= tol))
                bad("orthogonality/" + gen, "polarization is not perpendicular to the direction");
            else
            {
                int gi = gen[0] == 'c' ? 0 : 1;
                mx.orth[gi] = std::max(mx.orth[gi], double(std::fabs(dp)));
                if (std::fabs(dp) > tol_orth_floor)
                    ++mx.orth_excess[gi];
                mx.orth_ratio[gi] = std::max(mx.orth_ratio[gi], double(std::fabs(dp) / tol));
            }
        }
        // position: component box (pos_i = fma(u, d_i, pre_i) with 0 <= u <= 1 lies between
        // pre_i and pre_i + d_i = post_i +- ulp/2, and is itself rounded once: 2 ulp slack)
        bool pos_finite = true;
        bool in_box = true;
        for (int i = 0; i < 3; ++i)
        {
            double lo = std::min(s.pre[i], s.post[i]), hi = std::max(s.pre[i], s.post[i]);
            double m = std::max(std::fabs(lo), std::fabs(hi));
            double slack = 2 * (verif::next_up(m) - m);
            if (!std::isfinite(ph.position[i]))
                pos_finite = false;
            if (!(ph.position[i] >= lo - slack && ph.position[i] <= hi + slack))
            {
                bad("position/" + gen + "-outside-step-box",
                    "photon position component outside [pre, post]");
                in_box = false;
                break;
            }
        }
        ld u = 0;
        if (pos_finite)
        {
            ld w[3];
            for (int i = 0; i < 3; ++i)
                w[i] = ld(ph.position[i]) - ld(s.pre[i]);
            u = (w[0] * g.d[0] + w[1] * g.d[1] + w[2] * g.d[2]) / (g.dn * g.dn);
            ld r2 = 0;
            for (int i = 0; i < 3; ++i)
            {
                ld ri = w[i] - u * g.d[i];
                r2 += ri * ri;
            }
            ld res = std::sqrt(r2);
            if (!(res <= g.tol_pos))
                bad("position/" + gen + "-off-segment",
                    "photon position is not collinear with the step segment");
            else
                mx.coll = std::max(mx.coll, double(res / g.tol_pos));
            if (in_box && !(u >= -g.eta && u <= 1 + g.eta))
                bad("position/" + gen + "-fraction-out-of-range",
                    "photon position corresponds to a step fraction outside [0,1]");
        }
        // time
        double const t = ph.time;
        if (std::isnan(t))
            bad("time/" + gen + "-nan", "photon time is NaN");
        else if (t < s.t0)
            bad("time/" + gen + "-before-pre-step", "photon time earlier than the pre-step time");
        *u_out = u;
        *pos_ok = pos_finite && in_box && u >= -g.eta && u <= 1 + g.eta;
        return ok;
    }

    // kinematic band of the emission delay for a step fraction in [ulo, uhi]: the parent's
    // speed stays between the pre- and post-step speeds, so u L / (c vmax) <= dt <= u L / (c vmin)
    static void time_band(StepIn const& s, ld ulo, ld uhi, ld* lo, ld* hi)
    {
        ld vmax = std::max(s.pre_speed, s.post_speed), vmin = std::min(s.pre_speed, s.post_speed);
        ld c = constants::c_light;
        ulo = std::min<ld>(1, std::max<ld>(0, ulo));
        uhi = std::min<ld>(1, std::max<ld>(0, uhi));
        *lo = ulo * s.L / (c * vmax);
        *hi = vmin > 0 ? uhi * s.L / (c * vmin) : ld(INFINITY);
    }

    //-----------------------------------------------------------------------//
    // One Cerenkov step
    void cerenkov_step(u64 case_index,
                       int step_index,
                       std::vector<RefTable> const& tables,
                       optical::MaterialParams const& mats,
                       optical::CerenkovParams const& cer,
                       StepIn& s,
                       u64 cap)
    {
        RefTable const& t = tables[s.mat];
        auto particle = fx.particle(s.sp, s.post_energy);
        s.post_speed = particle.speed().value();
        auto sim = fx.simview(s.L, s.t0);
        OffloadPreStepData pre;
        pre.speed = units::LightSpeed{s.pre_speed};
        pre.pos = s.pre;
        pre.time = s.t0;
        pre.material = OpticalMaterialId{s.mat};
        optical::MaterialView mv(mats.host_ref(), OpticalMaterialId{s.mat});
        auto const& cref = cer.host_ref();
        double const charge = species[s.sp].charge;

        StepGeom g(s);
        // documented mean speed: beta = (pre + post) / 2  (CerenkovOffload, CerenkovGenerator)
        ld const beta = (ld(s.pre_speed) + ld(s.post_speed)) / 2;
        ld const x = beta * ld(t.nmax());
        optref::Dndx ref = optref::ref_dndx(t, beta, ld(charge) * charge);
        std::string regime = beta > 1 - 1e-6                ? "ultra"
                             : std::fabs(double(x - 1)) <= 1e-6 ? "edge"
                             : x < 1                           ? "below"
                             : beta * ld(t.nmin()) > 1         ? "full"
                                                               : "partial";
        std::string cell = "cer/" + regime + "/" + t.shape + "/" + g.pole + "/"
                           + (s.hostile ? "hostile" : "random");
        auto witness_base = [&]() {
            json w;
            w["seed"] = args.seed;
            w["case"] = case_index;
            w["step"] = step_index;
            w["generator"] = "cerenkov";
            w["table"] = jtable(t);
            w["step_input"] = jstep(s);
            w["mean_beta"] = double(beta);
            w["beta_times_nmax"] = double(x);
            w["regime"] = regime;
            w["step_dir_sin_polar"] = double(g.spole);
            return w;
        };
        StepVerdict sv;

        // dN/dx of the production calculator vs the documented formula (band between the
        // tabulated-integral and the closed-form evaluation, +- rounding of the cancelling
        // terms: 64 eps * K (dE + CAI/beta^2))
        double const beta_d = 0.5 * (s.pre_speed + s.post_speed);
        if (beta_d > 0 && beta_d <= 1)
        {
            optical::CerenkovDndxCalculator calc(mv, cref, units::ElementaryCharge{charge});
            double got = calc(units::LightSpeed{beta_d});
            optref::Dndx refd = optref::ref_dndx(t, ld(beta_d), ld(charge) * charge);
            if (!(ld(got) >= refd.lo() - refd.tol() && ld(got) <= refd.hi() + refd.tol()))
            {
                json w = witness_base();
                w["dndx_code"] = got;
                w["dndx_ref_tabulated"] = double(refd.trap);
                w["dndx_ref_closed_form"] = double(refd.exact);
                w["tol"] = double(refd.tol());
                fire(sv, "cerenkov-dndx/outside-reference-band",
                     "CerenkovDndxCalculator differs from the documented integral", std::move(w));
            }
            else if (refd.hi() > 0)
            {
                rep.observe("dndx_checked");
                // how much of the rounding allowance is used (0 = inside the band itself)
                ld ex = std::max<ld>(0, std::max(refd.lo() - ld(got), ld(got) - refd.hi()));
                mx.dndx = std::max(mx.dndx, double(ex / refd.tol()));
                if (got == 0 && ld(beta_d) * ld(t.nmax()) > 1)
                    rep.observe("dndx_zero_just_above_threshold(clamped)");
            }
        }

        verif::HostileEngine rng(s.rng_seed, s.hostile ? s.p_extreme : 0.0, 4000000);
        CerenkovOffload offload(particle, sim, mv, s.post, cref, pre);
        optical::GeneratorDistributionData dist;
        try
        {
            dist = offload(rng);
        }
        catch (verif::DrawLimitExceeded const&)
        {
            rep.inconclusive("draw limit in Poisson sampling (hostile stream)");
            return;
        }
        u64 const num = dist.num_photons;

        // threshold clause: below threshold (beyond a 4 eps band of rounding in beta and
        // in beta*n) no photons may be requested
        bool const below = x < 1 - 4 * ld(EPS);
        bool const in_band = std::fabs(double(x - 1)) <= 4 * EPS;
        if (below && num > 0)
        {
            json w = witness_base();
            w["num_photons"] = num;
            fire(sv, "cerenkov-threshold/photons-below-threshold",
                 "CerenkovOffload requested photons although mean beta * n_max < 1", std::move(w));
        }
        // photon number sanity (random streams only): Poisson(mu) or its Gaussian
        // approximation never exceeds mu + 12 sqrt(mu) + 12 (p < 1e-30)
        if (!s.hostile && !below)
        {
            ld mu = (ref.hi() + ref.tol()) * s.L;
            if (ld(num) > mu + 12 * std::sqrt(mu) + 12)
            {
                json w = witness_base();
                w["num_photons"] = num;
                w["mean_upper"] = double(mu);
                fire(sv, "photon-number/cerenkov-implausible",
                     "sampled Cerenkov photon number is impossible for the documented mean",
                     std::move(w));
            }
        }
        if (num == 0)
        {
            if (!sv.fired.empty())
                return;
            if (below)
                rep.held(cell);  // threshold clause exercised and satisfied
            else if (in_band)
                rep.inconclusive("untestable: mean beta * n_max within 4 eps of threshold");
            else
                rep.held_trivial();
            rep.observe("cer_steps_zero_photons_" + regime);
            return;
        }
        // offload data must carry the step unchanged
        {
            bool same = dist.time == s.t0 && dist.step_length == s.L
                        && dist.charge.value() == charge && dist.material == pre.material
                        && dist.points[StepPoint::pre].speed.value() == s.pre_speed
                        && dist.points[StepPoint::post].speed.value() == s.post_speed;
            for (int i = 0; i < 3; ++i)
                same = same && dist.points[StepPoint::pre].pos[i] == s.pre[i]
                       && dist.points[StepPoint::post].pos[i] == s.post[i];
            if (!same)
                fire(sv, "offload-data/cerenkov-field-mismatch",
                     "distribution data does not reproduce the step it was built from",
                     witness_base());
        }
        if (below)
            return;  // already flagged; the generator's precondition (above threshold) fails

        RotAllowance ra = rot_allowance(g);
        // Orthogonality allowance (Cerenkov): dir and pol are built orthogonal in the local
        // frame (rounding ~8 eps) and pass through the same rotation; only the non-orthogonal
        // part of the general branch (2 * 2 eps / s^2) can couple them.  Safety factor 2.
        ld const orth_allow = 2 * (16 * ld(EPS) + 2 * ra.nonorth);

        optical::CerenkovGenerator gen(mv, cref, dist);
        u64 const todo = std::min<u64>(num, cap);
        u64 draws0 = rng.count();
        rng.set_limit(draws0 + 6000000);
        for (u64 k = 0; k < todo; ++k)
        {
            optical::TrackInitializer ph;
            try
            {
                ph = gen(rng);
            }
            catch (verif::DrawLimitExceeded const&)
            {
                rep.inconclusive("draw limit in Cerenkov rejection loops (efficiency too low)");
                rep.observe("cer_draw_limit_" + regime);
                break;
            }
            ++photons;
            auto witness = [&]() {
                json w = witness_base();
                w["photon_index"] = k;
                w["num_photons"] = num;
                w["photon"] = jphoton(ph);
                return w;
            };
            ld u = 0;
            bool vec_finite = true, pos_ok = true;
            bool ok = check_common(
                ph, s, g, "cerenkov", orth_allow, sv, witness, &u, &vec_finite, &pos_ok);
            double const E = ph.energy.value();
            // energy inside the tabulated range: E = fma(Emax - Emin, xi, Emin), xi < 1:
            // two roundings => 2 ulp slack
            {
                double slack_hi = 2 * (verif::next_up(t.emax()) - t.emax());
                double slack_lo = 2 * (t.emin() - verif::next_down(t.emin()));
                if (!(E >= t.emin() - slack_lo && E <= t.emax() + slack_hi))
                {
                    ok = false;
                    fire(sv, "cerenkov-energy-range/outside-grid",
                         "Cerenkov photon energy outside the refractive-index grid", witness());
                }
            }
            // cone: cos(angle between photon and step direction) == 1 / (n(E) beta)
            if (std::isfinite(E) && vec_finite)
            {
                ld cos_ref = 1 / (t.n(E) * beta);
                ld cos_meas = ld(ph.direction[0]) * g.axis[0] + ld(ph.direction[1]) * g.axis[1]
                              + ld(ph.direction[2]) * g.axis[2];
                ld sinc = std::sqrt(std::max<ld>(0, 1 - cos_ref * cos_ref));
                ld allow = 2 * (16 * ld(EPS) + ra.tilt * (sinc + ra.tilt) + ra.nonorth);
                ld tol = std::max<ld>(tol_cone_floor, allow);
                ld err = std::fabs(cos_meas - cos_ref);
                if (!(err <= tol))
                {
                    ok = false;
                    json w = witness();
                    w["cos_measured"] = double(cos_meas);
                    w["cos_expected"] = double(cos_ref);
                    w["n_of_E"] = double(t.n(E));
                    w["tolerance"] = double(tol);
                    fire(sv, "cerenkov-cone/" + g.pole,
                         "photon is off the Cerenkov cone cos(theta) = 1/(n(E) * mean beta)",
                         std::move(w));
                }
                else
                {
                    int pi = g.pole[0] == 'p' ? 0 : g.pole[0] == 'n' ? 1 : 2;
                    mx.cone[pi] = std::max(mx.cone[pi], double(err));
                    mx.cone_ratio[pi] = std::max(mx.cone_ratio[pi], double(err / tol));
                    if (err > tol_cone_floor)
                        ++mx.cone_excess;
                }
            }
            // time inside the kinematic band of the recovered step fraction
            if (pos_ok && std::isfinite(ph.time) && ph.time >= s.t0)
            {
                ld lo, hi;
                time_band(s, u - g.eta, u + g.eta, &lo, &hi);
                ld dt = ld(ph.time) - ld(s.t0);
                // rounding of t0 + dt and of dt itself: 8 eps (|t0| + dt)
                ld slack = 8 * ld(EPS) * (std::fabs(ld(s.t0)) + dt);
                if (std::isfinite(double(hi)))
                    slack += 8 * ld(EPS) * hi;
                if (!(dt >= lo - slack && dt <= hi + slack))
                {
                    ok = false;
                    json w = witness();
                    w["fraction"] = double(u);
                    w["dt"] = double(dt);
                    w["dt_min"] = double(lo);
                    w["dt_max"] = double(hi);
                    fire(sv, "time/cerenkov-inconsistent-with-step-fraction",
                         "emission time outside [uL/(c v_max), uL/(c v_min)] for the photon's "
                         "position along the step",
                         std::move(w));
                }
            }
            if (ok)
                ++sv.good;
            if (ok && rep.want_sample(4) && k == 0)
            {
                json smp = witness();
                smp["fraction_along_step"] = double(u);
                rep.sample(std::move(smp), 4);
            }
        }
        if (sv.good)
            rep.held(cell, sv.good);
        rep.observe("cer_steps_with_photons_" + regime);
        rep.observe("cer_charge_" + std::to_string(int(charge)));
        if (num > cap)
            rep.observe("cer_steps_capped");
        rep.observe_max("max_draws_per_cerenkov_photon", double(rng.count() - draws0) / double(todo));
    }

    //-----------------------------------------------------------------------//
    // One scintillation step
    void scint_step(u64 case_index,
                    int step_index,
                    std::vector<ScintMat> const& smats,
                    optical::ScintillationParams const& scint,
                    StepIn& s,
                    u64 cap)
    {
        ScintMat const& m = smats[s.mat];
        auto particle = fx.particle(s.sp, s.post_energy);
        s.post_speed = particle.speed().value();
        auto sim = fx.simview(s.L, s.t0);
        OffloadPreStepData pre;
        pre.speed = units::LightSpeed{s.pre_speed};
        pre.pos = s.pre;
        pre.time = s.t0;
        pre.material = OpticalMaterialId{s.mat};
        auto const& sref = scint.host_ref();
        double const charge = species[s.sp].charge;
        bool const neutral = charge == 0;
        StepGeom g(s);
        double const mean = m.yield_per_energy * s.edep;
        std::string cregime = mean > 10 ? "gauss" : "poisson";
        std::string cell = "sci/" + cregime + "/c" + std::to_string(m.comps.size()) + "/"
                           + m.rise_class() + "/" + (neutral ? "neutral" : "charged") + "/" + g.pole
                           + "/" + (m.wide ? "wide" : "narrow") + "/" + (s.hostile ? "hostile" : "random");
        auto witness_base = [&]() {
            json w;
            w["seed"] = args.seed;
            w["case"] = case_index;
            w["step"] = step_index;
            w["generator"] = "scintillation";
            w["scintillation"] = jscint(m);
            w["step_input"] = jstep(s);
            w["mean_num_photons"] = mean;
            return w;
        };
        StepVerdict sv;
        verif::HostileEngine rng(s.rng_seed, s.hostile ? s.p_extreme : 0.0, 4000000);
        ScintillationOffload offload(particle, sim, s.post, units::MevEnergy{s.edep}, sref, pre);
        optical::GeneratorDistributionData dist;
        try
        {
            dist = offload(rng);
        }
        catch (verif::DrawLimitExceeded const&)
        {
            rep.inconclusive("draw limit in Poisson sampling (hostile stream)");
            return;
        }
        u64 const num = dist.num_photons;
        if (!s.hostile)
        {
            // documented: Poisson(mean) for mean <= 10, else Normal(mean, res*sqrt(mean))
            // rounded; the Box-Muller support bounds the latter deterministically
            double sigma = mean > 10 ? m.resolution_scale * std::sqrt(mean) : std::sqrt(mean);
            double bound = mean > 10 ? mean + z_support * sigma + 2 : mean + 12 * sigma + 12;
            if (double(num) > bound)
            {
                json w = witness_base();
                w["num_photons"] = num;
                fire(sv, "photon-number/scintillation-implausible",
                     "sampled scintillation photon number is impossible for the documented mean",
                     std::move(w));
            }
        }
        if (num == 0)
        {
            if (sv.fired.empty())
                rep.held_trivial();
            rep.observe("sci_steps_zero_photons");
            return;
        }
        {
            bool same = dist.time == s.t0 && dist.step_length == s.L
                        && dist.charge.value() == charge && dist.material == pre.material
                        && dist.points[StepPoint::pre].speed.value() == s.pre_speed
                        && dist.points[StepPoint::post].speed.value() == s.post_speed;
            for (int i = 0; i < 3; ++i)
                same = same && dist.points[StepPoint::pre].pos[i] == s.pre[i]
                       && dist.points[StepPoint::post].pos[i] == s.post[i];
            if (!same)
                fire(sv, "offload-data/scintillation-field-mismatch",
                     "distribution data does not reproduce the step it was built from",
                     witness_base());
        }
        double fall_max = 0;
        for (auto const& c : m.comps)
            fall_max = std::max(fall_max, c.fall);
        ld const hc = ld(constants::h_planck) * ld(constants::c_light);

        optical::ScintillationGenerator gen(sref, dist);
        u64 const todo = std::min<u64>(num, cap);
        u64 draws0 = rng.count();
        rng.set_limit(draws0 + 6000000);
        for (u64 k = 0; k < todo; ++k)
        {
            optical::TrackInitializer ph;
            try
            {
                ph = gen(rng);
            }
            catch (verif::DrawLimitExceeded const&)
            {
                rep.inconclusive("draw limit in scintillation rise-time rejection loop");
                break;
            }
            ++photons;
            auto witness = [&]() {
                json w = witness_base();
                w["photon_index"] = k;
                w["num_photons"] = num;
                w["photon"] = jphoton(ph);
                return w;
            };
            // Orthogonality allowance (scintillation): the polarization's transverse part is
            // sqrt(1 - s_c^2) with s_c = sqrt(1 - c^2) recomputed: sqrt(c^2 +- 2 eps), i.e. an
            // absolute error min(sqrt(2 eps), eps/|c|) (+4 eps) in dir.pol for c = dir_z.
            // Safety factor 2.
            ld c = std::fabs(ld(ph.direction[2]));
            ld orth_allow
                = 2 * ((c > 0 ? std::min(std::sqrt(2 * ld(EPS)), ld(EPS) / c) : std::sqrt(2 * ld(EPS)))
                       + 4 * ld(EPS));
            ld u = 0;
            bool vec_finite = true, pos_ok = true;
            bool ok = check_common(
                ph, s, g, "scintillation", orth_allow, sv, witness, &u, &vec_finite, &pos_ok);
            double const E = ph.energy.value();
            if (std::isfinite(E) && E > 0)
            {
                // wavelength must lie in the support of at least one component of THIS
                // material: |lambda - mean_k| <= 8.5717 sigma_k
                ld lambda = hc / ld(native_value_from(units::MevEnergy{E}));
                bool in_support = false;
                double best = INFINITY;
                for (auto const& cpt : m.comps)
                {
                    double z = double(std::fabs(lambda - ld(cpt.lambda_mean)) / ld(cpt.lambda_sigma));
                    best = std::min(best, z);
                    if (z <= z_support + 1e-9)
                        in_support = true;
                }
                if (!in_support)
                {
                    ok = false;
                    json w = witness();
                    w["wavelength"] = double(lambda);
                    w["min_abs_z"] = best;
                    fire(sv, "scintillation-wavelength/outside-all-components",
                         "photon wavelength is outside the sampling support of every component "
                         "of the material",
                         std::move(w));
                }
                else
                    mx.z = std::max(mx.z, best);
            }
            if (neutral)
            {
                // documented: neutral parents emit at the collision site (post-step point):
                // pos_i = fma(1, d_i, pre_i) = post_i +- 1 ulp
                for (int i = 0; i < 3; ++i)
                {
                    double mm = std::max(std::fabs(s.pre[i]), std::fabs(s.post[i]));
                    double slack = 2 * (verif::next_up(mm) - mm);
                    if (!(std::fabs(ph.position[i] - s.post[i]) <= slack))
                    {
                        ok = false;
                        fire(sv, "position/scintillation-neutral-not-at-post",
                             "neutral parent: photon not emitted at the post-step point", witness());
                        break;
                    }
                }
            }
            if (pos_ok && std::isfinite(ph.time) && ph.time >= s.t0)
            {
                ld lo, hi;
                time_band(s, u - g.eta, u + g.eta, &lo, &hi);
                ld dt = ld(ph.time) - ld(s.t0);
                ld slack = 8 * ld(EPS) * (std::fabs(ld(s.t0)) + dt);
                if (!(dt >= lo - slack))
                {
                    ok = false;
                    json w = witness();
                    w["fraction"] = double(u);
                    w["dt"] = double(dt);
                    w["dt_min"] = double(lo);
                    fire(sv, "time/scintillation-before-parent-arrival",
                         "emission time earlier than the parent can reach the emission point",
                         std::move(w));
                }
                // support of the exponential decay: -ln(xi) <= 53 ln 2
                if (std::isfinite(double(hi)))
                {
                    ld up = hi + ld(exp_support) * fall_max;
                    if (!(dt <= up + 8 * ld(EPS) * (std::fabs(ld(s.t0)) + up)))
                    {
                        ok = false;
                        json w = witness();
                        w["dt"] = double(dt);
                        w["dt_max"] = double(up);
                        fire(sv, "time/scintillation-beyond-exponential-support",
                             "emission delay larger than the support of the sampled decay time",
                             std::move(w));
                    }
                }
            }
            else if (std::isinf(ph.time))
                rep.observe("sci_time_infinite(log(0) in exponential sample)");
            if (ok)
                ++sv.good;
            if (ok && rep.want_sample(8) && k == 0 && rep.want_sample(8))
            {
                json smp = witness();
                smp["fraction_along_step"] = double(u);
                rep.sample(std::move(smp), 8);
            }
        }
        if (sv.good)
            rep.held(cell, sv.good);
        rep.observe(std::string("sci_steps_with_photons_") + cregime);
        if (m.resolution_scale == 0)
            rep.observe("sci_steps_resolution_scale_0");
    }

    //-----------------------------------------------------------------------//
    // Build the step inputs for Cerenkov
    StepIn gen_cerenkov_step(verif::Rng& r, std::vector<RefTable> const& tables)
    {
        StepIn s;
        s.mat = unsigned(r.integer(0, std::int64_t(tables.size()) - 1));
        RefTable const& t = tables[s.mat];
        s.sp = int(r.integer(0, num_charged - 1));
        double thr = 1.0 / t.nmax();  // emission starts here
        double full = 1.0 / t.nmin();  // whole grid above threshold from here
        double const bmax = 1 - 1e-12;
        double beta;
        int k = int(r.integer(0, 9));
        if (k <= 1)
            beta = thr * (1 - (r.coin(0.15) ? r.loguniform(1e-13, 1e-6) : r.loguniform(1e-6, 0.9)));
        else if (k == 2 && r.coin(0.5))
            beta = thr * (1 + double(r.integer(-8, 8)) * EPS);
        else if (k <= 5)
            beta = thr + (std::min(full, bmax) - thr) * r.uniform();
        else if (k <= 7)
            beta = full < bmax ? full + (bmax - full) * r.uniform() : thr + (bmax - thr) * r.uniform();
        else if (k == 8)
            beta = 1 - r.loguniform(1e-12, 1e-4);
        else
            beta = thr * (1 + r.loguniform(1e-9, 1e-2));
        beta = std::min(std::max(beta, 1e-3), bmax);
        // split into pre/post around the mean
        double hmax = std::min(beta * 0.999, bmax - beta);
        double h;
        double hk = r.uniform();
        bool stopped = false;
        if (hk < 0.2)
            h = 0;
        else if (hk < 0.4)
            h = std::min(hmax, r.loguniform(1e-15, 1e-6));
        else if (hk < 0.8)
            h = r.uniform(0, hmax);
        else if (hk < 0.9)
            h = -r.uniform(0, hmax);  // speeding up along the step (e.g. in a field)
        else if (hk < 0.95 && 2 * beta <= bmax)
        {
            stopped = true;
            h = beta;
        }
        else
            h = hmax;
        s.pre_speed = beta + h;
        double post = stopped ? 0.0 : beta - h;
        s.post_energy = kinetic_for_beta(species[s.sp].mass, post);
        // step length: aim at a useful photon number half of the time, else 8 decades
        double charge = species[s.sp].charge;
        optref::Dndx ref = optref::ref_dndx(t, ld(beta), ld(charge) * charge);
        double dndx = double(ref.hi());
        if (r.coin(0.6) && dndx > 0)
            s.L = std::min(1e2, std::max(1e-6, r.loguniform(0.5, 200) / dndx));
        else
            s.L = r.loguniform(1e-6, 1e2);
        gen_geometry(r, s.L, s);
        s.hostile = r.coin(0.3);
        static double const pe[] = {0.01, 0.05, 0.2};
        s.p_extreme = pe[r.integer(0, 2)];
        s.rng_seed = r.u64();
        return s;
    }

    StepIn gen_scint_step(verif::Rng& r, std::vector<ScintMat> const& smats)
    {
        StepIn s;
        s.mat = unsigned(r.integer(0, std::int64_t(smats.size()) - 1));
        ScintMat const& m = smats[s.mat];
        bool neutral = r.coin(0.15);
        s.sp = neutral ? int(r.integer(num_charged, num_species - 1)) : int(r.integer(0, num_charged - 1));
        double const bmax = 1 - 1e-12;
        if (species[s.sp].mass == 0)
        {
            s.pre_speed = 1;
            s.post_energy = r.loguniform(1e-3, 1e3);
        }
        else
        {
            double k = r.uniform();
            s.pre_speed = k < 0.2 ? 1 - r.loguniform(1e-12, 1e-3) : r.uniform(0.01, bmax);
            double post = r.coin(0.05)   ? 0.0
                          : r.coin(0.2)  ? s.pre_speed
                          : r.coin(0.1)  ? std::min(bmax, s.pre_speed * r.uniform(1, 1.2))
                                         : s.pre_speed * r.uniform(0.01, 1);
            s.post_energy = kinetic_for_beta(species[s.sp].mass, post);
        }
        double mean = r.coin(0.4) ? r.loguniform(0.2, 10) : r.loguniform(10.5, 5e3);
        s.edep = mean / m.yield_per_energy;
        if (r.coin(0.02))
            s.edep = 0;
        s.L = r.loguniform(1e-6, 1e2);
        gen_geometry(r, s.L, s);
        s.hostile = r.coin(0.3);
        static double const pe[] = {0.01, 0.05, 0.2};
        s.p_extreme = pe[r.integer(0, 2)];
        s.rng_seed = r.u64();
        return s;
    }

    //-----------------------------------------------------------------------//
    template<class F>
    void guarded(std::string const& what, F&& f)
    {
        try
        {
            f();
        }
        catch (DebugError const& e)
        {
            if (verif::is_bounds_assertion(e))
                rep.violation(verif::bounds_key("C20", e), "bounds assertion in " + what,
                              {{"what", e.what()}});
            else
            {
                rep.inconclusive("debug-assert: " + verif::describe(e));
                rep.observe("assert:" + verif::describe(e));
            }
        }
    }

    struct Built
    {
        std::vector<RefTable> tables;
        std::vector<ScintMat> smats;
        std::shared_ptr<optical::MaterialParams> mats;
        std::shared_ptr<optical::CerenkovParams> cer;
        std::shared_ptr<optical::ScintillationParams> scint;
    };

    // returns false if the input was rejected / not usable
    bool build(verif::Rng& r, Built& b, bool allow_invalid)
    {
        int nm = int(r.integer(1, 3));
        bool invalid = allow_invalid && r.coin(0.03);
        if (invalid)
            nm = 1;
        for (int i = 0; i < nm; ++i)
        {
            b.tables.push_back(gen_table(r, invalid));
            b.smats.push_back(gen_scint(r));
        }
        optical::MaterialParams::Input mi;
        for (auto const& t : b.tables)
        {
            ImportOpticalProperty p;
            p.refractive_index.vector_type = ImportPhysicsVectorType::free;
            p.refractive_index.x = t.x;
            p.refractive_index.y = t.y;
            mi.properties.push_back(std::move(p));
        }
        mi.volume_to_mat = {OpticalMaterialId{0}};
        optical::ScintillationParams::Input si;
        for (auto const& m : b.smats)
        {
            si.resolution_scale.push_back(m.resolution_scale);
            ImportMaterialScintSpectrum ms;
            ms.yield_per_energy = m.yield_per_energy;
            for (auto const& c : m.comps)
            {
                ImportScintComponent ic;
                ic.yield_frac = c.yield_frac;
                ic.lambda_mean = c.lambda_mean;
                ic.lambda_sigma = c.lambda_sigma;
                ic.rise_time = c.rise;
                ic.fall_time = c.fall;
                ms.components.push_back(ic);
            }
            si.materials.push_back(std::move(ms));
        }
        try
        {
            b.mats = std::make_shared<optical::MaterialParams>(mi);
            b.cer = std::make_shared<optical::CerenkovParams>(b.mats);
            b.scint = std::make_shared<optical::ScintillationParams>(si);
        }
        catch (RuntimeError const& e)
        {
            rep.inconclusive(invalid ? "rejected input (non-increasing refractive index, as "
                                       "documented)"
                                     : "rejected input");
            if (!invalid)
                rep.observe(std::string("unexpected_rejection:") + e.what());
            return false;
        }
        if (invalid)
        {
            rep.inconclusive("non-increasing refractive-index table accepted (outside the "
                             "documented domain; not judged)");
            return false;
        }
        return true;
    }

    //-----------------------------------------------------------------------//
    // Photon-number support at the documented switch of the Poisson sampler (mean > 16:
    // Gaussian approximation): many offload calls for one step whose mean is just above 16.
    // Every returned count must be possible for the documented distribution:
    // count <= mu + 12 sqrt(mu) + 12 (p < 1e-30 for Poisson and for its normal
    // approximation).  Random stream only; no photons are generated.
    void count_edge_case(u64 ci, verif::Rng& r, Built const& b)
    {
        StepIn s;
        s.mat = unsigned(r.integer(0, std::int64_t(b.tables.size()) - 1));
        RefTable const& t = b.tables[s.mat];
        s.sp = int(r.integer(0, num_charged - 1));
        double charge = species[s.sp].charge;
        double thr = 1.0 / t.nmax();
        double beta = thr + (1 - 1e-9 - thr) * r.uniform(0.3, 1.0);
        s.pre_speed = beta;
        s.post_energy = kinetic_for_beta(species[s.sp].mass, beta);
        auto particle = fx.particle(s.sp, s.post_energy);
        s.post_speed = particle.speed().value();
        ld bm = (ld(s.pre_speed) + ld(s.post_speed)) / 2;
        optref::Dndx ref = optref::ref_dndx(t, bm, ld(charge) * charge);
        if (!(ref.lo() > 0) || !(ref.hi() < ref.lo() * ld(1.02)))
        {
            rep.held_trivial();
            return;
        }
        double target = r.uniform(16.05, 16.6);
        s.L = double(ld(target) / ref.lo());
        gen_geometry(r, s.L, s);
        auto sim = fx.simview(s.L, s.t0);
        OffloadPreStepData pre;
        pre.speed = units::LightSpeed{s.pre_speed};
        pre.pos = s.pre;
        pre.time = s.t0;
        pre.material = OpticalMaterialId{s.mat};
        optical::MaterialView mv(b.mats->host_ref(), OpticalMaterialId{s.mat});
        CerenkovOffload offload(particle, sim, mv, s.post, b.cer->host_ref(), pre);
        s.rng_seed = r.u64();
        verif::HostileEngine rng(s.rng_seed, 0.0, ~0ull);
        double mu = double((ref.hi() + ref.tol()) * s.L);
        double bound = mu + 12 * std::sqrt(mu) + 12;
        u64 const N = 2000;
        u64 good = 0;
        bool fired = false;
        for (u64 i = 0; i < N; ++i)
        {
            auto d = offload(rng);
            if (double(d.num_photons) > bound)
            {
                if (!fired)
                {
                    json w;
                    w["seed"] = args.seed;
                    w["case"] = ci;
                    w["generator"] = "cerenkov";
                    w["table"] = jtable(t);
                    w["step_input"] = jstep(s);
                    w["call_index"] = i;
                    w["num_photons"] = d.num_photons;
                    w["mean_lower"] = double(ref.lo() * s.L);
                    w["mean_upper"] = mu;
                    rep.violation("C20/photon-number/cerenkov-implausible",
                                  "sampled Cerenkov photon number is impossible for the "
                                  "documented mean",
                                  std::move(w));
                }
                fired = true;
            }
            else
                ++good;
        }
        rep.held("cer/count-gauss-edge/" + t.shape, good);
        rep.observe("count_edge_offload_calls", N);
    }

    void run_case(u64 ci, u64 cap)
    {
        verif::Rng r(verif::mix_seed(args.seed, ci));
        Built b;
        bool okb = false;
        guarded("params construction", [&] { okb = build(r, b, true); });
        if (!okb)
            return;
        for (int st = 0; st < 6; ++st)
        {
            StepIn s = gen_cerenkov_step(r, b.tables);
            guarded("cerenkov step", [&] { cerenkov_step(ci, st, b.tables, *b.mats, *b.cer, s, cap); });
        }
        for (int st = 0; st < 6; ++st)
        {
            StepIn s = gen_scint_step(r, b.smats);
            guarded("scintillation step", [&] { scint_step(ci, 6 + st, b.smats, *b.scint, s, cap); });
        }
        if (ci % (args.thorough() ? 64 : 8) == 0)
            guarded("cerenkov count edge", [&] { count_edge_case(ci, r, b); });
    }

    //-----------------------------------------------------------------------//
    // Thorough tier: distributional spot checks (random streams only)
    void stat_case(u64 ci)
    {
        verif::Rng r(verif::mix_seed(args.seed ^ 0x57a7157a7ull, ci));
        Built b;
        bool okb = false;
        guarded("params construction", [&] { okb = build(r, b, false); });
        if (!okb)
            return;
        double const ln6 = std::log(1e-6), ln9 = std::log(1e-9);
        // ---- Cerenkov photon number and spectrum
        guarded("cerenkov stat", [&] {
            StepIn s;
            s.mat = unsigned(r.integer(0, std::int64_t(b.tables.size()) - 1));
            RefTable const& t = b.tables[s.mat];
            s.sp = int(r.integer(0, num_charged - 1));
            double charge = species[s.sp].charge;
            double thr = 1.0 / t.nmax();
            double beta = thr + (1 - 1e-9 - thr) * r.uniform(0.2, 1.0);
            double hmax = std::min(beta * 0.5, 1 - 1e-12 - beta);
            double h = r.coin(0.3) ? 0.0 : r.uniform(0, hmax);
            s.pre_speed = beta + h;
            s.post_energy = kinetic_for_beta(species[s.sp].mass, beta - h);
            auto particle = fx.particle(s.sp, s.post_energy);
            s.post_speed = particle.speed().value();
            ld bm = (ld(s.pre_speed) + ld(s.post_speed)) / 2;
            optref::Dndx ref = optref::ref_dndx(t, bm, ld(charge) * charge);
            if (!(ref.lo() > 0))
            {
                rep.held_trivial();
                return;
            }
            double mu = r.uniform(0.5, 14.0);
            s.L = mu / double(ref.hi());
            gen_geometry(r, s.L, s);
            s.L = mu / double(ref.hi());
            auto sim = fx.simview(s.L, s.t0);
            OffloadPreStepData pre;
            pre.speed = units::LightSpeed{s.pre_speed};
            pre.pos = s.pre;
            pre.time = s.t0;
            pre.material = OpticalMaterialId{s.mat};
            optical::MaterialView mv(b.mats->host_ref(), OpticalMaterialId{s.mat});
            auto const& cref = b.cer->host_ref();
            CerenkovOffload offload(particle, sim, mv, s.post, cref, pre);
            s.rng_seed = r.u64();
            verif::HostileEngine rng(s.rng_seed, 0.0, ~0ull);
            // Knuth's exact Poisson sampler is documented for mean <= 16; sum of N draws is
            // Poisson(N mu): Chernoff bound vs the [lo, hi] band of the documented mean
            double mlo = double((ref.lo() - ref.tol()) * s.L), mhi = double((ref.hi() + ref.tol()) * s.L);
            auto run = [&](u64 N, optical::GeneratorDistributionData* keep) {
                double K = 0;
                for (u64 i = 0; i < N; ++i)
                {
                    auto d = offload(rng);
                    K += d.num_photons;
                    if (keep && d.num_photons > 0 && !*keep)
                        *keep = d;
                }
                double logp = 0;
                if (K < N * mlo)
                    logp = optref::poisson_tail_logp(K, N * mlo);
                else if (K > N * mhi)
                    logp = optref::poisson_tail_logp(K, N * mhi);
                return std::make_pair(K, logp);
            };
            optical::GeneratorDistributionData one;
            u64 N = 4000;
            auto r1 = run(N, &one);
            bool viol = false;
            if (r1.second < ln6)
            {
                rep.observe("stat_rerun_cerenkov_mean");
                auto r2 = run(16 * N, nullptr);
                if (r2.second < ln9)
                {
                    viol = true;
                    json w;
                    w["seed"] = args.seed;
                    w["stat_case"] = ci;
                    w["table"] = jtable(t);
                    w["step_input"] = jstep(s);
                    w["calls"] = 16 * N;
                    w["total_photons"] = r2.first;
                    w["expected_mean_per_call_lo"] = mlo;
                    w["expected_mean_per_call_hi"] = mhi;
                    w["log_p_bound"] = r2.second;
                    rep.violation("C20/stat/cerenkov-mean-photon-number",
                                  "mean Cerenkov photon number differs from <dN/dx> * step", w);
                }
            }
            if (!viol)
                rep.held("stat/cerenkov-mean/" + t.shape, 1);
            rep.observe_max("stat_cer_mean_min_logp", -r1.second);
            // spectrum split: fraction of photons above the midpoint of the emitting range vs
            // the exact integral of sin^2(theta) (binomial Chernoff/KL bound)
            if (one)
            {
                ld ib = 1 / bm;
                ld es = (ref.estar + ld(t.emax())) / 2;
                ld tot = optref::sin2_integral(t, ib, ref.estar, t.emax());
                ld top = optref::sin2_integral(t, ib, es, t.emax());
                double p = double(top / tot);
                // skip when the generator's rejection efficiency is too low to afford
                ld nb = bm * ld(t.nmax());
                ld acc = tot / ((1 - 1 / (nb * nb)) * (ld(t.emax()) - ld(t.emin())));
                if (!(acc > 1e-3))
                {
                    rep.observe("stat_spectrum_skipped_low_efficiency");
                    return;
                }
                optical::CerenkovGenerator gen(mv, cref, one);
                rng.set_limit(~0ull);
                auto runs = [&](u64 n) {
                    double k = 0;
                    for (u64 i = 0; i < n; ++i)
                    {
                        auto ph = gen(rng);
                        ++stat_photons;
                        if (ld(ph.energy.value()) > es)
                            ++k;
                    }
                    return std::make_pair(k, optref::binomial_tail_logp(k, double(n), p));
                };
                u64 n = 4000;
                auto s1 = runs(n);
                bool v2 = false;
                if (s1.second < ln6)
                {
                    rep.observe("stat_rerun_cerenkov_spectrum");
                    auto s2 = runs(16 * n);
                    if (s2.second < ln9)
                    {
                        v2 = true;
                        json w;
                        w["seed"] = args.seed;
                        w["stat_case"] = ci;
                        w["table"] = jtable(t);
                        w["step_input"] = jstep(s);
                        w["photons"] = 16 * n;
                        w["above_split"] = s2.first;
                        w["expected_fraction"] = p;
                        w["split_energy"] = double(es);
                        w["log_p_bound"] = s2.second;
                        rep.violation("C20/stat/cerenkov-energy-spectrum",
                                      "Cerenkov photon energies do not follow sin^2(theta(E))", w);
                    }
                }
                if (!v2)
                    rep.held("stat/cerenkov-spectrum/" + t.shape, 1);
            }
        });
        // ---- scintillation photon number (Poisson regime, documented mean = yield * edep)
        guarded("scintillation stat", [&] {
            StepIn s;
            s.mat = unsigned(r.integer(0, std::int64_t(b.smats.size()) - 1));
            ScintMat const& m = b.smats[s.mat];
            s.sp = int(r.integer(0, num_charged - 1));
            s.pre_speed = r.uniform(0.1, 0.999);
            s.post_energy = kinetic_for_beta(species[s.sp].mass, s.pre_speed * r.uniform(0.1, 1));
            double mu = r.uniform(0.5, 9.5);
            s.edep = mu / m.yield_per_energy;
            s.L = r.loguniform(1e-4, 10);
            gen_geometry(r, s.L, s);
            auto particle = fx.particle(s.sp, s.post_energy);
            s.post_speed = particle.speed().value();
            auto sim = fx.simview(s.L, s.t0);
            OffloadPreStepData pre;
            pre.speed = units::LightSpeed{s.pre_speed};
            pre.pos = s.pre;
            pre.time = s.t0;
            pre.material = OpticalMaterialId{s.mat};
            auto const& sref = b.scint->host_ref();
            ScintillationOffload offload(particle, sim, s.post, units::MevEnergy{s.edep}, sref, pre);
            s.rng_seed = r.u64();
            verif::HostileEngine rng(s.rng_seed, 0.0, ~0ull);
            double mean = m.yield_per_energy * s.edep;
            double mlo = mean * (1 - 8 * EPS), mhi = mean * (1 + 8 * EPS);
            auto run = [&](u64 N) {
                double K = 0;
                for (u64 i = 0; i < N; ++i)
                    K += offload(rng).num_photons;
                double logp = 0;
                if (K < N * mlo)
                    logp = optref::poisson_tail_logp(K, N * mlo);
                else if (K > N * mhi)
                    logp = optref::poisson_tail_logp(K, N * mhi);
                return std::make_pair(K, logp);
            };
            u64 N = 4000;
            auto r1 = run(N);
            bool viol = false;
            if (r1.second < ln6)
            {
                rep.observe("stat_rerun_scintillation_mean");
                auto r2 = run(16 * N);
                if (r2.second < ln9)
                {
                    viol = true;
                    json w;
                    w["seed"] = args.seed;
                    w["stat_case"] = ci;
                    w["scintillation"] = jscint(m);
                    w["step_input"] = jstep(s);
                    w["calls"] = 16 * N;
                    w["total_photons"] = r2.first;
                    w["expected_mean_per_call"] = mean;
                    w["log_p_bound"] = r2.second;
                    rep.violation("C20/stat/scintillation-mean-photon-number",
                                  "mean scintillation photon number differs from yield * "
                                  "energy deposition",
                                  w);
                }
            }
            if (!viol)
                rep.held("stat/scintillation-mean", 1);
        });
    }
};

}  // namespace

// family "offload-sequence" (offload_sequence.cc): the per-slot offload state over multi-step histories
void run_offload_sequences(verif::Report& rep, verif::Args const& args);

int main(int argc, char** argv)
{
    auto args = verif::parse_args(argc, argv);
    if (!args.property.empty() && args.property != "C20")
    {
        std::cerr << "optical_engine serves C20 only\n";
        return 2;
    }
    verif::Report rep("C20", "optical", args);
    rep.set_rule(
        "A case = one generated set of 1-3 optical materials (refractive-index table of 2-50 "
        "points, shapes two/linear/convex/concave/steps/nearflat, n in [1.0001,3]; "
        "scintillation spectrum of 1-3 components with rise time 0 or > 0) built through the "
        "production MaterialParams/CerenkovParams/ScintillationParams, plus 6 Cerenkov and 6 "
        "scintillation steps (mean beta from below threshold to 1-1e-12 incl. +-8 ulp around "
        "threshold, pre/post split incl. equal, accelerating and stopped; step length over 8 "
        "decades; step direction exactly +-z, within 1e-12..0.02 rad of it, along x/y, or "
        "isotropic; charges +-1, +-2 and neutral parents for scintillation; random or "
        "adversarial 32-bit stream reaching u=0 and u=1-2^-53). CerenkovOffload / "
        "ScintillationOffload are called with the real ParticleTrackView/SimTrackView and "
        "every photon returned by the generators (up to a per-step cap) is one evaluation, "
        "judged against the oracles listed in the engine header. A cell is (generator x "
        "threshold regime or photon-number regime x table shape or component count x rise-time "
        "class x pole class x stream kind); steps that produced no photon above threshold are "
        "trivial; steps below threshold with zero photons requested count as one non-trivial "
        "evaluation of the threshold clause. Thorough tier adds distributional spot checks. "
        "Family offload-sequence: scripted multi-step e-/e+/gamma tracks in two-boxes with the two "
        "volumes mapped to optical / non-optical / two different optical materials and 1-3 reused "
        "track slots, driven through the real OffloadGatherExecutor and CerenkovOffloadExecutor "
        "with a CoreTrackView; each step is one evaluation (gathered pre-step record and stored "
        "distribution must be those of this step or empty; photons lie on the true segment).");
    rep.assume("physical constants and unit conversions of celeritas (alpha, hbar, c, h, MeV) "
               "are trusted");
    rep.assume("canonical reals have 53 bits (GenerateCanonical32): Box-Muller |z| <= 8.5717 "
               "and -ln(u) <= 36.74 unless u == 0");
    rep.assume("the documented Cerenkov mean speed is (pre + post)/2 and the documented "
               "threshold is mean beta * n(E_max) <= 1 (tables are validated increasing)");

    Engine eng(args, rep);
    if (!args.replay.empty())
    {
        // replay file written by bin/check: re-run the case of the first witness
        std::ifstream f(args.replay);
        json j = json::parse(f, nullptr, false);
        if (j.is_discarded() || !j.contains("witnesses") || j["witnesses"].empty()
            || !(j["witnesses"][0]["case"].contains("case")
                 || j["witnesses"][0]["case"].contains("stat_case")))
        {
            std::cerr << "cannot replay " << args.replay << "\n";
            return 2;
        }
        auto const& c = j["witnesses"][0]["case"];
        verif::Args a2 = args;
        a2.seed = c["seed"].get<u64>();
        verif::Report rep2("C20", "optical", a2);
        Engine e2(a2, rep2);
        if (c.contains("case"))
            e2.run_case(c["case"].get<u64>(), 64);
        else
            e2.stat_case(c["stat_case"].get<u64>());
        return rep2.finish();
    }
    if (args.has("case"))
    {
        u64 ci = std::strtoull(args.get("case").c_str(), nullptr, 10);
        eng.run_case(ci, args.thorough() ? 32 : 64);
        return rep.finish();
    }
    u64 const budget = args.budget(3000000, 60000000);
    u64 const cap = args.thorough() ? 48 : 64;
    u64 ci = 0;
    for (; eng.photons < budget && ci < budget; ++ci)
    {
        eng.run_case(ci, cap);
        if (args.thorough() && ci % 16 == 0)
            eng.stat_case(ci / 16);
    }
    eng.flush();
    run_offload_sequences(rep, args);
    rep.note("cases", ci);
    rep.note("photons_judged", eng.photons);
    rep.note("photons_in_spot_checks", eng.stat_photons);
    return rep.finish();
}
