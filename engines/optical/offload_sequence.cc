//---------------------------------------------------------------------------//
// C20, family "offload-sequence": the per-slot optical offload state over multi-step
// histories.
//
// The generators are only as good as the step they are told about.  In the stepping loop
// that step is assembled by two executors that share per-slot state:
//   pre-step : detail::OffloadGatherExecutor    caches speed / position / time / optical
//                                               material of the slot's track
//   post-step: detail::CerenkovOffloadExecutor  builds the distribution from that cache and
//                                               the post-step state
// This family drives the REAL executors through a CoreTrackView over scripted tracks in the
// bundled two-boxes geometry whose two volumes are mapped to (optical, non-optical),
// (non-optical, optical) or two different optical materials, with slots reused by later
// tracks.  Oracle (independent record of what the script did):
//   * after the gather, the slot's pre-step record is either invalid (the pre-step volume has
//     no optical material) or equals the true pre-step speed/position/time/material bit for
//     bit;
//   * after the Cerenkov executor, the slot's distribution is either empty or describes THIS
//     step: pre/post positions, speeds, pre-step time, step length, charge and the optical
//     material of the pre-step volume; it is empty whenever the pre-step volume has no
//     optical material, the parent is neutral or the slot is inactive;
//   * every photon generated from a non-empty distribution lies on the true step segment and
//     is not earlier than the true pre-step time (the statement's position/time clauses,
//     evaluated against the scripted truth rather than against the distribution).
//---------------------------------------------------------------------------//
#include <cmath>
#include <cstdlib>
#include <memory>
#include <string>
#include <vector>

#include "corecel/data/CollectionStateStore.hh"
#include "corecel/math/ArrayUtils.hh"
#include "orange/OrangeParams.hh"
#include "celeritas/Quantities.hh"
#include "celeritas/Units.hh"
#include "celeritas/global/CoreTrackData.hh"
#include "celeritas/global/CoreTrackView.hh"
#include "celeritas/io/ImportOpticalMaterial.hh"
#include "celeritas/mat/MaterialParams.hh"
#include "celeritas/optical/CerenkovGenerator.hh"
#include "celeritas/optical/CerenkovParams.hh"
#include "celeritas/optical/MaterialParams.hh"
#include "celeritas/optical/OffloadData.hh"
#include "celeritas/optical/detail/CerenkovOffloadExecutor.hh"
#include "celeritas/optical/detail/OffloadGatherExecutor.hh"
#include "celeritas/phys/PDGNumber.hh"
#include "celeritas/phys/ParticleParams.hh"
#include "celeritas/random/RngParams.hh"
#include "celeritas/track/SimParams.hh"

#include "verif_celer.hh"
#include "verif_common.hh"

using namespace celeritas;
using verif::json;

namespace
{
template<template<Ownership, MemSpace> class S>
using HostStore = CollectionStateStore<S, MemSpace::host>;

json j3(Real3 const& a)
{
    return json{verif::hexd(a[0]), verif::hexd(a[1]), verif::hexd(a[2])};
}

struct Truth
{
    Real3 pre_pos{}, post_pos{};
    real_type pre_time{}, pre_speed{}, post_speed{}, length{};
    OpticalMaterialId optmat;
    int charge{};
};

struct World
{
    std::shared_ptr<OrangeParams> geo;
    std::shared_ptr<::celeritas::MaterialParams> mat;
    std::shared_ptr<ParticleParams> par;
    std::shared_ptr<SimParams> sim;
    std::shared_ptr<RngParams> rng;
    std::shared_ptr<optical::MaterialParams> optmat;
    std::shared_ptr<optical::CerenkovParams> cerenkov;
    std::vector<OpticalMaterialId> vol_to_opt;  // by volume id
    std::vector<MaterialId> vol_to_mat;
    HostStore<GeoStateData> geo_state;
    HostStore<MaterialStateData> mat_state;
    HostStore<ParticleStateData> par_state;
    HostStore<SimStateData> sim_state;
    HostStore<RngStateData> rng_state;
    HostStore<OffloadStateData> offload;
    HostCRef<CoreParamsData> params;
    HostRef<CoreStateData> states;
    size_type num_slots{};
    std::string mapping;
};

ImportOpticalProperty make_rindex(verif::Rng& r)
{
    ImportOpticalProperty p;
    p.refractive_index.vector_type = ImportPhysicsVectorType::free;
    int n = int(r.integer(2, 8));
    double e = r.uniform(1.0e-6, 2.0e-6), v = r.uniform(1.1, 1.6);
    for (int i = 0; i < n; ++i)
    {
        p.refractive_index.x.push_back(e);
        p.refractive_index.y.push_back(v);
        e += r.uniform(0.3e-6, 1.5e-6);
        v += r.uniform(0.001, 0.08);
    }
    return p;
}

std::unique_ptr<World> make_world(verif::Rng& r, std::string const& geofile)
{
    auto w = std::make_unique<World>();
    w->geo = std::make_shared<OrangeParams>(geofile);
    size_type const nvol = w->geo->volumes().size();
    VolumeId inner = w->geo->volumes().find_unique("inner");
    VolumeId world = w->geo->volumes().find_unique("world");
    if (!inner || !world)
        return nullptr;

    // mapping of the two volumes to optical materials
    int mode = int(r.integer(0, 2));
    w->mapping = mode == 0 ? "inner-optical" : mode == 1 ? "world-optical" : "both-optical-different";
    {
        ::celeritas::MaterialParams::Input inp;
        inp.elements = {{AtomicNumber{8}, units::AmuMass{16}, {}, "O"}, {AtomicNumber{26}, units::AmuMass{55.8}, {}, "Fe"}};
        inp.materials = {{native_value_from(units::MolCcDensity{0.1}), 293.0, MatterState::liquid, {{ElementId{0}, 1.0}}, "a"},
                         {native_value_from(units::MolCcDensity{0.14}), 293.0, MatterState::solid, {{ElementId{1}, 1.0}}, "b"}};
        // material 0 fills "inner", material 1 fills "world"
        if (mode == 0)
            inp.mat_to_optical = {OpticalMaterialId{0}, OpticalMaterialId{}};
        else if (mode == 1)
            inp.mat_to_optical = {OpticalMaterialId{}, OpticalMaterialId{0}};
        else
            inp.mat_to_optical = {OpticalMaterialId{0}, OpticalMaterialId{1}};
        std::vector<OpticalMaterialId> m2o = inp.mat_to_optical;
        w->mat = std::make_shared<::celeritas::MaterialParams>(inp);
        w->vol_to_mat.assign(nvol, MaterialId{1});
        w->vol_to_mat[inner.get()] = MaterialId{0};
        w->vol_to_opt.assign(nvol, OpticalMaterialId{});
        for (size_type v = 0; v < nvol; ++v)
            w->vol_to_opt[v] = m2o[w->vol_to_mat[v].get()];
    }
    {
        units::MevMass e_mass(0.5109989461);
        ParticleParams::Input inp;
        inp.push_back({"electron", pdg::electron(), e_mass, units::ElementaryCharge{-1}, constants::stable_decay_constant});
        inp.push_back({"positron", pdg::positron(), e_mass, units::ElementaryCharge{1}, constants::stable_decay_constant});
        inp.push_back({"gamma", pdg::gamma(), units::MevMass{0}, units::ElementaryCharge{0}, constants::stable_decay_constant});
        w->par = std::make_shared<ParticleParams>(std::move(inp));
    }
    {
        SimParams::Input inp;
        inp.particles = w->par;
        w->sim = std::make_shared<SimParams>(inp);
    }
    w->rng = std::make_shared<RngParams>(unsigned(r.integer(1, 1 << 30)));
    {
        optical::MaterialParams::Input inp;
        inp.properties.push_back(make_rindex(r));
        if (mode == 2)
            inp.properties.push_back(make_rindex(r));
        inp.volume_to_mat = w->vol_to_opt;
        w->optmat = std::make_shared<optical::MaterialParams>(std::move(inp));
        w->cerenkov = std::make_shared<optical::CerenkovParams>(w->optmat);
    }
    w->num_slots = size_type(r.integer(1, 3));
    w->geo_state = HostStore<GeoStateData>(w->geo->host_ref(), w->num_slots);
    w->mat_state = HostStore<MaterialStateData>(w->mat->host_ref(), w->num_slots);
    w->par_state = HostStore<ParticleStateData>(w->par->host_ref(), w->num_slots);
    w->sim_state = HostStore<SimStateData>(w->sim->host_ref(), w->num_slots);
    w->rng_state = HostStore<RngStateData>(w->rng->host_ref(), StreamId{0}, w->num_slots);
    w->params.geometry = w->geo->host_ref();
    w->params.materials = w->mat->host_ref();
    w->params.particles = w->par->host_ref();
    w->params.sim = w->sim->host_ref();
    w->params.rng = w->rng->host_ref();
    w->states.geometry = w->geo_state.ref();
    w->states.materials = w->mat_state.ref();
    w->states.particles = w->par_state.ref();
    w->states.sim = w->sim_state.ref();
    w->states.rng = w->rng_state.ref();
    w->states.stream_id = StreamId{0};
    OffloadParamsData<Ownership::const_reference, MemSpace::host> op;
    op.setup.cerenkov = true;
    op.setup.scintillation = false;
    op.setup.capacity = w->num_slots;
    w->offload = HostStore<OffloadStateData>(op, StreamId{0}, w->num_slots);
    return w;
}

bool same3(Real3 const& a, Real3 const& b)
{
    return a[0] == b[0] && a[1] == b[1] && a[2] == b[2];
}
}  // namespace

//---------------------------------------------------------------------------//
void run_offload_sequences(verif::Report& rep, verif::Args const& args)
{
    char const* repo = std::getenv("VERIF_REPO");
    std::string geofile = std::string(repo ? repo : "/repo") + "/test/geocel/data/two-boxes.org.json";
    std::uint64_t const ncases = args.budget(400, 20000);
    using DistId = ItemId<optical::GeneratorDistributionData>;

    for (std::uint64_t ci = 0; ci < ncases; ++ci)
    {
        std::uint64_t cseed = verif::mix_seed(args.seed, 0x0ff10ad000ull + ci);
        verif::Rng r(cseed);
        std::unique_ptr<World> wp;
        try
        {
            wp = make_world(r, geofile);
        }
        catch (RuntimeError const&)
        {
            rep.inconclusive("rejected input (offload-sequence world)");
            continue;
        }
        if (!wp)
        {
            rep.inconclusive("unexpected geometry file");
            continue;
        }
        World& w = *wp;
        int ntracks = int(r.integer(2, 6));
        try
        {
        for (int t = 0; t < ntracks; ++t)
        {
            TrackSlotId slot{size_type(r.integer(0, std::int64_t(w.num_slots) - 1))};
            CoreTrackView track(w.params, w.states, slot);
            // inner box is |x|<5; world is |x|<50 (two-boxes.org.json)
            bool start_inner = r.coin();
            double half = start_inner ? 4.5 : 45.0;
            Real3 pos;
            do
            {
                pos = Real3{r.uniform(-half, half), r.uniform(-half, half), r.uniform(-half, half)};
            } while (!start_inner && std::fabs(pos[0]) < 5.5 && std::fabs(pos[1]) < 5.5 && std::fabs(pos[2]) < 5.5);
            double d[3];
            r.unit3(d);
            if (!start_inner && r.coin(0.7))
            {
                // aim at the inner box so that the track changes material
                double n = std::sqrt(pos[0] * pos[0] + pos[1] * pos[1] + pos[2] * pos[2]);
                for (int a = 0; a < 3; ++a)
                    d[a] = -pos[a] / n + 0.05 * d[a];
            }
            Real3 dir = make_unit_vector(Real3{d[0], d[1], d[2]});
            int ptype = r.coin(0.15) ? 2 : int(r.integer(0, 1));
            double energy = r.coin(0.2) ? r.loguniform(1e-3, 0.2) : r.loguniform(0.3, 100);
            {
                ParticleTrackView::Initializer_t pinit;
                pinit.particle_id = ParticleId(size_type(ptype));
                pinit.energy = units::MevEnergy{energy};
                track.make_particle_view() = pinit;
                GeoTrackView::Initializer_t ginit;
                ginit.pos = pos;
                ginit.dir = dir;
                track.make_geo_view() = ginit;
                SimTrackView::Initializer_t sinit;
                sinit.track_id = TrackId{size_type(t)};
                sinit.parent_id = TrackId{};
                sinit.event_id = EventId{0};
                sinit.time = r.uniform(0, 1e-8);
                auto sim = track.make_sim_view();
                sim = sinit;
                sim.status(TrackStatus::alive);
                if (track.make_geo_view().is_outside())
                    continue;
                track.make_material_view()
                    = MaterialTrackView::Initializer_t{w.vol_to_mat[track.make_geo_view().volume_id().get()]};
            }
            int nsteps = int(r.integer(1, 6));
            for (int k = 0; k < nsteps; ++k)
            {
                auto geo = track.make_geo_view();
                auto sim = track.make_sim_view();
                auto particle = track.make_particle_view();
                if (geo.is_outside())
                    break;
                Truth tr;
                tr.pre_pos = geo.pos();
                tr.pre_time = sim.time();
                tr.pre_speed = particle.speed().value();
                tr.optmat = w.vol_to_opt[geo.volume_id().get()];
                tr.charge = ptype == 0 ? -1 : ptype == 1 ? 1 : 0;
                json wit{{"seed", args.seed}, {"sequence_case", ci}, {"track", t}, {"step", k}, {"slot", slot.get()},
                         {"mapping", w.mapping}, {"pre_volume", geo.volume_id().get()},
                         {"pre_volume_has_optical_material", bool(tr.optmat)},
                         {"particle", ptype == 0 ? "e-" : ptype == 1 ? "e+" : "gamma"},
                         {"pre_pos", j3(tr.pre_pos)}, {"pre_time", tr.pre_time}, {"pre_beta", tr.pre_speed}};

                // ---- pre-step: the real gather executor
                detail::OffloadGatherExecutor{w.offload.ref()}(track);
                {
                    OffloadPreStepData const& rec = w.offload.ref().step[slot];
                    bool expect_valid = bool(tr.optmat) && tr.pre_speed > 0;
                    bool ok = bool(rec) == expect_valid;
                    if (ok && expect_valid)
                        ok = rec.material == tr.optmat && rec.speed.value() == tr.pre_speed && rec.time == tr.pre_time
                             && same3(rec.pos, tr.pre_pos);
                    if (!ok)
                    {
                        json ww = wit;
                        ww["record"] = {{"valid", bool(rec)}, {"pos", j3(rec.pos)}, {"time", rec.time},
                                        {"beta", rec.speed.value()},
                                        {"material", rec.material ? int(rec.material.get()) : -1}};
                        rep.violation(expect_valid ? "C20/offload-sequence/gathered-pre-step-differs"
                                                   : "C20/offload-sequence/stale-pre-step-in-non-optical-material",
                                      "the slot's gathered pre-step record is not that of the current step "
                                      "(valid although the pre-step volume has no optical material, or fields differ)",
                                      ww);
                        continue;
                    }
                }

                // ---- scripted along-step
                double want = r.loguniform(1e-3, 30);
                auto prop = geo.find_next_step(want);
                if (prop.boundary)
                    geo.move_to_boundary();
                else
                    geo.move_internal(prop.distance);
                tr.length = prop.distance;
                sim.step_length(prop.distance);
                if (tr.pre_speed > 0)
                    sim.add_time(prop.distance / native_value_from(particle.speed()));
                double post_e = ptype == 2 ? particle.energy().value()
                                           : particle.energy().value() * (r.coin(0.1) ? 0.0 : r.uniform(0.3, 1.0));
                particle.energy(units::MevEnergy{post_e});
                tr.post_pos = geo.pos();
                tr.post_speed = particle.speed().value();
                if (post_e == 0)
                    sim.status(TrackStatus::killed);

                // ---- post-step: the real Cerenkov offload executor
                detail::CerenkovOffloadExecutor{w.optmat->host_ref(), w.cerenkov->host_ref(), w.offload.ref(),
                                                OffloadBufferSize{}}(track);
                optical::GeneratorDistributionData const dist = w.offload.ref().cerenkov[DistId{slot.get()}];
                wit["post_pos"] = j3(tr.post_pos);
                wit["step_length"] = tr.length;
                wit["post_beta"] = tr.post_speed;
                wit["num_photons"] = dist.num_photons;
                std::string const cellbase = std::string("offload-sequence/") + w.mapping + "/"
                                             + (tr.optmat ? "optical" : "non-optical") + "/"
                                             + (tr.charge ? "charged" : "neutral") + (k > 0 ? "/later-step" : "/first-step")
                                             + (t > 0 ? "/reused-slot" : "");
                if (dist.num_photons > 0)
                {
                    if (!tr.optmat || tr.charge == 0)
                    {
                        rep.violation("C20/offload-sequence/photons-for-step-without-optical-material-or-charge",
                                      "Cerenkov photons requested for a step whose pre-step volume has no optical "
                                      "material (or for a neutral parent)", wit);
                        continue;
                    }
                    bool same = dist.material == tr.optmat && dist.time == tr.pre_time && dist.step_length == tr.length
                                && dist.charge.value() == real_type(tr.charge)
                                && same3(dist.points[StepPoint::pre].pos, tr.pre_pos)
                                && same3(dist.points[StepPoint::post].pos, tr.post_pos)
                                && dist.points[StepPoint::pre].speed.value() == tr.pre_speed
                                && dist.points[StepPoint::post].speed.value() == tr.post_speed;
                    if (!same)
                    {
                        json ww = wit;
                        ww["distribution"] = {{"pre_pos", j3(dist.points[StepPoint::pre].pos)},
                                              {"post_pos", j3(dist.points[StepPoint::post].pos)},
                                              {"time", dist.time}, {"step_length", dist.step_length},
                                              {"material", dist.material ? int(dist.material.get()) : -1},
                                              {"pre_beta", dist.points[StepPoint::pre].speed.value()},
                                              {"post_beta", dist.points[StepPoint::post].speed.value()}};
                        rep.violation("C20/offload-sequence/distribution-not-from-this-step",
                                      "the Cerenkov distribution stored for the slot does not describe the step the "
                                      "track just took", ww);
                        continue;
                    }
                    // photons against the scripted truth: on the segment, not before the pre-step time
                    optical::MaterialView optview{w.optmat->host_ref(), dist.material};
                    optical::CerenkovGenerator gen(optview, w.cerenkov->host_ref(), dist);
                    auto rng = track.make_rng_engine();
                    size_type todo = std::min<size_type>(dist.num_photons, 8);
                    bool bad = false;
                    double seg[3], len2 = 0;
                    for (int a = 0; a < 3; ++a)
                    {
                        seg[a] = tr.post_pos[a] - tr.pre_pos[a];
                        len2 += seg[a] * seg[a];
                    }
                    for (size_type i = 0; i < todo && !bad; ++i)
                    {
                        auto ph = gen(rng);
                        double u = 0, off2 = 0;
                        for (int a = 0; a < 3; ++a)
                            u += (ph.position[a] - tr.pre_pos[a]) * seg[a];
                        u = len2 > 0 ? u / len2 : 0;
                        for (int a = 0; a < 3; ++a)
                        {
                            double q = ph.position[a] - (tr.pre_pos[a] + u * seg[a]);
                            off2 += q * q;
                        }
                        // rounding of pre + u*delta: a few ulp of the coordinates (|x| <= 50 cm)
                        double slack = 1e-12 * (50 + std::sqrt(len2));
                        if (!(u >= -1e-12 && u <= 1 + 1e-12 && std::sqrt(off2) <= slack && ph.time >= tr.pre_time))
                        {
                            json ww = wit;
                            ww["photon"] = {{"pos", j3(ph.position)}, {"time", ph.time}, {"fraction", u},
                                            {"off_segment", std::sqrt(off2)}};
                            rep.violation("C20/offload-sequence/photon-off-true-step",
                                          "photon generated from the slot's distribution is off the true step "
                                          "segment or earlier than the true pre-step time", ww);
                            bad = true;
                        }
                    }
                    if (bad)
                        continue;
                    rep.held(cellbase + "/photons");
                }
                else
                {
                    // nothing requested: non-trivial when that is the *required* outcome
                    if (!tr.optmat || tr.charge == 0)
                        rep.held(cellbase + "/none-required");
                    else
                        rep.held(cellbase + "/none-sampled");
                }
                if (rep.want_sample(10) && k > 0 && !tr.optmat)
                    rep.sample(wit, 10);

                // ---- end of step
                if (post_e == 0)
                    break;
                if (prop.boundary)
                {
                    geo.cross_boundary();
                    if (geo.is_outside())
                        break;
                    track.make_material_view() = MaterialTrackView::Initializer_t{w.vol_to_mat[geo.volume_id().get()]};
                }
                if (r.coin(0.4))
                {
                    double nd[3];
                    r.unit3(nd);
                    geo.set_dir(make_unit_vector(Real3{nd[0], nd[1], nd[2]}));
                }
            }
        }
        }
        catch (DebugError const& e)
        {
            // debug/asan replica: a bounds assertion is a memory-safety event, any other library
            // assertion only ends this scripted case (policy of DESIGN 2.1)
            if (verif::is_bounds_assertion(e))
                rep.violation(verif::bounds_key("C20", e), e.what(), json{{"seed", args.seed}, {"sequence_case", ci}});
            else
            {
                rep.inconclusive("debug-assert: " + verif::describe(e));
                rep.observe("assert:" + verif::describe(e));
            }
        }
    }
}
