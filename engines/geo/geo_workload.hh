// Geometry workload for the geo engine: (1) bundled .org.json files, (2) geometries
// generated through the orangeinp construction API, (3) hand-assembled UnitInput with
// general/simple quadrics, cones, non-convex logic and a background volume.
// Every function returns a celeritas::OrangeInput (the definition); the caller builds
// both the reference locator and OrangeParams from that same object.
#pragma once

#include <cmath>
#include <fstream>
#include <iostream>
#include <memory>
#include <string>
#include <vector>

#include "corecel/math/Turn.hh"
#include "orange/MatrixUtils.hh"
#include "orange/OrangeInput.hh"
#include "orange/OrangeTypes.hh"
#include "orange/orangeinp/CsgObject.hh"
#include "orange/orangeinp/InputBuilder.hh"
#include "orange/orangeinp/IntersectRegion.hh"
#include "orange/orangeinp/Shape.hh"
#include "orange/orangeinp/Solid.hh"
#include "orange/orangeinp/Transformed.hh"
#include "orange/orangeinp/UnitProto.hh"
#include "orange/surf/VariantSurface.hh"
#include "orange/transform/VariantTransform.hh"

#include "verif_common.hh"

namespace geo_workload
{
using namespace celeritas;
namespace oi = celeritas::orangeinp;
using oi::UnitProto;
using oi::InputBuilder;
using oi::ObjectInterface;
using oi::ProtoInterface;
using oi::Transformed;
using oi::VecSenseObj;
using oi::make_rdv;
using oi::SolidEnclosedAngle;
using verif::Rng;

using SPObj = std::shared_ptr<ObjectInterface const>;
using SPProto = std::shared_ptr<ProtoInterface const>;

//---------------------------------------------------------------------------//
// (1) bundled files
struct Bundled
{
    std::string name;
    std::string path;
};

inline std::vector<Bundled> bundled_files(std::string const& repo)
{
    static char const* const orange[] = {"field-layers",
                                         "five-volumes",
                                         "geant4-testem15",
                                         "hex-array",
                                         "inputbuilder-bgspheres",
                                         "inputbuilder-globalspheres",
                                         "inputbuilder-hierarchy",
                                         "inputbuilder-incomplete-bb",
                                         "inputbuilder-involute-cw",
                                         "inputbuilder-involute-fuel",
                                         "inputbuilder-involute",
                                         "inputbuilder-universe-union-boundary",
                                         "inputbuilder-universes",
                                         "nested-rect-arrays",
                                         "rect-array",
                                         "testem3",
                                         "universes"};
    static char const* const geocel[] = {"field-layers",
                                         "four-steel-slabs",
                                         "lar-sphere",
                                         "lead-box",
                                         "one-steel-sphere",
                                         "simple-cms",
                                         "testem15",
                                         "testem3-flat",
                                         "three-spheres",
                                         "two-boxes"};
    std::vector<Bundled> r;
    for (auto* n : orange)
        r.push_back({std::string("orange/") + n, repo + "/test/orange/data/" + n + ".org.json"});
    for (auto* n : geocel)
        r.push_back({std::string("geocel/") + n, repo + "/test/geocel/data/" + n + ".org.json"});
    return r;
}

// Read exactly as OrangeParams' file constructor does (JSON -> OrangeInput)
inline OrangeInput read_json(std::string const& path)
{
    std::ifstream in(path);
    if (!in)
        throw std::runtime_error("cannot open " + path);
    OrangeInput inp;
    in >> inp;
    return inp;
}

//---------------------------------------------------------------------------//
// (2) orangeinp generator
struct GenStats
{
    int units = 0;
    int materials = 0;
    int daughters = 0;
    int rotated = 0;
    int max_depth = 0;
};

class ProtoGenerator
{
  public:
    // deep: a separate family in which three universe levels with translated/rotated placements
    // are the rule (large world, few slots per unit, most slots filled by a daughter universe);
    // with deep == false the generator consumes exactly the random stream it always did
    ProtoGenerator(Rng& rng, GenStats& st, bool deep = false) : rng_(rng), st_(st), deep_(deep) {}

    // A shape centred at the origin of its own frame, with the half-widths of an
    // axis-aligned box inscribed in it (where contents may be placed)
    struct Bound
    {
        SPObj shape;
        double safe[3];
    };

    std::shared_ptr<UnitProto> make_global(int max_depth)
    {
        double scale = deep_ ? rng_.loguniform(60.0, 300.0) : rng_.loguniform(4.0, 60.0);
        Bound b = this->make_bound(scale, "world");
        return this->make_unit(b, true, max_depth, 0, "global");
    }

  private:
    Rng& rng_;
    GenStats& st_;
    bool deep_ = false;
    int counter_ = 0;

    std::string next_label(char const* base) { return std::string(base) + std::to_string(counter_++); }

    Bound make_bound(double scale, std::string const& label)
    {
        Bound b;
        int kind = int(rng_.integer(0, 2));
        if (kind == 0)
        {
            Real3 hw{scale * rng_.uniform(0.6, 1.0), scale * rng_.uniform(0.6, 1.0), scale * rng_.uniform(0.6, 1.0)};
            b.shape = std::make_shared<oi::BoxShape>(std::string(label), oi::Box{hw});
            for (int i = 0; i < 3; ++i)
                b.safe[i] = hw[i];
        }
        else if (kind == 1)
        {
            b.shape = std::make_shared<oi::SphereShape>(std::string(label), oi::Sphere{scale});
            for (int i = 0; i < 3; ++i)
                b.safe[i] = scale / std::sqrt(3.0) * 0.98;
        }
        else
        {
            double r = scale * rng_.uniform(0.6, 1.0), hh = scale * rng_.uniform(0.6, 1.0);
            b.shape = std::make_shared<oi::CylinderShape>(std::string(label), oi::Cylinder{r, hh});
            b.safe[0] = b.safe[1] = r / std::sqrt(2.0) * 0.98;
            b.safe[2] = hh;
        }
        return b;
    }

    VariantTransform make_transform(Real3 const& t, bool& rotated)
    {
        rotated = rng_.coin(0.45);
        if (!rotated)
            return Translation{t};
        Real3 ax;
        double d[3];
        rng_.unit3(d);
        ax = {d[0], d[1], d[2]};
        // mix of "nice" (quarter/half turns about axes) and general rotations
        if (rng_.coin(0.3))
        {
            Axis a = static_cast<Axis>(rng_.integer(0, 2));
            double q = 0.25 * double(rng_.integer(1, 3));
            return Transformation{make_rotation(a, Turn{q}), t};
        }
        return Transformation{make_rotation(ax, Turn{rng_.uniform(0.02, 0.98)}), t};
    }

    // An object with circumscribed radius <= rho, centred at the origin
    SPObj make_object(double rho, std::string const& label)
    {
        int kind = int(rng_.integer(0, 8));
        if (kind == 5 && rho < 0.3)
            kind = 1;
        switch (kind)
        {
            case 0: {
                double s = rho / std::sqrt(3.0);
                Real3 hw{s * rng_.uniform(0.3, 1.0), s * rng_.uniform(0.3, 1.0), s * rng_.uniform(0.3, 1.0)};
                return std::make_shared<oi::BoxShape>(std::string(label), oi::Box{hw});
            }
            case 1: return std::make_shared<oi::SphereShape>(std::string(label), oi::Sphere{rho * rng_.uniform(0.4, 1.0)});
            case 2: {
                double a = rng_.uniform(0.3, 1.2);
                double r = rho * std::cos(a) * rng_.uniform(0.5, 1.0), hh = rho * std::sin(a);
                return std::make_shared<oi::CylinderShape>(std::string(label), oi::Cylinder{r, hh});
            }
            case 3: {
                double a = rng_.uniform(0.4, 1.1);
                double rmax = rho * std::cos(a), hh = rho * std::sin(a);
                double r1 = rmax * rng_.uniform(0.0, 1.0), r2 = rmax * rng_.uniform(0.3, 1.0);
                if (rng_.coin(0.3))
                    r1 = 0;
                if (std::fabs(r1 - r2) < 0.05 * rmax)
                    r1 = 0.5 * r2;
                if (rng_.coin())
                    std::swap(r1, r2);
                return std::make_shared<oi::ConeShape>(std::string(label), oi::Cone{{r1, r2}, hh});
            }
            case 4: {
                int n = int(rng_.integer(3, 8));
                double a = rng_.uniform(0.4, 1.1);
                double circ = rho * std::cos(a), hh = rho * std::sin(a);
                double apothem = circ * std::cos(M_PI / n) * 0.95;
                return std::make_shared<oi::PrismShape>(std::string(label), oi::Prism{n, apothem, hh, rng_.uniform(0.0, 0.999)});
            }
            case 5: {
                Real3 r{rho * rng_.uniform(0.3, 1.0), rho * rng_.uniform(0.3, 1.0), rho * rng_.uniform(0.3, 1.0)};
                if (std::getenv("GEO_DEBUG"))
                    std::cerr << "ellipsoid " << label << " radii " << r[0] << " " << r[1] << " " << r[2] << "\n";
                return std::make_shared<oi::EllipsoidShape>(std::string(label), oi::Ellipsoid{r});
            }
            case 6: {
                double ro = rho * rng_.uniform(0.6, 1.0), ri = ro * rng_.uniform(0.2, 0.8);
                return std::make_shared<oi::SphereSolid>(std::string(label), oi::Sphere{ro}, oi::Sphere{ri});
            }
            case 7: {
                double a = rng_.uniform(0.4, 1.1);
                double ro = rho * std::cos(a), hh = rho * std::sin(a), ri = ro * rng_.uniform(0.2, 0.8);
                if (rng_.coin())
                    return std::make_shared<oi::CylinderSolid>(std::string(label), oi::Cylinder{ro, hh}, oi::Cylinder{ri, hh});
                return std::make_shared<oi::CylinderSolid>(std::string(label),
                                                       oi::Cylinder{ro, hh},
                                                       SolidEnclosedAngle{Turn{rng_.uniform(0.0, 1.0)},
                                                                          Turn{rng_.uniform(0.1, 0.45)}});
            }
            default: {
                double a = rng_.uniform(0.4, 1.1);
                double rmax = rho * std::cos(a), hh = rho * std::sin(a);
                double ro1 = rmax * rng_.uniform(0.5, 1.0), ro2 = rmax * rng_.uniform(0.5, 1.0);
                double f = rng_.uniform(0.2, 0.8);
                return std::make_shared<oi::ConeSolid>(std::string(label), oi::Cone{{ro1, ro2}, hh}, oi::Cone{{ro1 * f, ro2 * f}, hh});
            }
        }
    }

    std::shared_ptr<UnitProto>
    make_unit(Bound const& bound, bool global, int depth_left, int depth, std::string const& label)
    {
        st_.units++;
        st_.max_depth = std::max(st_.max_depth, depth);
        UnitProto::Input inp;
        inp.label = label;
        inp.boundary.interior = bound.shape;

        // Partition the safe box into slots
        int n[3];
        for (int i = 0; i < 3; ++i)
            n[i] = int(rng_.integer(1, 2));
        if (rng_.coin(0.2))
            n[int(rng_.integer(0, 2))] = 3;
        if (deep_)
        {
            n[0] = n[1] = n[2] = 1;
            if (rng_.coin(0.5))
                n[int(rng_.integer(0, 2))] = 2;
        }
        struct Slot
        {
            Real3 c;
            double h;
        };
        std::vector<Slot> slots;
        for (int i = 0; i < n[0]; ++i)
            for (int j = 0; j < n[1]; ++j)
                for (int k = 0; k < n[2]; ++k)
                {
                    int idx[3] = {i, j, k};
                    Slot s;
                    s.h = 1e300;
                    for (int a = 0; a < 3; ++a)
                    {
                        double w = 2 * bound.safe[a] / n[a];
                        s.c[a] = -bound.safe[a] + w * (idx[a] + 0.5);
                        s.h = std::min(s.h, w / 2);
                    }
                    slots.push_back(s);
                }

        // A daughter proto may be placed more than once (several instances)
        std::shared_ptr<UnitProto> reuse;
        Bound reuse_bound;
        double reuse_rho = 0;

        std::vector<SPObj> placed;  // for the explicit "rest" volume
        for (auto const& s : slots)
        {
            if (rng_.coin(0.25))
                continue;  // leave empty
            double rho = 0.8 * s.h;
            // jitter the centre inside the slack
            Real3 c = s.c;
            for (int a = 0; a < 3; ++a)
                c[a] += rng_.uniform(-0.1, 0.1) * s.h;
            rho *= 0.85;
            bool rotated = false;
            // (objects are kept larger than ~0.1: tiny ellipsoids send the surface simplifier of the
            // construction code into unbounded recursion -- outside the scope of this engine)
            if (depth_left > 0 && rho > 0.6 && rng_.coin(deep_ ? 0.85 : 0.35))
            {
                // daughter universe
                std::shared_ptr<UnitProto> proto;
                if (reuse && reuse_rho <= rho && rng_.coin(0.5))
                {
                    proto = reuse;
                }
                else
                {
                    Bound b = this->make_bound_for_daughter(rho);
                    proto = this->make_unit(b, false, depth_left - 1, depth + 1, this->next_label("u"));
                    reuse = proto;
                    reuse_bound = b;
                    reuse_rho = rho;
                }
                UnitProto::DaughterInput d;
                d.fill = proto;
                d.transform = this->make_transform(c, rotated);
                d.zorder = ZOrder::media;
                inp.daughters.push_back(d);
                st_.daughters++;
            }
            else
            {
                SPObj obj = this->make_object(rho, this->next_label("m"));
                VariantTransform t = this->make_transform(c, rotated);
                UnitProto::MaterialInput m;
                m.interior = std::make_shared<Transformed>(obj, t);
                m.fill = GeoMaterialId{GeoMaterialId::size_type(rng_.integer(0, 3))};
                m.label = Label{std::string(obj->label())};
                inp.materials.push_back(m);
                st_.materials++;
            }
            if (rotated)
                st_.rotated++;
        }

        // Fill of the remainder: background volume or an explicit (non-convex) volume
        bool use_background = rng_.coin(0.5);
        if (use_background)
        {
            inp.background.fill = GeoMaterialId{4};
            inp.background.label = Label{label + "_bg"};
            // explicit or implicit boundary
            inp.boundary.zorder = rng_.coin() ? ZOrder::media : ZOrder::exterior;
        }
        else
        {
            inp.boundary.zorder = ZOrder::media;
            VecSenseObj rest;
            rest.push_back({Sense::inside, bound.shape});
            for (auto const& d : inp.daughters)
                rest.push_back({Sense::outside, d.make_interior()});
            for (auto const& m : inp.materials)
                rest.push_back({Sense::outside, m.interior});
            UnitProto::MaterialInput m;
            m.interior = make_rdv(label + "_rest", std::move(rest));
            m.fill = GeoMaterialId{5};
            m.label = Label{label + "_rest"};
            inp.materials.push_back(m);
        }
        (void)global;
        return std::make_shared<UnitProto>(std::move(inp));
    }

    Bound make_bound_for_daughter(double rho)
    {
        Bound b;
        int kind = int(rng_.integer(0, 2));
        std::string label = this->next_label("b");
        if (kind == 0)
        {
            double s = rho / std::sqrt(3.0);
            Real3 hw{s * rng_.uniform(0.6, 1.0), s * rng_.uniform(0.6, 1.0), s * rng_.uniform(0.6, 1.0)};
            b.shape = std::make_shared<oi::BoxShape>(std::move(label), oi::Box{hw});
            for (int i = 0; i < 3; ++i)
                b.safe[i] = hw[i] * 0.98;
        }
        else if (kind == 1)
        {
            double r = rho * rng_.uniform(0.7, 1.0);
            b.shape = std::make_shared<oi::SphereShape>(std::move(label), oi::Sphere{r});
            for (int i = 0; i < 3; ++i)
                b.safe[i] = r / std::sqrt(3.0) * 0.98;
        }
        else
        {
            double a = rng_.uniform(0.5, 1.0);
            double r = rho * std::cos(a), hh = rho * std::sin(a);
            b.shape = std::make_shared<oi::CylinderShape>(std::move(label), oi::Cylinder{r, hh});
            b.safe[0] = b.safe[1] = r / std::sqrt(2.0) * 0.98;
            b.safe[2] = hh * 0.98;
        }
        return b;
    }
};

inline OrangeInput generate_orangeinp(Rng& rng, GenStats& st, bool deep = false)
{
    ProtoGenerator gen(rng, st, deep);
    int depth = deep ? 3 : int(rng.integer(0, 3));
    auto global = gen.make_global(depth);
    // A valid construction/tracking tolerance is a documented precondition of InputBuilder
    InputBuilder::Options opts;
    double u = rng.uniform();
    opts.tol = (u < 0.6) ? Tolerance<>::from_default()
                         : (u < 0.8 ? Tolerance<>::from_relative(1e-6, 1.0) : Tolerance<>::from_relative(1e-5, 1.0));
    InputBuilder build(std::move(opts));
    return build(*global);
}

//---------------------------------------------------------------------------//
// (3) hand-assembled unit: quadrics, cone, non-convex logic, background volume
//
// World: sphere R (exterior = outside). Objects, well separated along x:
//   A: rotated ellipsoid as a general quadric (gq)
//   B: axis-aligned ellipsoid as simple quadric (sq)
//   C: union of two overlapping spheres (non-convex, logic "a ~ b ~ |", internal surfaces)
//   D: frustum of a z cone between two pz planes (kz)
//   E: sphere with a slab cut out of it ("s ~ (p1 ~ p2 &) ~ &" -> non-convex, 2 pieces)
// Remainder: background volume (or an explicit complement with internal surfaces).
inline OrangeInput generate_handmade(Rng& rng)
{
    UnitInput u;
    u.label = Label{"hand"};
    auto add_surface = [&u](VariantSurface s, std::string name) {
        u.surfaces.push_back(std::move(s));
        u.surface_labels.push_back(Label{name});
        return logic_int(u.surfaces.size() - 1);
    };
    double R = rng.uniform(20.0, 40.0);
    double L = R / 3.2;  // spacing of object centres along x
    double rho = 0.42 * L;  // max object radius

    logic_int s_world = add_surface(celeritas::SphereCentered{R}, "world");

    struct VolDef
    {
        std::vector<logic_int> surfs;  // global surface ids used (sorted later)
        std::vector<logic_int> logic;  // in terms of *positions in surfs*
        unsigned flags;
        std::string name;
    };
    std::vector<VolDef> defs;
    using namespace logic;

    // exterior
    defs.push_back({{s_world}, {0}, 0u, "exterior"});

    auto centre = [&](int i) {
        return Real3{(i - 2) * L, rng.uniform(-0.3, 0.3) * L, rng.uniform(-0.3, 0.3) * L};
    };

    // A: rotated ellipsoid (x-c)^T M (x-c) = 1 with M = Q diag(1/r^2) Q^T
    {
        Real3 c = centre(0);
        double r[3] = {rho * rng.uniform(0.4, 1.0), rho * rng.uniform(0.4, 1.0), rho * rng.uniform(0.4, 1.0)};
        double d[3];
        rng.unit3(d);
        auto Q = make_rotation(Real3{d[0], d[1], d[2]}, Turn{rng.uniform(0.05, 0.45)});
        double M[3][3];
        for (int i = 0; i < 3; ++i)
            for (int j = 0; j < 3; ++j)
            {
                M[i][j] = 0;
                for (int k = 0; k < 3; ++k)
                    M[i][j] += Q[i][k] * Q[j][k] / (r[k] * r[k]);
            }
        // f = sum M_ij (x_i-c_i)(x_j-c_j) - 1
        Real3 second{M[0][0], M[1][1], M[2][2]};
        Real3 cross{2 * M[0][1], 2 * M[1][2], 2 * M[0][2]};
        Real3 first;
        for (int i = 0; i < 3; ++i)
            first[i] = -2 * (M[i][0] * c[0] + M[i][1] * c[1] + M[i][2] * c[2]);
        double zeroth = -1;
        for (int i = 0; i < 3; ++i)
            for (int j = 0; j < 3; ++j)
                zeroth += M[i][j] * c[i] * c[j];
        logic_int s = add_surface(celeritas::GeneralQuadric{second, cross, first, zeroth}, "gq_ellipsoid");
        defs.push_back({{s}, {0, lnot}, 0u, "A_gq"});
    }
    // B: simple quadric ellipsoid
    {
        Real3 c = centre(1);
        double r[3] = {rho * rng.uniform(0.4, 1.0), rho * rng.uniform(0.4, 1.0), rho * rng.uniform(0.4, 1.0)};
        Real3 second{1 / (r[0] * r[0]), 1 / (r[1] * r[1]), 1 / (r[2] * r[2])};
        Real3 first{-2 * c[0] * second[0], -2 * c[1] * second[1], -2 * c[2] * second[2]};
        double zeroth = -1 + c[0] * c[0] * second[0] + c[1] * c[1] * second[1] + c[2] * c[2] * second[2];
        logic_int s = add_surface(celeritas::SimpleQuadric{second, first, zeroth}, "sq_ellipsoid");
        defs.push_back({{s}, {0, lnot}, 0u, "B_sq"});
    }
    // C: union of two spheres
    {
        Real3 c = centre(2);
        double r1 = rho * rng.uniform(0.45, 0.6), r2 = rho * rng.uniform(0.3, 0.45);
        double sep = rng.uniform(0.5, 0.9) * r1;
        Real3 c2{c[0], c[1] + sep, c[2]};
        logic_int a = add_surface(celeritas::Sphere{c, r1}, "C_s1");
        logic_int b = add_surface(celeritas::Sphere{c2, r2}, "C_s2");
        defs.push_back({{a, b}, {0, lnot, 1, lnot, lor}, unsigned(VolumeRecord::internal_surfaces), "C_union"});
    }
    // D: cone frustum
    {
        Real3 c = centre(3);
        double hh = rho * rng.uniform(0.4, 0.7);
        double tn = rng.uniform(0.2, 0.6);
        // apex below the frustum: radius at height z is tn*(z - apex)
        double apex = c[2] - hh - rho * rng.uniform(0.2, 0.5);
        // make sure top radius fits
        double rtop = tn * (c[2] + hh - apex);
        if (rtop > 0.7 * rho)
            tn *= 0.7 * rho / rtop;
        logic_int k = add_surface(ConeAligned<Axis::z>{Real3{c[0], c[1], apex}, tn}, "D_cone");
        logic_int lo = add_surface(PlaneAligned<Axis::z>{c[2] - hh}, "D_lo");
        logic_int hi = add_surface(PlaneAligned<Axis::z>{c[2] + hh}, "D_hi");
        defs.push_back({{k, lo, hi}, {0, lnot, 1, land, 2, lnot, land}, 0u, "D_frustum"});
    }
    // E: sphere minus slab (two caps)
    {
        Real3 c = centre(4);
        double r = rho * rng.uniform(0.6, 0.9);
        double w = r * rng.uniform(0.15, 0.4);
        double d[3];
        rng.unit3(d);
        Real3 nrm{d[0], d[1], d[2]};
        double disp = nrm[0] * c[0] + nrm[1] * c[1] + nrm[2] * c[2];
        logic_int s = add_surface(celeritas::Sphere{c, r}, "E_sph");
        logic_int p1 = add_surface(celeritas::Plane{nrm, disp - w}, "E_p1");
        logic_int p2 = add_surface(celeritas::Plane{nrm, disp + w}, "E_p2");
        // inside sphere AND NOT (above p1 AND below p2)
        defs.push_back({{s, p1, p2},
                        {0, lnot, 1, 2, lnot, land, lnot, land},
                        unsigned(VolumeRecord::internal_surfaces),
                        "E_caps"});
        // the slab piece is its own simple volume
        defs.push_back({{s, p1, p2}, {0, lnot, 1, land, 2, lnot, land}, 0u, "E_slab"});
    }

    bool use_background = rng.coin(0.6);
    // Build VolumeInput (faces sorted; logic remapped to face positions)
    for (auto const& d : defs)
    {
        VolumeInput v;
        std::vector<logic_int> sorted = d.surfs;
        std::sort(sorted.begin(), sorted.end());
        for (auto s : sorted)
            v.faces.push_back(LocalSurfaceId{s});
        for (auto tok : d.logic)
        {
            if (tok < lbegin)
            {
                logic_int sid = d.surfs[tok];
                logic_int pos = logic_int(std::find(sorted.begin(), sorted.end(), sid) - sorted.begin());
                v.logic.push_back(pos);
            }
            else
                v.logic.push_back(tok);
        }
        v.flags = d.flags;
        v.zorder = ZOrder::media;
        v.bbox = BBox::from_infinite();
        v.label = Label{d.name};
        u.volumes.push_back(std::move(v));
    }
    u.volumes.front().zorder = use_background ? ZOrder::exterior : ZOrder::media;
    if (use_background)
    {
        VolumeInput v;
        for (logic_int s = 0; s < u.surfaces.size(); ++s)
            v.faces.push_back(LocalSurfaceId{s});
        v.logic = {ltrue, lnot};
        v.bbox = {};
        v.zorder = ZOrder::background;
        v.flags = VolumeRecord::implicit_vol;
        v.label = Label{"bg"};
        u.volumes.push_back(std::move(v));
    }
    else
    {
        // explicit complement: inside world and outside every object volume
        VolumeInput v;
        for (logic_int s = 0; s < u.surfaces.size(); ++s)
            v.faces.push_back(LocalSurfaceId{s});
        // all faces => face position == surface id
        std::vector<logic_int> lg = {logic_int(s_world), lnot};
        for (std::size_t i = 1; i < defs.size(); ++i)
        {
            auto const& d = defs[i];
            for (auto tok : d.logic)
                lg.push_back(tok < lbegin ? d.surfs[tok] : tok);
            lg.push_back(lnot);
            lg.push_back(land);
        }
        v.logic = lg;
        v.flags = VolumeRecord::internal_surfaces;
        v.zorder = ZOrder::media;
        v.bbox = BBox::from_infinite();
        v.label = Label{"rest"};
        u.volumes.push_back(std::move(v));
    }
    u.bbox = BBox{Real3{-R, -R, -R}, Real3{R, R, R}};

    OrangeInput inp;
    inp.universes.push_back(std::move(u));
    inp.tol = Tolerance<>::from_default();
    return inp;
}

}  // namespace geo_workload
