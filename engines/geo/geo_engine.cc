// Engine `geo`: properties C03 (navigation == true point location along every ray and under
// operation sequences) and C11 (safety distance is conservative).
//
// Real code under test: celeritas::OrangeParams + celeritas::OrangeTrackView (host).
// Oracle: verif::refloc::RefLocator (lib/ref_locator.hh), an independent point locator over
// the OrangeInput definition, plus a sphere-tracing ray marcher built on its rigorous
// distance margins.
//
// Common judgement ("leg check"): whenever the navigator moves along a straight leg
// [p, p + L d] while claiming to be in instance path P, the reference path is traced along
// that leg. A maximal sub-interval where the reference path differs from P is
//   * fine          if it is not longer than tol_s = 10*tol_geo + rounding (boundary displaced
//                   by no more than the geometry tolerance),
//   * a VIOLATION   if it contains a point that is farther than K*tol_geo (K = 100) from every
//                   surface (the navigator is unambiguously in the wrong volume),
//   * untestable    otherwise (the whole disagreement hugs a surface within the tolerance
//                   band: grazing rays, corners, slivers) -- counted, not judged; because the
//                   check is repeated on every later leg, paths must re-synchronise.
// Distance check: the distance returned by find_next_step must agree within tol_s with the
// reference distance to the first departure from P when that crossing is testable
// (incidence |n.d| >= 1e-4, no second non-parallel surface within K*tol_geo, neighbouring
// segments longer than K*tol_geo).
#include <algorithm>
#include <cmath>
#include <cstdio>
#include <fstream>
#include <iostream>
#include <limits>
#include <map>
#include <memory>
#include <set>
#include <string>
#include <vector>

#include "corecel/Assert.hh"
#include "corecel/data/CollectionStateStore.hh"
#include "corecel/io/Logger.hh"
#include "orange/OrangeData.hh"
#include "orange/OrangeInput.hh"
#include "orange/OrangeParams.hh"
#include "orange/OrangeTrackView.hh"
#include "orange/detail/LevelStateAccessor.hh"

#include "geo_workload.hh"
#include "ref_locator.hh"
#include "verif_celer.hh"
#include "verif_common.hh"

using namespace celeritas;
using verif::json;
using verif::Report;
using verif::Rng;
using verif::refloc::ld;
using verif::refloc::NearSurface;
using verif::refloc::RefLocator;
using RefResult = verif::refloc::Result;

namespace
{
//---------------------------------------------------------------------------//
constexpr double K_TOL = 100.0;  // "farther than tolerance": 100 x documented tolerance
constexpr double GRAZING = 1e-4;  // |n.d| below this: crossing is not judged
ld const LINF = std::numeric_limits<ld>::infinity();

using Path = std::vector<std::pair<int, int>>;  // (universe, local volume) per level

std::string path_str(Path const& p)
{
    std::string s;
    for (auto const& e : p)
        s += (s.empty() ? "" : "/") + std::to_string(e.first) + ":" + std::to_string(e.second);
    return s;
}

Path path_of(RefResult const& r)
{
    Path p;
    for (auto const& e : r.path)
        p.emplace_back(e.universe, e.volume);
    return p;
}

//---------------------------------------------------------------------------//
using HostStateStore = CollectionStateStore<OrangeStateData, MemSpace::host>;

struct Geo
{
    std::string name;
    std::string family;
    int index = 0;
    OrangeInput input;
    std::unique_ptr<RefLocator> loc;
    std::shared_ptr<OrangeParams> params;
    HostStateStore state;
    double lo[3], hi[3];
    double scale = 1;  // max(1, world diagonal)
    double tol_world = 0;  // largest documented tolerance inside the world box
    bool has_involute = false;
    // pool of interior start points bucketed by instance path
    std::vector<std::vector<std::array<double, 3>>> pool;
    std::vector<std::array<double, 3>> special;  // sphere centres / cylinder axis points

    double tol_at(double const* p) const { return loc->tolerance_at(p); }
    double tol_at(ld const* p) const
    {
        double q[3] = {double(p[0]), double(p[1]), double(p[2])};
        return loc->tolerance_at(q);
    }
};

//---------------------------------------------------------------------------//
// Thin access to the navigator state (read-only) + the track view under test
struct Nav
{
    Geo& g;
    OrangeTrackView tv;

    explicit Nav(Geo& geo) : g(geo), tv(geo.params->host_ref(), geo.state.ref(), TrackSlotId{0}) {}

    int num_levels() const { return int(g.state.ref().level[TrackSlotId{0}].unchecked_get()) + 1; }
    Path path() const
    {
        Path p;
        int n = num_levels();
        for (int i = 0; i < n; ++i)
        {
            detail::LevelStateAccessor lsa(&g.state.ref(), TrackSlotId{0}, LevelId(i));
            p.emplace_back(int(lsa.universe().unchecked_get()), int(lsa.vol().unchecked_get()));
        }
        return p;
    }
    Real3 local_pos(int level) const
    {
        detail::LevelStateAccessor lsa(&g.state.ref(), TrackSlotId{0}, LevelId(level));
        return lsa.pos();
    }
    Real3 local_dir(int level) const
    {
        detail::LevelStateAccessor lsa(&g.state.ref(), TrackSlotId{0}, LevelId(level));
        return lsa.dir();
    }
    int surface_level() const
    {
        auto l = g.state.ref().surface_level[TrackSlotId{0}];
        return l ? int(l.unchecked_get()) : -1;
    }
    bool reentrant_flag() const { return g.state.ref().boundary[TrackSlotId{0}] == BoundaryResult::reentrant; }
};

//---------------------------------------------------------------------------//
// Reference ray tracer (sphere tracing on the locator's rigorous margins + bisection)
struct RefSeg
{
    ld s0 = 0, s1 = 0;
    Path path;
    bool valid = true;
    bool outside = false;
};

struct RefTrace
{
    std::vector<RefSeg> segs;  // consecutive; crossing k is at segs[k].s1 == segs[k+1].s0
    bool ended_outside = false;
    bool budget_exceeded = false;
    bool invalid = false;  // overlap / gap met
    std::string invalid_why;
    long nlocate = 0;
    ld s_end = 0;
};

struct TraceOpts
{
    ld smin = 0;  // trace at least this far
    ld smax = 0;  // never beyond
    bool stop_outside = true;
    Path const* claimed = nullptr;  // if set: may stop (beyond smin) once the reference path has
                                    // left `claimed` and stayed away for `tail`
    ld tail = 0;
    long budget = 60000;
};

RefTrace trace_ref(Geo const& g, ld const* p0, ld const* d, TraceOpts const& o)
{
    RefTrace tr;
    // step control: hmin is far below the geometry tolerance so that every sub-tolerance
    // feature wider than ~4e-3 tol is still resolved
    ld const hmin = 1e-3L * ld(g.loc->tol_abs());
    ld const hprobe = 4 * hmin;
    ld const btol = 1e-16L * ld(g.scale);

    auto at = [&](ld s, ld* q) {
        for (int i = 0; i < 3; ++i)
            q[i] = p0[i] + s * d[i];
    };
    auto loc_at = [&](ld s) {
        ld q[3];
        at(s, q);
        ++tr.nlocate;
        return g.loc->locate(q, 0, d);
    };
    ld s = 0;
    RefResult cur = loc_at(0);
    RefSeg seg;
    seg.s0 = 0;
    seg.path = path_of(cur);
    seg.valid = cur.valid();
    seg.outside = cur.outside();
    ld departed_at = -1;
    auto check_departure = [&](RefSeg const& closed, RefSeg const& opened) {
        if (o.claimed && departed_at < 0 && closed.path == *o.claimed && opened.path != *o.claimed)
            departed_at = opened.s0;
    };
    for (;;)
    {
        if (!cur.valid())
        {
            tr.invalid = true;
            tr.invalid_why = cur.overlap ? "overlap" : (cur.nowhere ? "gap" : "bad-logic");
            break;
        }
        if (o.stop_outside && cur.outside())
        {
            tr.ended_outside = true;
            break;
        }
        if (s >= o.smax)
            break;
        if (s >= o.smin && (!o.claimed || (departed_at >= 0 && s >= departed_at + o.tail)))
            break;
        if (tr.nlocate > o.budget)
        {
            tr.budget_exceeded = true;
            break;
        }
        ld step = cur.ray_margin * (1 - 1e-9L);
        ld s2 = (step > hmin) ? s + step : s + hprobe;
        if (s2 > o.smax)
            s2 = o.smax;
        if (!(s2 > s))
            break;
        RefResult nxt = loc_at(s2);
        if (nxt.same_path(cur))
        {
            s = s2;
            cur = std::move(nxt);
            continue;
        }
        // bisect the first change of path in (s, s2]
        ld lo = s, hi = s2;
        RefResult rhi = std::move(nxt);
        while (hi - lo > btol)
        {
            ld mid = lo + (hi - lo) / 2;
            if (!(mid > lo && mid < hi))
                break;
            RefResult rm = loc_at(mid);
            if (rm.same_path(cur))
                lo = mid;
            else
            {
                hi = mid;
                rhi = std::move(rm);
            }
        }
        ld sc = lo + (hi - lo) / 2;
        seg.s1 = sc;
        tr.segs.push_back(seg);
        RefSeg nseg;
        nseg.s0 = sc;
        nseg.path = path_of(rhi);
        nseg.valid = rhi.valid();
        nseg.outside = rhi.outside();
        check_departure(seg, nseg);
        seg = nseg;
        s = hi;
        cur = std::move(rhi);
    }
    seg.s1 = std::max(s, seg.s0);
    tr.segs.push_back(seg);
    tr.s_end = s;
    return tr;
}

//---------------------------------------------------------------------------//
// Properties of the reference crossing at parameter sc along (p0, d)
struct CrossInfo
{
    bool testable = false;
    std::string why;
    std::string type = "?";
    int level = 0;
    double ndotd = 0;
    int universe = -1;
};

CrossInfo classify_crossing(Geo const& g, ld const* p0, ld const* d, ld sc, ld seg_before, ld seg_after)
{
    CrossInfo ci;
    ld q[3];
    for (int i = 0; i < 3; ++i)
        q[i] = p0[i] + sc * d[i];
    double tol = g.tol_at(q);
    RefResult r = g.loc->locate(q, ld(K_TOL * tol));
    ci.type = r.nearest.type.empty() ? "?" : r.nearest.type;
    ci.level = r.nearest.level;
    ci.universe = r.nearest.universe;
    verif::refloc::Vec3 dv{{d[0], d[1], d[2]}};
    ci.ndotd = double(std::fabs(verif::refloc::dot(r.nearest.normal_global, dv)));
    if (seg_before < K_TOL * tol || seg_after < K_TOL * tol)
    {
        if (std::getenv("GEO_DEBUG"))
            std::cerr << "short: before " << double(seg_before) << " after " << double(seg_after) << " tol " << tol
                      << " sc " << double(sc) << "\n";
        ci.why = "short-segment";
        return ci;
    }
    if (!(ci.ndotd >= GRAZING))
    {
        ci.why = "grazing";
        return ci;
    }
    for (auto const& ns : r.near)
    {
        ld c = std::fabs(verif::refloc::dot(ns.normal_global, r.nearest.normal_global));
        if (c < 1 - 1e-6L)
        {
            ci.why = "corner";
            return ci;
        }
    }
    if (g.has_involute && ci.type == "inv")
    {
        // involute margins are first order only: do not judge distances there
        ci.why = "involute";
        return ci;
    }
    ci.testable = true;
    return ci;
}

//---------------------------------------------------------------------------//
struct Ctx
{
    Report& rep;
    verif::Args const& args;
    std::string prop;
};

json jv3(double const* p) { return json::array({p[0], p[1], p[2]}); }
json jv3(Real3 const& p) { return json::array({p[0], p[1], p[2]}); }
json jhex3(Real3 const& p) { return json::array({verif::hexd(p[0]), verif::hexd(p[1]), verif::hexd(p[2])}); }

//---------------------------------------------------------------------------//
// Geometry preparation
bool build_geo(Geo& g, Ctx& cx)
{
    g.loc = std::make_unique<RefLocator>(g.input);
    auto const* u0 = std::get_if<UnitInput>(&g.input.universes.front());
    if (!u0 || !u0->bbox)
    {
        cx.rep.inconclusive("rejected input: no global bbox");
        return false;
    }
    for (int i = 0; i < 3; ++i)
    {
        g.lo[i] = u0->bbox.lower()[i];
        g.hi[i] = u0->bbox.upper()[i];
    }
    double diag = 0;
    for (int i = 0; i < 3; ++i)
        diag += (g.hi[i] - g.lo[i]) * (g.hi[i] - g.lo[i]);
    g.scale = std::max(1.0, std::sqrt(diag));
    {
        double far[3];
        for (int i = 0; i < 3; ++i)
            far[i] = std::max(std::fabs(g.lo[i]), std::fabs(g.hi[i]));
        g.tol_world = g.loc->tolerance_at(far);
    }
    for (auto const& vu : g.input.universes)
        if (auto const* u = std::get_if<UnitInput>(&vu))
            for (auto const& s : u->surfaces)
                if (verif::refloc::surface_type(s) == SurfaceType::inv)
                    g.has_involute = true;
    // Degenerate input: two distinct surfaces of one unit that coincide within the tolerance
    // (the construction code de-duplicates surfaces; files that still contain duplicates
    // describe zero-thickness volumes, i.e. geometry inside the tolerance band everywhere)
    for (auto const& vu : g.input.universes)
    {
        auto const* u = std::get_if<UnitInput>(&vu);
        if (!u)
            continue;
        std::vector<std::pair<SurfaceType, std::vector<double>>> sd;
        std::vector<char> used(u->surfaces.size(), 0);
        for (auto const& v : u->volumes)
            if (v.zorder != ZOrder::background)
                for (auto f : v.faces)
                    if (f.unchecked_get() < used.size())
                        used[f.unchecked_get()] = 1;
        for (std::size_t si = 0; si < u->surfaces.size(); ++si)
        {
            auto const& s = u->surfaces[si];
            if (!used[si])
                continue;
            std::vector<double> data;
            std::visit([&data](auto const& ss) { for (auto v : ss.data()) data.push_back(v); }, s);
            sd.emplace_back(verif::refloc::surface_type(s), std::move(data));
        }
        for (std::size_t i = 0; i < sd.size(); ++i)
            for (std::size_t j = i + 1; j < sd.size(); ++j)
            {
                if (sd[i].first != sd[j].first || sd[i].second.size() != sd[j].second.size())
                    continue;
                bool same = true;
                for (std::size_t k = 0; k < sd[i].second.size(); ++k)
                {
                    double a = sd[i].second[k], b = sd[j].second[k];
                    if (std::fabs(a - b) > std::max(g.input.tol.abs, g.input.tol.rel * std::fabs(a)))
                        same = false;
                }
                if (same)
                {
                    if (std::getenv("GEO_DEBUG"))
                    {
                        std::cerr << "duplicate surfaces " << i << " " << j << " type "
                                  << verif::refloc::surface_type_name(sd[i].first) << ":";
                        for (auto v : sd[i].second)
                            std::cerr << " " << v;
                        std::cerr << " |";
                        for (auto v : sd[j].second)
                            std::cerr << " " << v;
                        std::cerr << "\n";
                    }
                    cx.rep.inconclusive("invalid input: duplicate coincident surfaces in one unit");
                    cx.rep.observe("invalid-duplicate-surfaces:" + g.name);
                    return false;
                }
            }
    }
    try
    {
        OrangeInput copy = g.input;  // the constructor consumes its argument
        g.params = std::make_shared<OrangeParams>(std::move(copy));
        g.state = HostStateStore(g.params->host_ref(), 1);
    }
    catch (RuntimeError const& e)
    {
        cx.rep.inconclusive("rejected input");
        cx.rep.observe("rejected:" + g.family);
        return false;
    }
    catch (DebugError const& e)
    {
        if (verif::is_bounds_assertion(e))
            cx.rep.violation(verif::bounds_key(cx.prop, e), "bounds assertion while constructing OrangeParams",
                             json{{"geometry", g.name}});
        else
        {
            cx.rep.inconclusive("debug-assert: " + verif::describe(e));
            cx.rep.observe("assert:" + verif::describe(e));
        }
        return false;
    }
    return true;
}

// Sample interior points, bucket by instance path; collect centres / axes of spherical and
// cylindrical faces as special points
void build_pool(Geo& g, Rng& rng, int nsample)
{
    std::map<std::string, int> bucket;
    std::set<std::array<long long, 3>> seen_special;
    auto add_special = [&](verif::refloc::Vec3 const& gp) {
        std::array<double, 3> p{double(gp[0]), double(gp[1]), double(gp[2])};
        std::array<long long, 3> key{(long long)std::llround(p[0] * 1e9 / g.scale),
                                     (long long)std::llround(p[1] * 1e9 / g.scale),
                                     (long long)std::llround(p[2] * 1e9 / g.scale)};
        if (seen_special.insert(key).second && g.special.size() < 400)
            g.special.push_back(p);
    };
    for (int i = 0; i < nsample; ++i)
    {
        double p[3];
        for (int a = 0; a < 3; ++a)
            p[a] = rng.uniform(g.lo[a], g.hi[a]);
        RefResult r = g.loc->locate(p);
        if (!r.valid() || r.outside())
            continue;
        if (!(r.margin > K_TOL * g.tol_at(p)))
            continue;
        std::string key = r.path_string();
        auto it = bucket.find(key);
        if (it == bucket.end())
        {
            it = bucket.emplace(key, int(g.pool.size())).first;
            g.pool.emplace_back();
            // special points from the faces of every level of this path
            for (auto const& e : r.path)
            {
                if (e.is_array)
                    continue;
                for (auto const& f : g.loc->faces(e.universe, e.volume))
                {
                    auto const& vs = g.loc->surface(e.universe, f.surface);
                    verif::refloc::Vec3 c;
                    bool ok = false;
                    int axis = -1;
                    std::visit(
                        [&](auto const& s) {
                            using S = std::decay_t<decltype(s)>;
                            if constexpr (std::is_same_v<S, SphereCentered>)
                                ok = true;
                            else if constexpr (std::is_same_v<S, Sphere>)
                            {
                                for (int a = 0; a < 3; ++a)
                                    c[a] = s.origin()[a];
                                ok = true;
                            }
                            else if constexpr (std::is_same_v<S, CylCentered<Axis::x>>
                                               || std::is_same_v<S, CylCentered<Axis::y>>
                                               || std::is_same_v<S, CylCentered<Axis::z>>)
                            {
                                ok = true;
                                axis = static_cast<int>(S::t_axis());
                            }
                            else if constexpr (std::is_same_v<S, CylAligned<Axis::x>>
                                               || std::is_same_v<S, CylAligned<Axis::y>>
                                               || std::is_same_v<S, CylAligned<Axis::z>>)
                            {
                                ok = true;
                                axis = static_cast<int>(S::t_axis());
                                c[static_cast<int>(S::u_axis())] = s.origin_u();
                                c[static_cast<int>(S::v_axis())] = s.origin_v();
                            }
                        },
                        vs);
                    if (!ok)
                        continue;
                    if (axis >= 0)
                    {
                        // a few points along the axis: the local coordinate of this sample and
                        // round numbers
                        verif::refloc::Vec3 c1 = c;
                        c1[axis] = e.local_pos[axis];
                        add_special(e.to_global(c1));
                        verif::refloc::Vec3 c2 = c;
                        c2[axis] = 0;
                        add_special(e.to_global(c2));
                    }
                    else
                        add_special(e.to_global(c));
                }
            }
        }
        auto& b = g.pool[it->second];
        if (b.size() < 64)
            b.push_back({p[0], p[1], p[2]});
    }
}

bool pick_start(Geo& g, Rng& rng, double* p)
{
    if (g.pool.empty())
        return false;
    auto const& b = g.pool[std::size_t(rng.integer(0, (long)g.pool.size() - 1))];
    auto const& q = b[std::size_t(rng.integer(0, (long)b.size() - 1))];
    for (int a = 0; a < 3; ++a)
        p[a] = q[a];
    return true;
}

void pick_dir(Geo& g, Rng& rng, double const* p, double* d, std::string& kind)
{
    double u = rng.uniform();
    if (u < 0.55)
    {
        rng.unit3(d);
        kind = "iso";
    }
    else if (u < 0.75)
    {
        int a = int(rng.integer(0, 2));
        d[0] = d[1] = d[2] = 0;
        d[a] = rng.coin() ? 1 : -1;
        kind = "axis";
    }
    else
    {
        // aimed at another interior point / special point / bbox corner (edges, centres)
        double t[3];
        bool ok = false;
        double w = rng.uniform();
        if (w < 0.4 && !g.special.empty())
        {
            auto const& s = g.special[std::size_t(rng.integer(0, (long)g.special.size() - 1))];
            for (int a = 0; a < 3; ++a)
                t[a] = s[a];
            ok = true;
            kind = "aim-centre";
        }
        else if (w < 0.8)
        {
            ok = pick_start(g, rng, t);
            kind = "aim-point";
        }
        if (!ok)
        {
            for (int a = 0; a < 3; ++a)
                t[a] = rng.coin() ? g.lo[a] : g.hi[a];
            kind = "aim-corner";
        }
        double n = 0;
        for (int a = 0; a < 3; ++a)
        {
            d[a] = t[a] - p[a];
            n += d[a] * d[a];
        }
        n = std::sqrt(n);
        if (n < 1e-6 * g.scale)
        {
            rng.unit3(d);
            kind = "iso";
        }
        else
            for (int a = 0; a < 3; ++a)
                d[a] /= n;
    }
    // exact unit normalisation in double
    double n = std::sqrt(d[0] * d[0] + d[1] * d[1] + d[2] * d[2]);
    for (int a = 0; a < 3; ++a)
        d[a] /= n;
}

//---------------------------------------------------------------------------//
std::string flag_class(Geo const& g, int universe, int volume)
{
    if (g.loc->is_array(universe))
        return "array";
    unsigned f = g.loc->volume_flags(universe, volume);
    std::string s;
    if (g.loc->is_background(universe, volume))
        s = "bg";
    else if (f & VolumeRecord::internal_surfaces)
        s = "internal";
    else if (f & VolumeRecord::implicit_vol)
        s = "implicit";
    else
        s = "simple";
    bool simple_safety = true;
    for (auto const& fi : g.loc->faces(universe, volume))
    {
        auto t = fi.type;
        if (t == SurfaceType::kx || t == SurfaceType::ky || t == SurfaceType::kz || t == SurfaceType::sq
            || t == SurfaceType::gq || t == SurfaceType::inv)
            simple_safety = false;
    }
    if (!simple_safety)
        s += "+nss";
    return s;
}

std::string xform_kind(Geo const& g, Path const& p, int level)
{
    if (level <= 0 || level > int(p.size()) - 1 + 1)
        return "top";
    if (level - 1 >= int(p.size()))
        return "top";
    int k = g.loc->daughter_transform_kind(p[level - 1].first, p[level - 1].second);
    return k == 2 ? "rot" : (k == 1 ? "tr" : (k == 0 ? "id" : "top"));
}

//---------------------------------------------------------------------------//
// Program driver: executes navigator operations on one track and judges them
struct Program
{
    Ctx& cx;
    Geo& g;
    Rng& rng;
    Nav nav;
    std::string kind;  // "ray" or "ops"
    json witness;
    json trace = json::array();  // op log for the witness
    bool dead = false;  // stop the program (violation / end)
    long judged = 0;
    long untestable = 0;
    std::set<std::string> cells;
    bool allow_post_reentrant_cross = false;

    // model of the documented call-order state
    bool on_boundary = false;
    bool crossed = false;  // cross_boundary called since arriving on this boundary
    bool has_next = false;
    bool next_boundary = false;
    double next_dist = 0;
    double ref_next = -1;  // reference distance for the current `next`, -1 unknown
    bool setdir_on_boundary = false;  // set_dir called since arriving on this boundary
    std::string dirchange_site;  // boundary_site() of the last set_dir on a boundary not yet left

    Program(Ctx& c, Geo& geo, Rng& r, std::string k) : cx(c), g(geo), rng(r), nav(geo), kind(std::move(k)) {}

    void log_op(std::string const& op, json extra = json::object())
    {
        if (trace.size() < 200)
        {
            extra["op"] = op;
            extra["pos"] = jv3(nav.tv.pos());
            extra["dir"] = jv3(nav.tv.dir());
            extra["path"] = path_str(nav.path());
            extra["on_boundary"] = nav.tv.is_on_boundary();
            trace.push_back(std::move(extra));
        }
    }

    void violation(std::string key, std::string detail, json extra = json::object())
    {
        bool desync_symptom = key.find("/wrong-volume/") != std::string::npos
                              || key.find("/distance/") != std::string::npos
                              || key.find("/no-boundary/") != std::string::npos
                              || key.find("/failed/") != std::string::npos
                              || key.find("edge-hit-desync") != std::string::npos;
        if (!dirchange_site.empty() && desync_symptom)
        {
            // The track has not left the boundary on which its direction was changed: whatever
            // symptom shows up first (wrong volume on the next leg, wrong distance, no boundary
            // found) is attributed to that direction change
            detail = "after set_dir on a boundary [" + key + "]: " + detail;
            key = "C03/ops/set_dir-on-boundary/" + dirchange_site;
        }
        json w = witness;
        w["ops"] = trace;
        w["at"] = extra;
        cx.rep.violation(key, detail, std::move(w));
        dead = true;
    }

    void held(std::string const& cell)
    {
        cx.rep.held(cell);
        ++judged;
    }

    // Does the same geometric surface appear at two different universe levels at this point
    // (a daughter universe whose own volumes are bounded by the surface that also bounds its
    // parent cell)?  Probed on both sides of the point along `dir`.
    bool coincident_levels(double const* pos, Real3 const& dir)
    {
        double tol = g.tol_at(pos);
        struct Rec
        {
            int level;
            verif::refloc::Vec3 n;
        };
        std::vector<Rec> recs;
        for (int sgn = -1; sgn <= 1; sgn += 2)
        {
            ld q[3];
            for (int a = 0; a < 3; ++a)
                q[a] = ld(pos[a]) + ld(sgn * 20 * tol) * ld(dir[a]);
            RefResult r = g.loc->locate(q, ld(60 * tol));
            for (auto const& ns : r.near)
                if (verif::refloc::norm(ns.normal_global) > 0.5L)
                    recs.push_back({ns.level, ns.normal_global});
        }
        for (std::size_t i = 0; i < recs.size(); ++i)
            for (std::size_t j = i + 1; j < recs.size(); ++j)
                if (recs[i].level != recs[j].level
                    && std::fabs(verif::refloc::dot(recs[i].n, recs[j].n)) > 1 - 1e-6L)
                    return true;
        return false;
    }

    bool check_failed(std::string const& op)
    {
        if (!nav.tv.failed())
            return false;
        // a failure exactly at a corner / coincident feature is a tolerance-band case
        Real3 p = nav.tv.pos();
        double pp[3] = {p[0], p[1], p[2]};
        double tol = g.tol_at(pp);
        RefResult r = g.loc->locate(pp, ld(K_TOL * tol));
        bool corner = false;
        for (auto const& ns : r.near)
            if (std::fabs(verif::refloc::dot(ns.normal_global, r.nearest.normal_global)) < 1 - 1e-6L)
                corner = true;
        if (corner)
        {
            cx.rep.inconclusive("untestable: navigator failed() at a corner within tolerance");
            dead = true;
            return true;
        }
        std::string site = r.nearest.type.empty() ? "?" : r.nearest.type;
        // how many surfaces (any level) pass through this point?
        int coincident = 0;
        for (auto const& ns : r.near)
            if (ns.dist < tol)
                ++coincident;
        bool colev = coincident_levels(pp, nav.tv.dir());
        violation(colev ? "C03/coincident-levels/" + site
                        : "C03/" + kind + "/failed/" + op + "/" + site + (coincident > 1 ? "/coincident-surfaces" : ""),
                  std::string(colev ? "[the same surface bounds volumes at two universe levels here] " : "")
                      + "navigator reported failed() after " + op,
                  json{{"pos", jv3(pp)}, {"nearest_surface", site}, {"surfaces_within_tol", coincident},
                       {"ref_path", r.path_string()}, {"nav_path", path_str(nav.path())}});
        return true;
    }

    // Per-level position / direction arithmetic under the accumulated transforms
    void check_levels(std::string const& op)
    {
        Path p = nav.path();
        Real3 gp = nav.tv.pos();
        Real3 gd = nav.tv.dir();
        verif::refloc::Vec3 lp{{gp[0], gp[1], gp[2]}}, ldv{{gd[0], gd[1], gd[2]}};
        for (int lev = 0; lev < int(p.size()); ++lev)
        {
            Real3 np = nav.local_pos(lev);
            Real3 nd = nav.local_dir(lev);
            double mag = 1;
            for (int a = 0; a < 3; ++a)
                mag = std::max(mag, std::fabs(double(lp[a])));
            // rounding model: each level is updated independently with O(n_ops) roundings of
            // relative size 2^-53 on coordinates of magnitude `mag` (n_ops <= 1e3): 1e-12*mag
            double tolp = 1e-12 * mag * 10, told = 1e-12;
            for (int a = 0; a < 3; ++a)
            {
                if (std::fabs(np[a] - double(lp[a])) > tolp)
                {
                    violation("C03/" + kind + "/level-position/" + op,
                              "local position at level " + std::to_string(lev)
                                  + " differs from the transformed global position",
                              json{{"level", lev}, {"nav_local", jv3(np)},
                                   {"ref_local", json::array({double(lp[0]), double(lp[1]), double(lp[2])})}});
                    return;
                }
                if (std::fabs(nd[a] - double(ldv[a])) > told)
                {
                    violation("C03/" + kind + "/level-direction/" + op,
                              "local direction at level " + std::to_string(lev)
                                  + " differs from the rotated global direction",
                              json{{"level", lev}, {"nav_local", jv3(nd)},
                                   {"ref_local", json::array({double(ldv[0]), double(ldv[1]), double(ldv[2])})}});
                    return;
                }
            }
            if (lev + 1 < int(p.size()))
            {
                auto xf = g.loc->daughter_xform(p[lev].first, p[lev].second);
                lp = xf.down(lp);
                ldv = xf.rotate_down(ldv);
            }
        }
    }

    //-----------------------------------------------------------------------//
    // Leg check: navigator claims `claimed` along [p0, p0 + L d]
    // Also returns the reference distance to the first departure from `claimed`.
    struct LegResult
    {
        double d_ref = -1;  // first departure (or -1)
        CrossInfo cross;
        bool have_cross = false;
    };

    // cached reference trace of the current ray (set by find_next_step, reused by the move)
    RefTrace cache_tr;
    Real3 cache_p{0, 0, 0}, cache_d{0, 0, 0};
    Path cache_claimed;
    bool cache_ok = false;

    LegResult check_leg(Real3 const& p0, Real3 const& d, double L, Path const& claimed, std::string const& op,
                        bool want_departure)
    {
        LegResult lr;
        ld P[3] = {p0[0], p0[1], p0[2]}, D[3] = {d[0], d[1], d[2]};
        double pp[3] = {p0[0], p0[1], p0[2]};
        double tol = g.tol_at(pp);
        TraceOpts o;
        double reach = std::isfinite(L) ? std::fabs(L) : 0;  // L < 0: trace that far, judge nothing
        o.smin = ld(reach);
        o.tail = ld(4 * K_TOL * g.tol_world);
        o.smax = want_departure ? ld(std::max(reach, 3.0 * g.scale)) + 2 * o.tail : ld(reach);
        o.stop_outside = false;
        o.claimed = want_departure ? &claimed : nullptr;
        bool reuse = cache_ok && !want_departure && cache_claimed == claimed && cache_tr.s_end >= ld(L);
        for (int a = 0; a < 3 && reuse; ++a)
            reuse = (cache_p[a] == p0[a] && cache_d[a] == d[a]);
        if (!reuse)
        {
            cache_tr = trace_ref(g, P, D, o);
            cache_p = p0;
            cache_d = d;
            cache_claimed = claimed;
            cache_ok = want_departure && !cache_tr.invalid && !cache_tr.budget_exceeded;
            cx.rep.observe("ref.locate_calls", std::uint64_t(cache_tr.nlocate));
        }
        else
            cx.rep.observe("ref.trace_reused");
        RefTrace const& tr = cache_tr;
        if (tr.invalid)
        {
            cx.rep.inconclusive("invalid input: " + tr.invalid_why + " met on the ray");
            cx.rep.observe("invalid:" + g.name);
            dead = true;
            return lr;
        }
        if (tr.budget_exceeded)
        {
            cx.rep.inconclusive("untestable: reference march budget exceeded (grazing ray)");
            dead = true;
            return lr;
        }
        // first departure from the claimed path
        if (want_departure)
        {
            for (std::size_t k = 0; k + 1 < tr.segs.size(); ++k)
            {
                if (tr.segs[k].path == claimed && tr.segs[k + 1].path != claimed)
                {
                    lr.d_ref = double(tr.segs[k].s1);
                    ld before = tr.segs[k].s1 - tr.segs[k].s0;
                    // the claimed segment may start at the ray origin, where the track is known
                    // to be on a boundary or well inside: its length counts from 0
                    ld after = tr.segs[k + 1].s1 - tr.segs[k + 1].s0;
                    if (k + 2 == tr.segs.size() && tr.s_end >= tr.segs[k + 1].s0 + o.tail * 0.999L)
                        after = std::max(after, o.tail);
                    lr.cross = classify_crossing(g, P, D, tr.segs[k].s1, before, after);
                    lr.have_cross = true;
                    break;
                }
            }
        }
        if (!(L > 0) || !std::isfinite(L))
            return lr;
        // mismatch intervals within [0, L]
        double tol_s = 10 * tol + 1e-12 * g.scale;
        std::size_t k = 0;
        while (k < tr.segs.size())
        {
            if (tr.segs[k].path == claimed || tr.segs[k].s0 >= ld(L))
            {
                ++k;
                continue;
            }
            std::size_t k2 = k;
            while (k2 + 1 < tr.segs.size() && tr.segs[k2 + 1].path != claimed && tr.segs[k2 + 1].s0 < ld(L))
                ++k2;
            ld a = tr.segs[k].s0, b = std::min(tr.segs[k2].s1, ld(L));
            ld len = b - a;
            cx.rep.observe_max("mismatch_len_over_tol", double(len / tol));
            if (len > ld(tol_s))
            {
                static double const fr[] = {0.5, 0.25, 0.75, 0.1, 0.9, 0.03, 0.97};
                ld best = -1;
                RefResult rbest;
                ld sbest = 0;
                for (double f : fr)
                {
                    ld s = a + len * ld(f);
                    ld q[3];
                    for (int i = 0; i < 3; ++i)
                        q[i] = P[i] + s * D[i];
                    RefResult r = g.loc->locate(q);
                    if (path_of(r) == claimed)
                        continue;  // inside a sub-tolerance re-match
                    if (r.margin > best)
                    {
                        best = r.margin;
                        rbest = r;
                        sbest = s;
                    }
                }
                ld q[3];
                for (int i = 0; i < 3; ++i)
                    q[i] = P[i] + sbest * D[i];
                double tq = g.tol_at(q);
                if (best > ld(K_TOL * tq) && !(g.has_involute && rbest.nearest.type == "inv"))
                {
                    std::string site = rbest.nearest.type.empty() ? "none" : rbest.nearest.type;
                    // did this leg start where two non-parallel surfaces meet (an edge hit)?
                    bool edge_start = false;
                    {
                        RefResult r0 = g.loc->locate(pp, ld(K_TOL * tol));
                        for (auto const& ns : r0.near)
                            if (std::fabs(verif::refloc::dot(ns.normal_global, r0.nearest.normal_global)) < 1 - 1e-6L)
                                edge_start = true;
                    }
                    violation(edge_start ? (g.loc->is_background(claimed.back().first, claimed.back().second)
                                              ? std::string("C03/edge-hit-desync/stays-in-background")
                                              : "C03/edge-hit-desync/" + flag_class(g, claimed.back().first, claimed.back().second))
                                         : "C03/" + kind + "/wrong-volume/" + op + "/" + site,
                              std::string(edge_start ? "[the leg starts on an edge: two non-parallel surfaces within "
                                                       "tolerance; the paths did not re-synchronise] "
                                                     : "")
                                  + "navigator claims path " + path_str(claimed) + " but the point is in "
                                  + rbest.path_string() + ", " + std::to_string(double(best / tq))
                                  + " tolerances away from the nearest surface",
                              json{{"leg_start", jhex3(p0)}, {"leg_dir", jhex3(d)}, {"leg_length", L},
                                   {"s_at", double(sbest)}, {"mismatch_from", double(a)}, {"mismatch_to", double(b)},
                                   {"claimed", path_str(claimed)}, {"reference", rbest.path_string()},
                                   {"margin", double(best)}, {"tol", tq}});
                    return lr;
                }
                ++untestable;
                cx.rep.observe("untestable.mismatch_in_tolerance_band");
            }
            k = k2 + 1;
        }
        return lr;
    }

    // On a boundary: +1 if the direction points into the volume `claimed`, -1 if it points out
    // of it, 0 if that cannot be decided unambiguously (corner, grazing, thin neighbours)
    int heading_into(Path const& claimed, std::string& stype)
    {
        Real3 p = nav.tv.pos(), d = nav.tv.dir();
        double pp[3] = {p[0], p[1], p[2]};
        double tol = g.tol_at(pp);
        RefResult r = g.loc->locate(pp, ld(K_TOL * tol));
        stype = r.nearest.type.empty() ? "none" : r.nearest.type;
        auto const& n = r.nearest.normal_global;
        if (!(verif::refloc::norm(n) > 0.5L) || !(r.nearest.dist < ld(tol)))
            return 0;
        for (auto const& ns : r.near)
            if (std::fabs(verif::refloc::dot(ns.normal_global, n)) < 1 - 1e-6L)
                return 0;
        double c = 0;
        for (int a = 0; a < 3; ++a)
            c += double(n[a]) * d[a];
        if (std::fabs(c) < 0.01)
            return 0;
        ld eps = ld(4 * K_TOL * tol);
        ld qp[3], qm[3];
        for (int a = 0; a < 3; ++a)
        {
            qp[a] = ld(p[a]) + eps * n[a];
            qm[a] = ld(p[a]) - eps * n[a];
        }
        RefResult rp = g.loc->locate(qp), rm = g.loc->locate(qm);
        if (!(rp.margin > ld(K_TOL * tol)) || !(rm.margin > ld(K_TOL * tol)))
            return 0;
        bool inp = path_of(rp) == claimed, inm = path_of(rm) == claimed;
        if (inp == inm)
            return 0;
        double side = inp ? 1 : -1;
        return (c * side > 0) ? 1 : -1;
    }

    //-----------------------------------------------------------------------//
    bool initialize(double const* p, double const* d)
    {
        Real3 P{p[0], p[1], p[2]}, D{d[0], d[1], d[2]};
        nav.tv = GeoTrackInitializer{P, D};
        on_boundary = false;
        crossed = false;
        has_next = false;
        log_op("init");
        RefResult r = g.loc->locate(p);
        if (nav.tv.failed())
        {
            violation("C03/" + kind + "/failed/init/" + (r.nearest.type.empty() ? "none" : r.nearest.type),
                      "initialisation failed at a point farther than tolerance from every surface",
                      json{{"pos", jv3(p)}, {"ref_path", r.path_string()}, {"margin", double(r.margin)}});
            return false;
        }
        Path np = nav.path();
        if (np != path_of(r))
        {
            violation("C03/" + kind + "/wrong-volume/init/" + (r.nearest.type.empty() ? "none" : r.nearest.type),
                      "initialised in path " + path_str(np) + " but the point is in " + r.path_string(),
                      json{{"pos", jv3(p)}, {"margin", double(r.margin)}});
            return false;
        }
        if (long(nav.tv.volume_id().unchecked_get()) != r.global_volume)
        {
            violation("C03/" + kind + "/volume-id/init",
                      "volume_id() != universe offset + local volume",
                      json{{"pos", jv3(p)}, {"nav", nav.tv.volume_id().unchecked_get()}, {"ref", r.global_volume}});
            return false;
        }
        check_levels("init");
        return !dead;
    }

    // find_next_step, optionally limited. Judges distance / flag / truncation relation.
    void op_find_next(bool limited)
    {
        Real3 p = nav.tv.pos(), d = nav.tv.dir();
        Path claimed = nav.path();
        bool reentrant = on_boundary && nav.reentrant_flag();
        Propagation unl = nav.tv.find_next_step();
        Propagation res = unl;
        double maxd = 0;
        if (limited && !reentrant)
        {
            // a limit below, around or above the unlimited distance
            double base = std::isfinite(unl.distance) ? unl.distance : g.scale;
            double u = rng.uniform();
            maxd = (u < 0.4) ? base * rng.uniform(0.05, 0.95)
                             : (u < 0.6 ? base * (1 + rng.uniform(-1e-3, 1e-3))
                                        : (u < 0.7 ? base : base * rng.uniform(1.05, 3)));
            if (!(maxd > 0))
                maxd = 1e-3 * g.scale;
            res = nav.tv.find_next_step(maxd);
        }
        log_op(limited ? "find_next_step(max)" : "find_next_step",
               json{{"distance", res.distance}, {"boundary", res.boundary}, {"max", maxd},
                    {"unlimited", unl.distance}});
        if (check_failed("find_next_step"))
            return;
        if (nav.path() != claimed)
        {
            violation("C03/" + kind + "/volume-changed/find_next_step", "find_next_step changed the volume");
            return;
        }
        if (reentrant)
        {
            // documented: on a boundary heading back in => zero distance to a boundary
            if (!(res.distance == 0 && res.boundary))
                violation("C03/" + kind + "/reentrant-step", "re-entrant find_next_step did not return {0, true}");
            else if (crossed)
            {
                // after a crossing this answer is right only if the track really heads out of
                // the volume it is reported in
                std::string stype;
                int h = heading_into(claimed, stype);
                if (h > 0)
                    violation("C03/ops/set_dir-on-boundary/" + (dirchange_site.empty() ? boundary_site(claimed) : dirchange_site),
                              "[reentrant-while-heading-in] find_next_step reports an immediate boundary although the direction points into the "
                              "reported volume",
                              json{{"pos", jhex3(p)}, {"dir", jhex3(d)}, {"claimed", path_str(claimed)}});
                else if (h < 0)
                    held(kind + "|fns-reentrant|" + stype + "|L" + std::to_string(nav.surface_level()));
            }
            has_next = false;
            next_boundary = true;
            next_dist = 0;
            return;
        }
        if (on_boundary && crossed && kind == "ops" && setdir_on_boundary)
        {
            // after a crossing (real or null) the track sits on the boundary of the volume it is
            // reported in; if its direction now points out of that volume the documented answer
            // is an immediate boundary {0, true}
            std::string stype;
            int h = heading_into(claimed, stype);
            if (h < 0)
            {
                violation("C03/ops/set_dir-on-boundary/" + (dirchange_site.empty() ? boundary_site(claimed) : dirchange_site),
                          "[not-reentrant-while-heading-out] on a boundary with the direction pointing out of the reported volume, find_next_step "
                          "searched inside the reported volume instead of returning an immediate boundary",
                          json{{"pos", jhex3(p)}, {"dir", jhex3(d)}, {"claimed", path_str(claimed)},
                               {"distance", unl.distance}, {"surface_type", stype}});
                return;
            }
        }
        if (!unl.boundary && claimed.front().second != 0)
        {
            // the world is bounded: from inside, every ray meets a boundary
            violation("C03/" + kind + "/no-boundary/" + flag_class(g, claimed.back().first, claimed.back().second),
                      "inside the world but find_next_step found no boundary",
                      json{{"pos", jhex3(p)}, {"dir", jhex3(d)}, {"claimed", path_str(claimed)}});
            return;
        }
        if (!(unl.distance > 0) || std::isnan(unl.distance))
        {
            violation("C03/" + kind + "/nonpositive-distance", "find_next_step returned a non-positive distance",
                      json{{"distance", unl.distance}});
            return;
        }
        if (limited)
        {
            // find_next_step(max) == min(unlimited, max), boundary iff unlimited <= max.
            // Both calls evaluate the same intersections: allow 4 ulp of difference only.
            double expect = std::min(unl.distance, maxd);
            bool expect_b = unl.boundary && unl.distance <= maxd;
            bool near_limit = std::fabs(unl.distance - maxd) <= 4 * 2.3e-16 * maxd;
            if (!near_limit
                && (std::fabs(res.distance - expect) > 4 * 2.3e-16 * std::fabs(expect) || res.boundary != expect_b))
            {
                // Both searches flip the senses of the crossed faces in order of distance. Where
                // the ray passes through an edge/corner (two or more distinct surfaces at the
                // same ray parameter) the order of the tied crossings -- and with it whether the
                // volume's logic is left there -- depends on how many other intersections are in
                // the sorted list: either answer describes the same point set. Untestable.
                double dq = std::min(std::isfinite(res.distance) ? res.distance : unl.distance, unl.distance);
                double q[3] = {p[0] + dq * d[0], p[1] + dq * d[1], p[2] + dq * d[2]};
                double tq = g.tol_at(q);
                RefResult rq = g.loc->locate(q, ld(K_TOL * tq));
                bool edge = false;
                for (auto const& ns : rq.near)
                    if (ns.surface != rq.nearest.surface || ns.universe != rq.nearest.universe
                        || ns.level != rq.nearest.level)
                        edge = true;
                if (edge)
                {
                    cx.rep.inconclusive("untestable: limited vs unlimited search differ where the ray passes through an edge/corner");
                    dead = true;
                    return;
                }
                violation("C03/" + kind + "/max-truncation/" + flag_class(g, claimed.back().first, claimed.back().second),
                          "find_next_step(max) != min(unlimited, max) or wrong boundary flag",
                          json{{"max", maxd}, {"unlimited", unl.distance}, {"unlimited_boundary", unl.boundary},
                               {"limited", res.distance}, {"limited_boundary", res.boundary}});
                return;
            }
            if (res.distance > maxd)
            {
                violation("C03/" + kind + "/max-exceeded", "find_next_step(max) returned more than max");
                return;
            }
        }
        // reference distance to the first departure from the claimed path
        double reach = std::isfinite(res.distance) ? res.distance : 0;
        LegResult lr = check_leg(p, d, -reach, claimed, "find_next_step", true);
        if (dead)
            return;
        ref_next = lr.d_ref;
        double pp[3] = {p[0], p[1], p[2]};
        double tol = g.tol_at(pp);
        if (lr.have_cross && lr.cross.testable)
        {
            // tolerance: 10 x geometry tolerance + conditioning of a quadric root at incidence c:
            // relative rounding 2^-52 amplified by 1/c^2 on a chord of the world's size
            double c = std::max(lr.cross.ndotd, GRAZING);
            double tol_s = 10 * tol + 1e-12 * g.scale + 4.5e-16 * g.scale / (c * c);
            cx.rep.observe_max("distance_error_over_tol", std::fabs(unl.distance - lr.d_ref) / tol);
            bool mismatch = !unl.boundary || !(std::fabs(unl.distance - lr.d_ref) <= tol_s);
            if (mismatch && unl.boundary && unl.distance < lr.d_ref)
            {
                // The navigator stops before the reference crossing. Where it stops decides:
                // far from every surface -> invented boundary (violation); where two non-parallel
                // surfaces meet, or where the ray only grazes the surface -> tolerance-band case
                // (either resolution is acceptable there; the following legs must agree again)
                double q[3];
                for (int a = 0; a < 3; ++a)
                    q[a] = p[a] + unl.distance * d[a];
                double tq = g.tol_at(q);
                RefResult rq = g.loc->locate(q, ld(K_TOL * tq));
                if (!(rq.margin > ld(K_TOL * tq)))
                {
                    bool corner = false;
                    for (auto const& ns : rq.near)
                        if (std::fabs(verif::refloc::dot(ns.normal_global, rq.nearest.normal_global)) < 1 - 1e-6L)
                            corner = true;
                    verif::refloc::Vec3 dv{{d[0], d[1], d[2]}};
                    double inc = double(std::fabs(verif::refloc::dot(rq.nearest.normal_global, dv)));
                    if (corner || inc < GRAZING)
                    {
                        mismatch = false;
                        ++untestable;
                        cx.rep.observe(corner ? "untestable.nav_boundary_at_corner" : "untestable.nav_boundary_grazing");
                    }
                }
            }
            if (mismatch)
            {
                std::string fc = flag_class(g, claimed.back().first, claimed.back().second);
                bool colev = on_boundary && coincident_levels(pp, d);
                std::string stype0;
                if (colev)
                {
                    RefResult r0 = g.loc->locate(pp);
                    stype0 = r0.nearest.type.empty() ? "none" : r0.nearest.type;
                }
                violation(colev ? "C03/coincident-levels/" + stype0
                                : "C03/" + kind + "/distance/" + lr.cross.type + "/" + fc,
                          std::string(colev ? "[the track sits on a surface that bounds volumes at two universe "
                                              "levels] "
                                            : "")
                              + "distance to boundary differs from the reference crossing by more than the tolerance",
                          json{{"pos", jhex3(p)}, {"dir", jhex3(d)}, {"nav_distance", unl.distance},
                               {"nav_boundary", unl.boundary}, {"ref_distance", lr.d_ref}, {"tol_s", tol_s},
                               {"ndotd", lr.cross.ndotd}, {"claimed", path_str(claimed)}});
                return;
            }
            if (std::fabs(unl.distance - lr.d_ref) <= tol_s)
            {
            std::string cell = kind + "|" + (limited ? "fns-max" : "fns") + "|" + lr.cross.type + "|"
                               + flag_class(g, claimed.back().first, claimed.back().second) + "|L"
                               + std::to_string(lr.cross.level) + "|" + xform_kind(g, claimed, lr.cross.level)
                               + (on_boundary ? "|from-boundary" : "");
            held(cell);
            }
        }
        else if (lr.have_cross)
        {
            ++untestable;
            cx.rep.observe("untestable.crossing:" + lr.cross.why);
            if (std::getenv("GEO_DEBUG"))
                std::cerr << "untestable " << lr.cross.why << " geo " << g.name << " d_ref " << lr.d_ref << " nav "
                          << unl.distance << " type " << lr.cross.type << " claimed " << path_str(claimed) << "\n";
        }
        else if (unl.boundary && std::isfinite(unl.distance))
        {
            // reference never leaves the claimed path within 3 world diagonals
            if (claimed.front().second != 0)
                cx.rep.observe("ref.no_departure_found");
        }
        has_next = true;
        next_boundary = res.boundary;
        next_dist = res.distance;
    }

    void op_move_to_boundary()
    {
        Real3 p = nav.tv.pos(), d = nav.tv.dir();
        Path claimed = nav.path();
        double L = next_dist;
        nav.tv.move_to_boundary();
        log_op("move_to_boundary");
        if (check_failed("move_to_boundary"))
            return;
        if (!nav.tv.is_on_boundary())
        {
            violation("C03/" + kind + "/not-on-boundary/move_to_boundary", "not on a boundary after move_to_boundary");
            return;
        }
        if (nav.path() != claimed)
        {
            violation("C03/" + kind + "/volume-changed/move_to_boundary", "move_to_boundary changed the volume");
            return;
        }
        check_position(p, d, L, "move_to_boundary");
        if (dead)
            return;
        check_leg(p, d, L, claimed, "move_to_boundary", false);
        if (dead)
            return;
        check_levels("move_to_boundary");
        if (!dead)
            dirchange_site.clear();
        on_boundary = true;
        crossed = false;
        has_next = false;
        setdir_on_boundary = false;
        if (kind == "ops" && !dead)
        {
            // A track that stops where two non-parallel surfaces meet (within tolerance) is in
            // the tolerance band of a surface it is not logically "on": further direction
            // changes there are outside the statement (same exclusion as for start points)
            Real3 q = nav.tv.pos();
            double qq[3] = {q[0], q[1], q[2]};
            double tol = g.tol_at(qq);
            RefResult r = g.loc->locate(qq, ld(K_TOL * tol));
            for (auto const& ns : r.near)
                if (std::fabs(verif::refloc::dot(ns.normal_global, r.nearest.normal_global)) < 1 - 1e-6L)
                {
                    cx.rep.observe("ops.stopped_at_corner");
                    dead = true;
                    break;
                }
        }
    }

    void check_position(Real3 const& p, Real3 const& d, double L, std::string const& op)
    {
        Real3 q = nav.tv.pos();
        for (int a = 0; a < 3; ++a)
        {
            double e = p[a] + L * d[a];
            // one fused/unfused multiply-add: 2 roundings
            if (std::fabs(q[a] - e) > 4 * 2.3e-16 * (std::fabs(p[a]) + std::fabs(L * d[a])) + 1e-300)
            {
                violation("C03/" + kind + "/position/" + op, "position after the move is not pos + step * dir",
                          json{{"from", jhex3(p)}, {"dir", jhex3(d)}, {"step", L}, {"to", jhex3(q)}});
                return;
            }
        }
    }

    void op_move_internal_dist()
    {
        Real3 p = nav.tv.pos(), d = nav.tv.dir();
        Path claimed = nav.path();
        double u = rng.uniform(0.02, 0.98);
        double L = next_dist * u;
        if (!next_boundary && rng.coin(0.3))
            L = next_dist;  // full limited step is allowed when no boundary was found
        if (!(L > 0) || !std::isfinite(L))
            return;
        // The end point must itself be a legitimate position: farther than tolerance from
        // every surface (same exclusion as for start points). Shrink the step if needed.
        {
            bool ok = false;
            for (int tries = 0; tries < 6 && !ok; ++tries)
            {
                double q[3];
                for (int a = 0; a < 3; ++a)
                    q[a] = p[a] + L * d[a];
                RefResult rq = g.loc->locate(q);
                if (rq.margin > ld(K_TOL * g.tol_at(q)))
                    ok = true;
                else
                    L *= rng.uniform(0.3, 0.9);
            }
            if (!ok || !(L > 0))
            {
                cx.rep.observe("ops.move_skipped_endpoint_near_surface");
                return;
            }
        }
        nav.tv.move_internal(L);
        log_op("move_internal(d)", json{{"step", L}});
        if (check_failed("move_internal"))
            return;
        if (nav.tv.is_on_boundary())
        {
            violation("C03/" + kind + "/on-boundary/move_internal", "on a boundary after move_internal");
            return;
        }
        if (nav.path() != claimed)
        {
            violation("C03/" + kind + "/volume-changed/move_internal", "move_internal changed the volume");
            return;
        }
        check_position(p, d, L, "move_internal");
        if (dead)
            return;
        check_leg(p, d, L, claimed, "move_internal", false);
        if (dead)
            return;
        check_levels("move_internal");
        if (!dead)
            held(kind + "|move_internal(d)|" + flag_class(g, claimed.back().first, claimed.back().second) + "|L"
                 + std::to_string(claimed.size() - 1) + (on_boundary ? "|from-boundary" : ""));
        on_boundary = false;
        crossed = false;
        dirchange_site.clear();
        next_dist -= L;
        has_next = next_dist > 0;
        if (ref_next >= 0)
            ref_next -= L;
    }

    // move_internal(pos) to a point inside the ball of radius 0.9 * reference margin (also
    // within the navigator's own safety when it reports a positive one)
    void op_move_internal_pos()
    {
        Real3 p = nav.tv.pos();
        Path claimed = nav.path();
        double pp[3] = {p[0], p[1], p[2]};
        Real3 target;
        if (!on_boundary)
        {
            RefResult r = g.loc->locate(pp);
            double tol = g.tol_at(pp);
            if (!(r.margin > K_TOL * tol))
                return;
            double rad = 0.9 * double(r.margin);
            double s = nav.tv.find_safety();
            if (s > 0 && std::isfinite(s))
                rad = std::min(rad, 0.9 * s);
            // keep the end point farther than tolerance from every surface
            rad = std::min(rad, double(r.margin) - K_TOL * tol);
            if (!(rad > 0))
                return;
            double dd[3];
            rng.unit3(dd);
            double rr = rad * std::cbrt(rng.uniform());
            for (int a = 0; a < 3; ++a)
                target[a] = p[a] + rr * dd[a];
        }
        else
        {
            // from a boundary (after crossing): a short move along the direction of travel,
            // well inside the distance to the next boundary according to both
            if (!crossed || !has_next || !(ref_next > 0) || nav.reentrant_flag())
                return;
            double L = 0.3 * std::min(next_dist, ref_next);
            if (!(L > 0) || !std::isfinite(L))
                return;
            Real3 d = nav.tv.dir();
            for (int a = 0; a < 3; ++a)
                target[a] = p[a] + L * d[a];
            double q[3] = {target[0], target[1], target[2]};
            RefResult rq = g.loc->locate(q);
            if (!(rq.margin > ld(K_TOL * g.tol_at(q))))
                return;
        }
        nav.tv.move_internal(target);
        log_op("move_internal(pos)");
        if (check_failed("move_internal_pos"))
            return;
        if (nav.tv.is_on_boundary() || nav.path() != claimed)
        {
            violation("C03/" + kind + "/volume-changed/move_internal_pos",
                      "move_internal(pos) changed the volume or left the track on a boundary");
            return;
        }
        Real3 q = nav.tv.pos();
        if (q[0] != target[0] || q[1] != target[1] || q[2] != target[2])
        {
            violation("C03/" + kind + "/position/move_internal_pos", "pos() != requested position");
            return;
        }
        // leg from p to target
        Real3 d;
        double L = 0;
        for (int a = 0; a < 3; ++a)
        {
            d[a] = target[a] - p[a];
            L += d[a] * d[a];
        }
        L = std::sqrt(L);
        if (L > 0)
        {
            for (int a = 0; a < 3; ++a)
                d[a] /= L;
            check_leg(p, d, L, claimed, "move_internal_pos", false);
        }
        if (dead)
            return;
        check_levels("move_internal_pos");
        if (!dead)
            held(kind + "|move_internal(pos)|" + flag_class(g, claimed.back().first, claimed.back().second) + "|L"
                 + std::to_string(claimed.size() - 1) + (on_boundary ? "|from-boundary" : ""));
        on_boundary = false;
        crossed = false;
        has_next = false;
        dirchange_site.clear();
    }

    // Relation between the level of the surface the track sits on and the track's own level
    std::string boundary_site(Path const& p)
    {
        int sl = nav.surface_level();
        int nlev = int(p.size());
        if (sl < 0)
            return "none";
        std::string s = (sl == nlev - 1) ? "same-level" : "shallower-level";
        bool rot = false;
        for (int l = sl; l + 1 < nlev; ++l)
            if (g.loc->daughter_transform_kind(p[l].first, p[l].second) == 2)
                rot = true;
        return s + (rot ? "/rot" : "/norot");
    }

    void op_cross()
    {
        Path before = nav.path();
        Real3 p = nav.tv.pos();
        bool was_reentrant = nav.reentrant_flag();
        // geometric expectation (independent of the navigator's flag): a track arriving on the
        // boundary of its volume crosses iff its direction points out of that volume
        int h = 0;
        std::string stype, site;
        if (!crossed && kind == "ops")
        {
            h = heading_into(before, stype);
            site = boundary_site(before);
        }
        nav.tv.cross_boundary();
        log_op("cross_boundary", json{{"reentrant", was_reentrant}});
        if (check_failed("cross_boundary"))
            return;
        if (!nav.tv.is_on_boundary())
        {
            violation("C03/" + kind + "/not-on-boundary/cross_boundary", "not on a boundary after cross_boundary");
            return;
        }
        Real3 q = nav.tv.pos();
        if (q[0] != p[0] || q[1] != p[1] || q[2] != p[2])
        {
            violation("C03/" + kind + "/position/cross_boundary", "cross_boundary moved the track");
            return;
        }
        if (h != 0)
        {
            bool changed = nav.path() != before;
            if (h > 0 && changed)
            {
                violation("C03/ops/set_dir-on-boundary/" + site,
                          "[crossed-while-heading-back] direction was changed on the boundary so that it points back into the current volume, "
                          "but cross_boundary moved the track into the neighbour",
                          json{{"pos", jhex3(p)}, {"dir", jhex3(nav.tv.dir())}, {"before", path_str(before)},
                               {"after", path_str(nav.path())}, {"surface_type", stype}});
                return;
            }
            if (h < 0 && !changed)
            {
                violation("C03/ops/set_dir-on-boundary/" + site,
                          "[stayed-while-heading-out] direction points out of the current volume but cross_boundary left the track in it",
                          json{{"pos", jhex3(p)}, {"dir", jhex3(nav.tv.dir())}, {"before", path_str(before)},
                               {"surface_type", stype}});
                return;
            }
            held("ops|cross|" + stype + "|" + site + (changed ? "|crossed" : "|null-crossing")
                 + (setdir_on_boundary ? "|after-set_dir" : ""));
            // the direction changes made before this crossing have been judged
            dirchange_site.clear();
        }
        check_levels("cross_boundary");
        crossed = true;
        has_next = false;
        setdir_on_boundary = false;
    }

    void op_set_dir(int mode)
    {
        Path claimed = nav.path();
        Real3 old = nav.tv.dir();
        double nd[3];
        rng.unit3(nd);
        std::string how = "iso";
        if (on_boundary && mode != 0)
        {
            // relative to the true surface normal: reflect / keep side / graze-free flip
            Real3 p = nav.tv.pos();
            double pp[3] = {p[0], p[1], p[2]};
            RefResult r = g.loc->locate(pp);
            auto const& n = r.nearest.normal_global;
            double nn = double(verif::refloc::norm(n));
            if (nn > 0.5)
            {
                double od = 0, xd = 0;
                for (int a = 0; a < 3; ++a)
                {
                    od += double(n[a]) * old[a];
                    xd += double(n[a]) * nd[a];
                }
                if (mode == 1)
                {
                    // mirror reflection across the tangent plane
                    for (int a = 0; a < 3; ++a)
                        nd[a] = old[a] - 2 * od * double(n[a]);
                    how = "reflect";
                }
                else
                {
                    // random direction forced to the same (mode 2) or opposite (mode 3) side
                    bool same = (xd >= 0) == (od >= 0);
                    if ((mode == 2) != same)
                        for (int a = 0; a < 3; ++a)
                            nd[a] -= 2 * xd * double(n[a]);
                    how = mode == 2 ? "same-side" : "flip";
                }
            }
        }
        double nrm = std::sqrt(nd[0] * nd[0] + nd[1] * nd[1] + nd[2] * nd[2]);
        Real3 D{nd[0] / nrm, nd[1] / nrm, nd[2] / nrm};
        nav.tv.set_dir(D);
        log_op("set_dir", json{{"how", how}});
        if (check_failed("set_dir"))
            return;
        if (nav.path() != claimed)
        {
            violation("C03/" + kind + "/volume-changed/set_dir", "set_dir changed the volume");
            return;
        }
        Real3 got = nav.tv.dir();
        if (got[0] != D[0] || got[1] != D[1] || got[2] != D[2])
        {
            violation("C03/" + kind + "/direction/set_dir", "dir() != requested direction");
            return;
        }
        if (nav.tv.is_on_boundary() != on_boundary)
        {
            violation("C03/" + kind + "/boundary-state/set_dir", "set_dir changed the on-boundary state");
            return;
        }
        check_levels("set_dir");
        has_next = false;
        if (on_boundary)
        {
            setdir_on_boundary = true;
            // remember the site of every direction change made on this boundary; a symptom is
            // attributed to the site where the surface belongs to a shallower level reached
            // through a rotation if there was one, otherwise to the most recent one
            std::string site_now = boundary_site(claimed);
            if (dirchange_site != "shallower-level/rot")
                dirchange_site = site_now;
        }
    }

    //-----------------------------------------------------------------------//
    // Straight ray: find_next_step -> move_to_boundary -> cross_boundary until outside
    void run_ray(double const* p, double const* d)
    {
        if (!initialize(p, d))
            return;
        int ncross = 0;
        int const cap = 2000;
        while (!dead)
        {
            if (nav.tv.is_outside())
                break;
            op_find_next(false);
            if (dead)
                break;
            if (!next_boundary || !std::isfinite(next_dist))
            {
                violation("C03/ray/no-boundary/" + flag_class(g, nav.path().back().first, nav.path().back().second),
                          "inside the world but find_next_step found no boundary");
                break;
            }
            op_move_to_boundary();
            if (dead)
                break;
            op_cross();
            if (dead)
                break;
            if (++ncross > cap)
            {
                violation("C03/ray/too-many-crossings", "more than 2000 crossings on one ray");
                break;
            }
        }
        cx.rep.observe_max("ray.crossings", ncross);
    }

    // Random operation program respecting the documented call order
    void run_ops(double const* p, double const* d, int nops)
    {
        if (!initialize(p, d))
            return;
        for (int i = 0; i < nops && !dead; ++i)
        {
            if (nav.tv.is_outside())
                break;
            double u = rng.uniform();
            if (on_boundary && !crossed)
            {
                // arrived on a boundary: cross, possibly after changing direction (any number
                // of times)
                if (u < 0.55)
                    op_cross();
                else
                    op_set_dir(int(rng.integer(0, 3)));
            }
            else if (on_boundary && crossed && nav.reentrant_flag())
            {
                // direction changed after crossing so that the track heads back: documented
                // response is a zero step to the boundary; the only further legal operations
                // are another direction change or (optionally) the null crossing
                if (u < 0.3)
                    op_find_next(rng.coin());
                else if (u < 0.9 || !allow_post_reentrant_cross)
                    op_set_dir(int(rng.integer(0, 3)));
                else
                    op_cross();
            }
            else if (!has_next)
            {
                if (u < 0.62)
                    op_find_next(rng.coin(0.5));
                else if (u < 0.85)
                    op_set_dir(on_boundary ? int(rng.integer(0, 3)) : 0);
                else if (!on_boundary)
                    op_move_internal_pos();
                else
                    op_find_next(false);
            }
            else
            {
                if (next_boundary && u < 0.45)
                    op_move_to_boundary();
                else if (u < 0.70)
                    op_move_internal_dist();
                else if (u < 0.82)
                    op_set_dir(on_boundary ? int(rng.integer(0, 3)) : 0);
                else if (u < 0.90)
                    op_move_internal_pos();
                else if (u < 0.95 && !on_boundary)
                {
                    double s = nav.tv.find_safety();
                    log_op("find_safety", json{{"safety", s}});
                    if (!(s >= 0))
                        violation("C03/ops/negative-safety", "find_safety returned a negative value or NaN");
                }
                else
                    op_find_next(rng.coin(0.5));
            }
        }
    }
};

//---------------------------------------------------------------------------//
// Geometry list for a run
struct GeoSpec
{
    std::string family;
    std::string name;
    std::string path;  // bundled
    std::uint64_t gseed = 0;
    long sid = 0;  // stable id: independent of the budgets (bundled i, orangeinp 100000+i, handmade 200000+i)
};

std::vector<GeoSpec> make_specs(verif::Args const& args, std::uint64_t ngen, std::uint64_t nhand)
{
    std::vector<GeoSpec> specs;
    std::string repo = std::getenv("VERIF_REPO") ? std::getenv("VERIF_REPO") : "/repo";
    long nb = 0;
    for (auto const& b : geo_workload::bundled_files(repo))
        specs.push_back({"bundled", b.name, b.path, 0, nb++});
    for (std::uint64_t i = 0; i < ngen; ++i)
        specs.push_back({"orangeinp", "gen" + std::to_string(i), "", verif::mix_seed(args.seed, 1000 + i),
                         long(100000 + i)});
    for (std::uint64_t i = 0; i < nhand; ++i)
        specs.push_back({"handmade", "hand" + std::to_string(i), "", verif::mix_seed(args.seed, 500000 + i),
                         long(200000 + i)});
    // three-level nestings with translated/rotated placements (a third as many as "orangeinp")
    for (std::uint64_t i = 0; i < (ngen + 2) / 3; ++i)
        specs.push_back({"orangeinp-deep", "deep" + std::to_string(i), "", verif::mix_seed(args.seed, 700000 + i),
                         long(300000 + i)});
    return specs;
}

bool load_geo(GeoSpec const& sp, Geo& g, Ctx& cx)
{
    g.name = sp.name;
    g.family = sp.family;
    try
    {
        if (sp.family == "bundled")
        {
            // Involute surfaces have no run-time support in this tree (SurfacesRecordBuilder:
            // "runtime involute support" not implemented) and the JSON reader reaches an
            // "unreachable" (undefined behaviour without debug assertions) for type "inv":
            // such files are rejected input and must not be fed to the reader.
            {
                std::ifstream f(sp.path);
                json j = json::parse(f);
                bool has_inv = false;
                for (auto const& u : j.at("universes"))
                    if (u.contains("surfaces") && u["surfaces"].contains("types"))
                        for (auto const& t : u["surfaces"]["types"])
                            if (t.get<std::string>() == "inv")
                                has_inv = true;
                if (has_inv)
                {
                    cx.rep.inconclusive("rejected input: involute surfaces are not supported at run time");
                    cx.rep.observe("rejected:involute-json");
                    return false;
                }
            }
            g.input = geo_workload::read_json(sp.path);
        }
        else if (sp.family == "orangeinp" || sp.family == "orangeinp-deep")
        {
            Rng rng(sp.gseed);
            geo_workload::GenStats st;
            g.input = geo_workload::generate_orangeinp(rng, st, sp.family == "orangeinp-deep");
            if (sp.family == "orangeinp-deep")
                cx.rep.observe("gen.deep.depth=" + std::to_string(st.max_depth));
            cx.rep.observe("gen.units", st.units);
            cx.rep.observe("gen.daughters", st.daughters);
            cx.rep.observe("gen.rotated_placements", st.rotated);
            cx.rep.observe_max("gen.max_depth", st.max_depth);
        }
        else
        {
            Rng rng(sp.gseed);
            g.input = geo_workload::generate_handmade(rng);
        }
    }
    catch (RuntimeError const& e)
    {
        cx.rep.inconclusive("rejected input");
        cx.rep.observe("rejected:" + sp.family);
        return false;
    }
    catch (DebugError const& e)
    {
        if (verif::is_bounds_assertion(e))
            cx.rep.violation(verif::bounds_key(cx.prop, e), "bounds assertion while building the input",
                             json{{"geometry", sp.name}, {"gseed", sp.gseed}});
        else
        {
            cx.rep.inconclusive("debug-assert: " + verif::describe(e));
            cx.rep.observe("assert:" + verif::describe(e));
        }
        return false;
    }
    return build_geo(g, cx);
}

//---------------------------------------------------------------------------//
int run_c03(verif::Args const& args)
{
    Report rep("C03", "geo", args);
    Ctx cx{rep, args, "C03"};
    rep.set_rule(
        "Geometries: every bundled .org.json of test/orange/data and test/geocel/data, random nested "
        "geometries built through the orangeinp API (boxes, spheres, cylinders, cones, prisms, ellipsoids, hollow "
        "and sliced solids; translated/rotated materials and daughter universes to depth 3, repeated instances, "
        "background or explicit non-convex fill) and hand-assembled units (general/simple quadrics, cone, union and "
        "two-piece volumes, background). Per geometry: straight rays (isotropic, axis-aligned, aimed at "
        "centres/corners/other volumes) traced find_next_step->move_to_boundary->cross_boundary until outside, and "
        "random operation programs over {find_next_step, find_next_step(max), move_internal(d), move_internal(pos), "
        "move_to_boundary, cross_boundary, set_dir (isotropic / reflected / same-side / flipped on a boundary), "
        "find_safety} obeying the documented call order. Every leg travelled is compared with an independent "
        "long-double point locator over OrangeInput (sphere tracing + bisection); every find_next_step distance with "
        "the reference crossing. An evaluation = one judged crossing or movement; a cell = (program kind | operation "
        "| surface type crossed | volume class | level of the surface | transform kind into that level). Rays with "
        "no judged crossing are trivial.");
    rep.assume("The reference locator's reading of OrangeInput (sense = sign of the surface function, postfix logic "
               "over face indices, background = last volume with zorder 'background', daughter transform x_parent = "
               "R x + t, rect-array cell order x-major) is the meaning of the input.");
    rep.assume("Tolerance: a point is 'within tolerance of a surface' when closer than 100 x max(tol.abs, tol.rel * "
               "|x|_inf) (Tolerance<> documented as the bump/comparison scale); boundary distances are compared with "
               "10 x that value plus rounding.");

    bool quick = !args.thorough();
    std::uint64_t ngen = args.budget(30, 400);
    std::uint64_t nhand = args.budget(8, 60);
    std::uint64_t nrays = args.budget(400, 1200);
    std::uint64_t nprog = args.budget(200, 500);
    (void)quick;
    auto specs = make_specs(args, ngen, nhand);
    long only_geo = args.has("geo") ? std::atol(args.get("geo").c_str()) : -1;
    long only_case = args.has("case") ? std::atol(args.get("case").c_str()) : -1;
    bool post_reentrant_cross = args.get("post-reentrant-cross", "0") == "1";

    for (std::size_t gix = 0; gix < specs.size(); ++gix)
    {
        long gi = specs[gix].sid;
        if (only_geo >= 0 && gi != only_geo)
            continue;
        Geo g;
        g.index = int(gi);
        if (!load_geo(specs[gix], g, cx))
            continue;
        if (args.has("dump"))
        {
            std::ofstream df(args.get("dump"));
            df << g.input;
        }
        Rng prng(verif::mix_seed(args.seed, std::uint64_t(7000000 + gi)));
        build_pool(g, prng, 4000);
        rep.observe("geometries");
        rep.observe("geometries:" + g.family);
        if (g.pool.empty())
        {
            rep.inconclusive("no interior start point found");
            continue;
        }
        std::uint64_t ncase = nrays + nprog;
        // large flat geometries are slower per ray: keep the per-geometry cost bounded
        for (std::uint64_t ci = (only_case >= 0 ? std::uint64_t(only_case) : 0);
             ci < (only_case >= 0 ? std::uint64_t(only_case) + 1 : ncase);
             ++ci)
        {
            bool is_ray = args.has("kind") ? args.get("kind") == "ray" : ci < nrays;
            Rng rng(verif::mix_seed(args.seed, std::uint64_t(gi + 1) * 1000003ull + ci));
            double p[3], d[3];
            if (!pick_start(g, rng, p))
                continue;
            std::string dkind;
            pick_dir(g, rng, p, d, dkind);
            try
            {
                Program prog(cx, g, rng, is_ray ? "ray" : "ops");
                prog.allow_post_reentrant_cross = post_reentrant_cross;
                prog.witness = json{{"geometry", g.name}, {"family", g.family}, {"geo_index", gi},
                                    {"gseed", specs[gix].gseed}, {"case", ci}, {"seed", args.seed},
                                    {"kind", is_ray ? "ray" : "ops"},
                                    {"start", jhex3(Real3{p[0], p[1], p[2]})},
                                    {"dir", jhex3(Real3{d[0], d[1], d[2]})}, {"dir_kind", dkind},
                                    {"replay_args", "--property C03 --seed " + std::to_string(args.seed) + " --tier "
                                                        + args.tier + " --scale " + std::to_string(args.scale)
                                                        + " --geo " + std::to_string(gi) + " --case "
                                                        + std::to_string(ci) + " --kind " + (is_ray ? "ray" : "ops")}};
                std::uint64_t before_v = rep.num_violations();
                if (is_ray)
                    prog.run_ray(p, d);
                else
                    prog.run_ops(p, d, int(rng.integer(12, 60)));
                rep.observe("untestable_items", std::uint64_t(prog.untestable));
                if (rep.num_violations() == before_v && prog.judged == 0)
                    rep.held_trivial();
                if (rep.want_sample(6) && prog.judged > 2 && rep.num_violations() == before_v)
                {
                    json s = prog.witness;
                    s["ops"] = prog.trace;
                    s["judged"] = prog.judged;
                    rep.sample(std::move(s), 6);
                }
            }
            catch (DebugError const& e)
            {
                if (verif::is_bounds_assertion(e))
                    rep.violation(verif::bounds_key("C03", e), "bounds assertion in the navigator",
                                  json{{"geometry", g.name}, {"geo_index", gi}, {"case", ci}, {"seed", args.seed},
                                       {"what", verif::describe(e)}});
                else
                {
                    rep.inconclusive("debug-assert: " + verif::describe(e));
                    rep.observe("assert:" + verif::describe(e));
                }
            }
        }
    }
    return rep.finish();
}

//---------------------------------------------------------------------------//
// C11
void fibonacci_sphere(int n, std::vector<std::array<double, 3>>& out)
{
    out.resize(n);
    double const ga = M_PI * (3.0 - std::sqrt(5.0));
    for (int i = 0; i < n; ++i)
    {
        double z = 1 - (2.0 * i + 1.0) / n;
        double r = std::sqrt(std::max(0.0, 1 - z * z));
        out[i] = {r * std::cos(ga * i), r * std::sin(ga * i), z};
    }
}

int run_c11(verif::Args const& args)
{
    Report rep("C11", "geo", args);
    Ctx cx{rep, args, "C11"};
    rep.set_rule(
        "Geometries as for C03 (bundled .org.json, orangeinp-generated nested geometries, hand-assembled quadric "
        "units). Points: uniform interior points bucketed by instance path, points pushed towards their nearest "
        "surface (1..1000 tolerances away), and special points: exact centres of spherical faces and points on the "
        "axes of cylindrical faces (also inside translated/rotated daughters). At each point find_safety() is "
        "judged: >= 0; (i) find_next_step over isotropic directions + directions to/from the foot points of the "
        "nearest surfaces must be >= safety(1-1e-10); (ii) every point of a 256-point Fibonacci sphere of radius "
        "safety(1-1e-6) (capped at two world diagonals for infinite safety) plus the foot-point directions must be "
        "located by the independent locator in the same instance path. A cell = (nearest surface type | side | "
        "level of that surface | safety class zero/slack/tight/inf | point class).");
    rep.assume("Reference locator semantics as for C03; its margin is a rigorous lower bound of the distance to the "
               "nearest surface, so a safety not exceeding the margin is conservative without sampling.");

    std::uint64_t ngen = args.budget(30, 400);
    std::uint64_t nhand = args.budget(8, 60);
    std::uint64_t npts = args.budget(2000, 20000);
    auto specs = make_specs(args, ngen, nhand);
    long only_geo = args.has("geo") ? std::atol(args.get("geo").c_str()) : -1;
    long only_case = args.has("case") ? std::atol(args.get("case").c_str()) : -1;
    std::vector<std::array<double, 3>> fib;
    fibonacci_sphere(256, fib);

    for (std::size_t gix = 0; gix < specs.size(); ++gix)
    {
        long gi = specs[gix].sid;
        if (only_geo >= 0 && gi != only_geo)
            continue;
        Geo g;
        g.index = int(gi);
        if (!load_geo(specs[gix], g, cx))
            continue;
        Rng prng(verif::mix_seed(args.seed, std::uint64_t(7000000 + gi)));
        build_pool(g, prng, 4000);
        rep.observe("geometries");
        rep.observe("geometries:" + g.family);
        rep.observe("special_points", g.special.size());
        if (g.pool.empty())
        {
            rep.inconclusive("no interior start point found");
            continue;
        }
        std::uint64_t nspecial = g.special.size();
        std::uint64_t ncase = npts + nspecial;
        for (std::uint64_t ci = (only_case >= 0 ? std::uint64_t(only_case) : 0);
             ci < (only_case >= 0 ? std::uint64_t(only_case) + 1 : ncase);
             ++ci)
        {
            Rng rng(verif::mix_seed(args.seed, std::uint64_t(gi + 1) * 1000003ull + ci));
            double p[3];
            std::string pclass;
            if (ci < nspecial)
            {
                for (int a = 0; a < 3; ++a)
                    p[a] = g.special[ci][a];
                pclass = "special";
            }
            else
            {
                if (!pick_start(g, rng, p))
                    continue;
                pclass = "uniform";
                if (rng.coin(0.5))
                {
                    // push towards the nearest surface, ending 1..1000 x K tolerances from it
                    RefResult r0 = g.loc->locate(p);
                    double tol = g.tol_at(p);
                    double nn = double(verif::refloc::norm(r0.nearest.normal_global));
                    double target = K_TOL * tol * rng.loguniform(1.5, 1000.0);
                    if (nn > 0.5 && double(r0.margin) > target)
                    {
                        double sgn = r0.nearest.f > 0 ? -1 : 1;  // towards the surface
                        double mv = double(r0.margin) - target;
                        for (int a = 0; a < 3; ++a)
                            p[a] += sgn * mv * double(r0.nearest.normal_global[a]);
                        pclass = "near-surface";
                    }
                }
            }
            double tol = g.tol_at(p);
            RefResult r = g.loc->locate(p, LINF);
            if (!r.valid())
            {
                rep.inconclusive("invalid input: overlap or gap at the point");
                continue;
            }
            if (r.outside())
            {
                rep.held_trivial();
                continue;
            }
            if (!(r.margin > K_TOL * tol))
            {
                rep.inconclusive("untestable: point within tolerance of a surface");
                continue;
            }
            json wit{{"geometry", g.name}, {"family", g.family}, {"geo_index", gi}, {"gseed", specs[gix].gseed},
                     {"case", ci}, {"seed", args.seed}, {"pos", jhex3(Real3{p[0], p[1], p[2]})},
                     {"pos_dec", jv3(p)}, {"point_class", pclass}, {"ref_path", r.path_string()},
                     {"ref_margin", double(r.margin)},
                     {"replay_args", "--property C11 --seed " + std::to_string(args.seed) + " --tier " + args.tier
                                         + " --scale " + std::to_string(args.scale) + " --geo " + std::to_string(gi)
                                         + " --case " + std::to_string(ci)}};
            try
            {
                Nav nav(g);
                double d0[3];
                rng.unit3(d0);
                // A third of the points are reached the way MSC displacement and the field
                // propagator reach theirs: the track is initialised at another point of the same
                // volume (inside the ball of radius margin/2 around p, which holds only points of
                // that volume) and then placed at p with move_internal(pos); the safety must be
                // the safety *at p* at every nesting level.
                bool via_move = rng.coin(0.35);
                double p0[3] = {p[0], p[1], p[2]};
                if (via_move)
                {
                    double dd[3];
                    rng.unit3(dd);
                    double rr = 0.5 * double(r.margin) * std::cbrt(rng.uniform());
                    for (int a = 0; a < 3; ++a)
                        p0[a] = p[a] + rr * dd[a];
                    RefResult r0 = g.loc->locate(p0, LINF);
                    if (!r0.valid() || r0.outside() || path_of(r0) != path_of(r)
                        || !(r0.margin > K_TOL * g.tol_at(p0)))
                    {
                        via_move = false;
                        for (int a = 0; a < 3; ++a)
                            p0[a] = p[a];
                    }
                }
                nav.tv = GeoTrackInitializer{Real3{p0[0], p0[1], p0[2]}, Real3{d0[0], d0[1], d0[2]}};
                if (nav.tv.failed() || nav.path() != path_of(r))
                {
                    rep.inconclusive("navigator start state differs from the reference (judged by C03)");
                    continue;
                }
                if (via_move)
                {
                    nav.tv.move_internal(Real3{p[0], p[1], p[2]});
                    wit["reached_by"] = "move_internal(pos)";
                    wit["initialised_at"] = jhex3(Real3{p0[0], p0[1], p0[2]});
                    if (nav.tv.failed() || nav.path() != path_of(r))
                    {
                        rep.inconclusive("navigator state after move_internal(pos) differs from the reference (judged by C03)");
                        continue;
                    }
                }
                double s = nav.tv.find_safety();
                wit["safety"] = s;
                // which surface classes are involved
                // nearest *face* of the current volumes (a true boundary candidate)
                NearSurface const* nf = nullptr;
                bool on_centre = false;
                std::string centre_type;
                for (auto const& ns : r.near)
                {
                    if (!ns.is_face)
                        continue;
                    if (!nf || ns.dist < nf->dist)
                        nf = &ns;
                    // exactly on the centre / axis in the navigator's double arithmetic: the
                    // reference's long double local coordinates may differ by a few ulp
                    double mag0 = std::max({std::fabs(p[0]), std::fabs(p[1]), std::fabs(p[2]), 1.0});
                    bool at_axis = ns.on_special || (ns.axis_dist >= 0 && ns.axis_dist <= ld(64 * 2.3e-16 * mag0));
                    if (at_axis && (ns.type[0] == 's' || ns.type[0] == 'c'))
                    {
                        on_centre = true;
                        if (centre_type.empty() || ns.type < centre_type)
                            centre_type = ns.type;
                    }
                }
                std::string ntype = nf ? nf->type : (r.nearest.type.empty() ? "none" : r.nearest.type);
                std::string side = nf ? (nf->f > 0 ? "out" : "in") : "-";
                int nlevel = nf ? nf->level : 0;
                if (!(s >= 0))
                {
                    rep.violation("C11/negative-or-nan-safety/" + ntype, "find_safety returned " + std::to_string(s), wit);
                    continue;
                }
                std::string sclass = (s == 0) ? "zero"
                                              : (std::isinf(s) ? "inf" : (ld(s) <= r.margin ? "slack" : "tight"));
                bool tight = ld(s) > r.margin * (1 + 1e-12L);
                bool violated = false;
                // (ii) reference ball test (only needed when the safety exceeds the rigorous margin)
                if (tight && !(g.has_involute && r.nearest.type == "inv"))
                {
                    double rad = std::isfinite(s) ? s * (1 - 1e-6) : 2 * g.scale;
                    rad = std::min(rad, 2 * g.scale);
                    // sample the ball: Fibonacci spheres at several radii, the directions to / from
                    // the foot points of the nearest surfaces at full radius, and points just
                    // beyond the foot point of every surface closer than the safety
                    struct Probe
                    {
                        std::array<double, 3> u;
                        double r;
                    };
                    std::vector<Probe> probes;
                    for (auto const& u : fib)
                        probes.push_back({u, rad});
                    for (std::size_t k = 0; k < fib.size(); k += 2)
                        probes.push_back({fib[k], 0.6 * rad});
                    for (std::size_t k = 0; k < fib.size(); k += 4)
                        probes.push_back({fib[k], 0.3 * rad});
                    std::vector<NearSurface const*> faces;
                    for (auto const& ns : r.near)
                        if (ns.dist < ld(rad) && verif::refloc::norm(ns.normal_global) > 0.5L)
                            faces.push_back(&ns);
                    std::sort(faces.begin(), faces.end(),
                              [](NearSurface const* a, NearSurface const* b) { return a->dist < b->dist; });
                    for (std::size_t k = 0; k < faces.size() && k < 16; ++k)
                    {
                        auto const& n = faces[k]->normal_global;
                        std::array<double, 3> up{double(n[0]), double(n[1]), double(n[2])};
                        std::array<double, 3> um{-double(n[0]), -double(n[1]), -double(n[2])};
                        probes.push_back({up, rad});
                        probes.push_back({um, rad});
                        // just beyond the foot point (towards the surface)
                        double beyond = double(faces[k]->dist) * (1 + 1e-9) + 20 * tol;
                        if (beyond < rad)
                            probes.push_back({faces[k]->f > 0 ? um : up, beyond});
                    }
                    for (auto const& pb : probes)
                    {
                        auto const& u = pb.u;
                        ld q[3];
                        for (int a = 0; a < 3; ++a)
                            q[a] = ld(p[a]) + ld(pb.r) * ld(u[a]);
                        RefResult rq = g.loc->locate(q);
                        if (rq.same_path(r))
                            continue;
                        // a definite fact only if q itself is not within tolerance of a surface
                        double tq = g.tol_at(q);
                        if (!(rq.margin > ld(tq)))
                            continue;
                        violated = true;
                        wit["ball_point"] = json::array({double(q[0]), double(q[1]), double(q[2])});
                        wit["ball_radius"] = rad;
                        wit["ball_point_distance"] = pb.r;
                        wit["ball_point_path"] = rq.path_string();
                        wit["ball_point_margin"] = double(rq.margin);
                        // true distance to the boundary along this direction (bisection)
                        ld lo = 0, hi = pb.r;
                        for (int it = 0; it < 80; ++it)
                        {
                            ld mid = (lo + hi) / 2;
                            ld qq[3];
                            for (int a = 0; a < 3; ++a)
                                qq[a] = ld(p[a]) + mid * ld(u[a]);
                            if (g.loc->locate(qq).same_path(r))
                                lo = mid;
                            else
                                hi = mid;
                        }
                        wit["boundary_distance_in_that_direction"] = double(hi);
                        break;
                    }
                }
                if (violated)
                {
                    std::string key = on_centre ? "C11/safety-overestimate/" + centre_type + "/on-centre-or-axis"
                                                : "C11/safety-overestimate/" + ntype;
                    rep.violation(key,
                                  "safety " + std::to_string(s) + " exceeds the true distance to the boundary of the "
                                      "current volume: a point within the safety sphere is in another volume",
                                  wit);
                    continue;
                }
                // (i) navigator-based: distance to boundary in many directions >= safety
                int ndir = tight ? 64 : 12;
                std::vector<std::array<double, 3>> dirs;
                for (int k = 0; k < ndir; ++k)
                {
                    double dd[3];
                    rng.unit3(dd);
                    dirs.push_back({dd[0], dd[1], dd[2]});
                }
                {
                    int added = 0;
                    std::vector<NearSurface const*> faces;
                    for (auto const& ns : r.near)
                        if (verif::refloc::norm(ns.normal_global) > 0.5L)
                            faces.push_back(&ns);
                    std::sort(faces.begin(), faces.end(),
                              [](NearSurface const* a, NearSurface const* b) { return a->dist < b->dist; });
                    for (auto const* f : faces)
                    {
                        if (added++ >= 6)
                            break;
                        auto const& n = f->normal_global;
                        double nn = double(verif::refloc::norm(n));
                        dirs.push_back({double(n[0]) / nn, double(n[1]) / nn, double(n[2]) / nn});
                        dirs.push_back({-double(n[0]) / nn, -double(n[1]) / nn, -double(n[2]) / nn});
                    }
                }
                bool dir_violation = false;
                for (auto const& u : dirs)
                {
                    double nrm = std::sqrt(u[0] * u[0] + u[1] * u[1] + u[2] * u[2]);
                    nav.tv.set_dir(Real3{u[0] / nrm, u[1] / nrm, u[2] / nrm});
                    Propagation pr = nav.tv.find_next_step();
                    double dist = pr.boundary ? pr.distance : std::numeric_limits<double>::infinity();
                    // both numbers are differences of coordinates of magnitude `mag`: allow 64 ulp
                    // of that magnitude (cancellation in |r - R|) besides the 1e-10 relative margin
                    double mag = std::max({std::fabs(p[0]), std::fabs(p[1]), std::fabs(p[2]), g.scale});
                    if (!(dist >= s * (1 - 1e-10) - 64 * 2.3e-16 * mag))
                    {
                        wit["direction"] = json::array({u[0] / nrm, u[1] / nrm, u[2] / nrm});
                        wit["distance_to_boundary"] = dist;
                        dir_violation = true;
                        break;
                    }
                }
                if (dir_violation)
                {
                    std::string key = on_centre
                                          ? "C11/safety-overestimate/" + centre_type + "/on-centre-or-axis"
                                          : "C11/safety-exceeds-step/" + ntype;
                    rep.violation(key, "a ray from the point meets a boundary before travelling the safety distance", wit);
                    continue;
                }
                std::string cell = ntype + "|" + side + "|L" + std::to_string(nlevel) + "|" + sclass + "|" + pclass + (via_move ? "|after-move_internal(pos)" : "")
                                   + (on_centre ? "|on-centre" : "");
                rep.held(cell);
                rep.observe("safety_class:" + sclass);
                if (std::isfinite(s) && r.margin > 0)
                    rep.observe_max("safety_over_margin", s / double(r.margin));
                if (rep.want_sample(6) && tight)
                {
                    json smp = wit;
                    smp["cell"] = cell;
                    rep.sample(std::move(smp), 6);
                }
            }
            catch (DebugError const& e)
            {
                if (verif::is_bounds_assertion(e))
                    rep.violation(verif::bounds_key("C11", e), "bounds assertion in the navigator", wit);
                else
                {
                    rep.inconclusive("debug-assert: " + verif::describe(e));
                    rep.observe("assert:" + verif::describe(e));
                }
            }
        }
    }
    return rep.finish();
}

}  // namespace

int main(int argc, char** argv)
{
    verif::Args args = verif::parse_args(argc, argv);
    if (!args.replay.empty())
    {
        // replay file written by the driver: re-run the first witness' geometry/case
        try
        {
            std::ifstream f(args.replay);
            json j = json::parse(f);
            auto const& c = j.at("witnesses").at(0).at("case");
            args.seed = c.at("seed").get<std::uint64_t>();
            args.extra["geo"] = std::to_string(c.at("geo_index").get<long>());
            args.extra["case"] = std::to_string(c.at("case").get<long>());
            if (c.contains("kind"))
                args.extra["kind"] = c.at("kind").get<std::string>();
        }
        catch (std::exception const& e)
        {
            std::cerr << "cannot read replay file: " << e.what() << "\n";
            return 2;
        }
    }
    try
    {
        if (args.property == "C03")
            return run_c03(args);
        if (args.property == "C11")
            return run_c11(args);
    }
    catch (std::exception const& e)
    {
        std::cerr << "geo_engine: harness failure: " << e.what() << "\n";
        return 2;
    }
    std::cerr << "geo_engine: unknown property '" << args.property << "'\n";
    return 2;
}
