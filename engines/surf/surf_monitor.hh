// Online monitor for one (quadric-family surface, pos, dir, state) evaluation.
#pragma once

#include "surf_common.hh"

namespace surf
{
//---------------------------------------------------------------------------//
// calc_sense(pos) against sign f(pos).  Returns: +1 judged & ok, 0 untestable, -1 violation
template<class S>
inline int check_sense_at(CaseLog& log, S const& s, RefQuadric const& ref, Real3 const& x, char const* where)
{
    Q3 xq = surfref::q3a(x);
    Q f = ref.eval(xq);
    // calc_sense evaluates the polynomial in double: |error| <= KR eps abs-sum(x)
    Q band = Q(KR) * Q(EPS) * ref.mag(xq);
    SignedSense got = s.calc_sense(x);
    if (surfref::qabs(f) <= band)
        return 0;
    SignedSense want = f > 0 ? SignedSense::outside : SignedSense::inside;
    if (got != want)
    {
        log.viol("C12/sense/" + type_name<S>(),
                 std::string("calc_sense disagrees with the sign of the surface function (") + where + ")",
                 json{{"x", jvec(x)}, {"f", jq(f)}, {"band", jq(band)}, {"got", to_cstring(got)}});
        return -1;
    }
    return 1;
}

//---------------------------------------------------------------------------//
// calc_normal(x) against grad f / |grad f| at a point x on (or within rounding of) the
// surface.
template<class S>
inline int check_normal_at(CaseLog& log, S const& s, RefQuadric const& ref, Real3 const& x)
{
    Q3 xq = surfref::q3a(x);
    Q3 gq = ref.grad(xq);
    Q gn = surfref::norm(gq);
    Q gabs = ref.grad_abs(xq);
    if (gn == 0)
        return 0;
    // components of the gradient carry <= KR eps grad_abs absolute error; normalisation
    // adds a few eps
    Q tol = Q(KR) * Q(EPS) * gabs / gn + 8 * Q(EPS);
    if (tol > Q(1e-6))
    {
        log.cx.rep.observe("normal_skipped_ill_conditioned_gradient");
        return 0;
    }
    Real3 n = s.calc_normal(x);
    double worst = 0;
    for (int i = 0; i < 3; ++i)
    {
        double e = surfref::qd(surfref::qabs(Q(n[i]) - gq[i] / gn));
        worst = std::max(worst, e);
    }
    log.cx.rep.observe_max("normal_err_over_tol_max", worst / surfref::qd(tol));
    if (!(worst <= surfref::qd(tol)))
    {
        log.viol("C12/normal/" + type_name<S>(),
                 "calc_normal is not the unit gradient of the surface function",
                 json{{"x", jvec(x)},
                      {"normal", jvec(n)},
                      {"ref", {jq(gq[0] / gn), jq(gq[1] / gn), jq(gq[2] / gn)}},
                      {"tol", jq(tol)}});
        return -1;
    }
    return 1;
}

//---------------------------------------------------------------------------//
struct RayOutcome
{
    std::string branch;  // coverage-cell component; empty if inconclusive/violated
};

// Full monitor.  `on_surface_point` must be true iff pos was generated on the surface
// (within rounding) -- required for SurfaceState::on.
template<class S>
inline void check_quadric_ray(Ctx& cx,
                              S const& s,
                              Real3 const& pos,
                              Real3 const& dir,
                              SurfaceState st,
                              std::string const& posclass,
                              std::string const& dirclass,
                              json const& gen)
{
    using surfref::qabs;
    using surfref::qd;
    std::string const tn = type_name<S>();
    json base = gen;
    base["surface"] = jsurf(s);
    base["pos"] = jvec(pos);
    base["dir"] = jvec(dir);
    base["state"] = (st == SurfaceState::on ? "on" : "off");
    CaseLog log(cx, base);

    RefQuadric ref = make_ref(s);
    auto isect = s.calc_intersections(pos, dir, st);

    Q3 pq = surfref::q3a(pos), dq = surfref::q3a(dir);
    auto ray = ref.ray(pq, dq);
    // state on: the solver drops c ("inaccurate if a particle is logically on a surface but
    // not physically on it", QuadraticSolver.hh) == perturbs c by |c|
    Q c_extra = (st == SurfaceState::on) ? qabs(ray.c) : Q(0);
    auto roots = surfref::solve_ray(ray, ref.has_second(), min_a_doc(), KR, c_extra);
    cx.rep.observe(std::string("rootkind/") +
                   (roots.kind == surfref::RayRoots::two            ? "two"
                    : roots.kind == surfref::RayRoots::none         ? "none"
                    : roots.kind == surfref::RayRoots::near_tangent ? "near_tangent"
                    : roots.kind == surfref::RayRoots::fuzz_a       ? "fuzz_a"
                    : roots.kind == surfref::RayRoots::linear_one   ? "linear_one"
                    : roots.kind == surfref::RayRoots::linear_none  ? "linear_none"
                                                                    : "near_parallel"));

    // (1) return contract: each item is a positive distance or the sentinel.  Site of the
    // key: the a~0 ("along surface") treatment of the general solver is one routine shared
    // by cones and simple/general quadrics.
    std::vector<double> rep;
    for (auto v : isect)
    {
        if (v == no_intersection())
            continue;
        if (!(v > 0) || !std::isfinite(v))
        {
            bool general = S::surface_type() == SurfaceType::sq || S::surface_type() == SurfaceType::gq
                           || S::surface_type() == SurfaceType::kx || S::surface_type() == SurfaceType::ky
                           || S::surface_type() == SurfaceType::kz;
            log.viol(std::string("C12/positive-distance/")
                         + ((general && (roots.kind == surfref::RayRoots::fuzz_a || !ref.has_second())) ? std::string("along-surface") : tn),
                     "reported intersection is neither positive nor the no_intersection sentinel",
                     json{{"value", v}, {"hex", verif::hexd(v)}, {"a_hb_c", {jq(ray.a), jq(ray.hb), jq(ray.c)}}});
            continue;
        }
        rep.push_back(v);
    }
    std::sort(rep.begin(), rep.end());
    if (log.violated)
        return;
    if (roots.kind == surfref::RayRoots::fuzz_a)
    {
        cx.rep.inconclusive("untestable: leading coefficient a~0 inside QuadraticSolver's documented fuzz");
        return;
    }
    if (roots.kind == surfref::RayRoots::near_tangent)
    {
        cx.rep.inconclusive("untestable: near-tangent (discriminant inside its rounding perturbation)");
        return;
    }
    if (roots.kind == surfref::RayRoots::near_parallel)
    {
        cx.rep.inconclusive("untestable: ray parallel to plane within rounding");
        return;
    }

    // (2) match reported distances with exact roots
    int n = roots.n;
    Q tol[2] = {0, 0};
    int zero_root = -1;
    if (st == SurfaceState::on && n > 0)
    {
        // the root nearest to zero is "the surface the track is on"; the solver drops
        // c, i.e. shifts the other root by that amount ("inaccurate if a particle is
        // logically on a surface but not physically on it", QuadraticSolver.hh)
        zero_root = (n == 2 && qabs(roots.t[1]) < qabs(roots.t[0])) ? 1 : 0;
        Q t0 = qabs(roots.t[zero_root]);
        for (int i = 0; i < n; ++i)
            tol[i] = roots.tol[i] + 2 * t0 + 2 * roots.tol[zero_root];
        if (n == 2)
        {
            Q sep = qabs(roots.t[1] - roots.t[0]);
            if (!(sep > 8 * (tol[0] + tol[1])))
            {
                cx.rep.inconclusive("untestable: on-surface state with the two roots inside each other's tolerance");
                return;
            }
        }
    }
    else
    {
        for (int i = 0; i < n; ++i)
            tol[i] = roots.tol[i];
    }
    bool matched[2] = {false, false};
    int npos = 0;
    for (double r : rep)
    {
        int hit = -1;
        for (int i = 0; i < n; ++i)
        {
            if (!matched[i] && qabs(Q(r) - roots.t[i]) <= tol[i])
            {
                hit = i;
                break;
            }
        }
        if (hit < 0)
        {
            // is it a duplicate of an already matched root?
            bool dup = false;
            for (int i = 0; i < n; ++i)
                if (matched[i] && qabs(Q(r) - roots.t[i]) <= tol[i])
                    dup = true;
            Q fr = ref.eval(surfref::axpy(pq, Q(r), dq));
            log.viol(std::string(dup ? "C12/duplicate-root/" : "C12/on-surface/") + tn,
                     dup ? "two reported distances correspond to the same crossing"
                         : "the point at the reported distance does not lie on the surface (no exact root "
                           "within the derived tolerance)",
                     json{{"reported", r},
                          {"f_at_reported", jq(fr)},
                          {"exact_roots", n == 2   ? json{jq(roots.t[0]), jq(roots.t[1])}
                                          : n == 1 ? json{jq(roots.t[0])}
                                                   : json::array()},
                          {"tol", n ? json{jq(tol[0]), jq(tol[n - 1])} : json::array()},
                          {"a_hb_c", {jq(ray.a), jq(ray.hb), jq(ray.c)}}});
            continue;
        }
        matched[hit] = true;
        if (n && roots.tol[hit] > 0)
            cx.rep.observe_max("dist_err_over_tol_max/" + tn, qd(qabs(Q(r) - roots.t[hit]) / tol[hit]));
        if (st == SurfaceState::on && hit == zero_root)
        {
            log.viol("C12/on-state-zero-root/" + tn,
                     "SurfaceState::on returned the root of the surface the track is on",
                     json{{"reported", r}, {"exact_roots", json{jq(roots.t[0]), jq(roots.t[n - 1])}}});
        }
    }
    // (3) no missed crossing: every exact root beyond the tolerance band must be reported
    for (int i = 0; i < n; ++i)
    {
        if (st == SurfaceState::on && i == zero_root)
            continue;
        if (roots.t[i] > 2 * tol[i] && roots.t[i] < Q(1e300))
        {
            ++npos;
            if (!matched[i])
            {
                log.viol("C12/missed-crossing/" + tn,
                         "an exact transversal crossing at a positive distance was not reported",
                         json{{"missed_root", jq(roots.t[i])},
                              {"tol", jq(tol[i])},
                              {"reported", rep},
                              {"a_hb_c", {jq(ray.a), jq(ray.hb), jq(ray.c)}}});
            }
        }
    }
    if (log.violated)
        return;

    // (4) sense at the start point
    int sj = check_sense_at(log, s, ref, pos, "start point");
    cx.rep.observe(sj == 0 ? "sense/in-rounding-band" : "sense/judged");

    // (5) sense flips across consecutive reported crossings; normals at the crossings
    if (!rep.empty())
    {
        std::vector<double> mids;
        mids.push_back(0.5 * rep[0]);
        for (std::size_t i = 0; i + 1 < rep.size(); ++i)
            mids.push_back(0.5 * (rep[i] + rep[i + 1]));
        mids.push_back(rep.back() + 0.5 * (rep.size() > 1 ? rep.back() - rep[rep.size() - 2] : rep.back()));
        std::vector<int> sg, refsg;
        bool all_ok = true;
        // the probe points pos + m dir are formed in double: they are only "between the
        // crossings" if the gaps exceed the rounding of that sum
        double const pos_round = 8 * EPS * (norm(pos) + mids.back());
        if (mids[0] <= pos_round)
            all_ok = false;
        for (std::size_t i = 0; i + 1 < rep.size(); ++i)
            if (0.5 * (rep[i + 1] - rep[i]) <= pos_round)
                all_ok = false;
        // ... and exceed the tolerance with which the reported distances locate the exact
        // crossings
        for (double m : mids)
            for (int i = 0; i < n; ++i)
                if (qabs(Q(m) - roots.t[i]) <= 2 * tol[i] + Q(pos_round))
                    all_ok = false;
        for (double m : mids)
        {
            if (!all_ok)
                break;
            Real3 x{pos[0] + m * dir[0], pos[1] + m * dir[1], pos[2] + m * dir[2]};
            int j = check_sense_at(log, s, ref, x, "between crossings");
            if (j <= 0)
            {
                all_ok = false;
                break;
            }
            sg.push_back(static_cast<int>(s.calc_sense(x)));
            refsg.push_back(ref.eval(surfref::q3a(x)) > 0 ? 1 : -1);
        }
        // near-tangent chords: the rounded probe points may fail to straddle the crossing
        // (depth below the rounding of pos + m dir); then the reference signs themselves do
        // not alternate and the probe is useless
        for (std::size_t i = 0; all_ok && i + 1 < refsg.size(); ++i)
            if (refsg[i] == refsg[i + 1])
                all_ok = false;
        std::size_t const first = 0;
        if (all_ok)
        {
            for (std::size_t i = first; i + 1 < sg.size(); ++i)
            {
                if (sg[i] == sg[i + 1])
                {
                    log.viol("C12/sense-flip/" + tn,
                             "calc_sense does not flip across a reported crossing",
                             json{{"reported", rep}, {"mid_distances", mids}, {"senses", sg}});
                    break;
                }
            }
            cx.rep.observe("flip/judged");
        }
        for (double r : rep)
        {
            Real3 x{pos[0] + r * dir[0], pos[1] + r * dir[1], pos[2] + r * dir[2]};
            check_normal_at(log, s, ref, x);
        }
    }
    if (st == SurfaceState::on || posclass == "on")
        check_normal_at(log, s, ref, pos);
    if (log.violated)
        return;

    std::string branch;
    switch (roots.kind)
    {
        case surfref::RayRoots::two:
            branch = (roots.t[0] > 2 * tol[0])   ? "two-ahead"
                     : (roots.t[1] > 2 * tol[1]) ? (roots.t[0] < -2 * tol[0] ? "one-ahead" : "one-ahead-on")
                                                 : "both-behind";
            break;
        case surfref::RayRoots::none: branch = "no-real-root"; break;
        case surfref::RayRoots::linear_one: branch = roots.t[0] > 2 * tol[0] ? "plane-ahead" : "plane-behind"; break;
        default: branch = "plane-parallel"; break;
    }
    (void)npos;
    cx.rep.held("ray/" + tn + "/" + branch + "/" + posclass + "/" + dirclass + "/"
                + (st == SurfaceState::on ? "on" : "off"));
    if (cx.rep.want_sample(4) && !rep.empty())
    {
        json smp = base;
        smp["reported"] = rep;
        smp["exact_roots"] = n == 2 ? json{jq(roots.t[0]), jq(roots.t[1])} : json{jq(roots.t[0])};
        smp["tolerance"] = jq(tol[0]);
        cx.rep.sample(std::move(smp), 4);
    }
}

}  // namespace surf
