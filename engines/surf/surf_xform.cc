// Transform laws for surfaces: SurfaceTranslator, SurfaceTransformer, SurfaceSimplifier.
//   sense_{T(S)}(T(x)) == sense_S(x) * (flip returned by the simplifier)
// judged with the REAL calc_sense of the resulting surface at parent-frame points against
// sign f_S (quad) at the exact daughter-frame pre-image of those points.
#include "surf_gen.hh"

namespace surf
{
namespace
{
using surfref::qabs;
using surfref::qd;

struct XPoint
{
    Real3 xd;  // daughter frame (as generated)
    std::string cls;
};

std::vector<XPoint> gen_points(verif::Rng& g, RefQuadric const& ref, Frame const& f, int n)
{
    std::vector<XPoint> out;
    for (int k = 0; k < n; ++k)
    {
        XPoint p;
        int pc = static_cast<int>(g.integer(0, 5));
        Real3 onp, nrm;
        if (pc >= 3 && !point_on_surface(g, ref, f, onp, nrm))
            pc = 0;
        if (pc <= 1)
        {
            for (int i = 0; i < 3; ++i)
                p.xd[i] = f.c[i] + f.L * g.uniform(-3, 3);
            p.cls = "near";
        }
        else if (pc == 2)
        {
            Real3 u = rand_unit(g);
            double m = f.L * g.loguniform(10, 1e4);
            for (int i = 0; i < 3; ++i)
                p.xd[i] = f.c[i] + m * u[i];
            p.cls = "far";
        }
        else
        {
            double dl = sgn_rand(g) * f.L * g.loguniform(1e-9, 1e-1);
            for (int i = 0; i < 3; ++i)
                p.xd[i] = onp[i] + dl * nrm[i];
            p.cls = dl > 0 ? "nearsurf-out" : "nearsurf-in";
        }
        out.push_back(p);
    }
    return out;
}

// parent -> daughter in quad: R^T (x - t)
struct QMap
{
    Q R[3][3] = {{1, 0, 0}, {0, 1, 0}, {0, 0, 1}};
    Q t[3] = {0, 0, 0};
    Q3 down(Q3 const& x) const
    {
        Q3 r;
        for (int i = 0; i < 3; ++i)
        {
            r[i] = 0;
            for (int k = 0; k < 3; ++k)
                r[i] += R[k][i] * (x[k] - t[k]);
        }
        return r;
    }
    Q shift() const { return sqrtq(t[0] * t[0] + t[1] * t[1] + t[2] * t[2]); }
};
QMap qmap(Translation const& tr)
{
    QMap m;
    for (int i = 0; i < 3; ++i)
        m.t[i] = tr.translation()[i];
    return m;
}
QMap qmap(Transformation const& tf)
{
    QMap m;
    for (int i = 0; i < 3; ++i)
    {
        m.t[i] = tf.translation()[i];
        for (int k = 0; k < 3; ++k)
            m.R[i][k] = tf.rotation()[i][k];
    }
    return m;
}

// Judge the law at the given parent-frame points.
// simp_tol > 0: the operation is a simplification with that snapping tolerance.
template<class S2>
void judge_points(Ctx& cx,
                  json const& base,
                  std::string const& cell_prefix,
                  std::string const& key,
                  RefQuadric const& rin,
                  S2 const& s2,
                  bool flip,
                  QMap const& map,
                  double simp_tol,
                  std::vector<std::pair<Real3, std::string>> const& parent_points)
{
    RefQuadric rout = make_ref(s2);
    for (auto const& pp : parent_points)
    {
        Real3 const& xp = pp.first;
        Q3 xpq = surfref::q3a(xp);
        Q3 xdq = map.down(xpq);
        Q f_in = rin.eval(xdq);
        Q rho = surfref::norm(xdq);
        // Rounding allowance of building the transformed coefficients (expanded about the
        // global origin, origin moved by |t|, |R|<=1) and evaluating them at |x'| <= rho+|t|.
        Q band_in = Q(4 * KR) * Q(EPS) * rin.mag_expanded(rho, map.shift());
        if (simp_tol > 0)
        {
            // Simplification snaps coefficients by up to tol absolutely (SoftZero) or
            // relatively (SoftEqual); every monomial of the expanded polynomial can change
            // by tol * (1 + its coefficient) * |x|^k.
            Q on = rin.onorm();
            Q s2c = rin.s2();
            Q g1e = rin.g1() + 2 * s2c * on;
            Q je = qabs(rin.j) + rin.g1() * on + s2c * on * on;
            band_in += 8 * Q(simp_tol) * ((1 + s2c) * rho * rho + (1 + g1e) * rho + (1 + je));
        }
        if (qabs(f_in) <= band_in)
        {
            cx.rep.inconclusive("untestable: point inside the tolerance band of the original surface");
            continue;
        }
        Q f_out = rout.eval(xpq);
        Q band_out = Q(KR) * Q(EPS) * rout.mag(xpq);
        if (qabs(f_out) <= band_out)
        {
            cx.rep.inconclusive("untestable: point inside the rounding band of the resulting surface");
            continue;
        }
        int want = (f_in > 0 ? 1 : -1) * (flip ? -1 : 1);
        SignedSense got = s2.calc_sense(xp);
        if (static_cast<int>(got) != want)
        {
            json w = base;
            w["result"] = jsurf(s2);
            w["flip_reported"] = flip;
            w["point_parent"] = jvec(xp);
            w["point_daughter_exact"] = {jq(xdq[0]), jq(xdq[1]), jq(xdq[2])};
            w["f_in"] = jq(f_in);
            w["band_in"] = jq(band_in);
            w["f_out"] = jq(f_out);
            w["got"] = to_cstring(got);
            w["expected"] = want > 0 ? "outside" : "inside";
            report_violation(cx, key, "sense of the resulting surface at the transformed point differs from the original's "
                                      "sense at the original point (with the reported flip)", std::move(w));
            continue;
        }
        cx.rep.held(cell_prefix + "/" + type_name<S2>() + "/" + pp.second);
    }
}

//---------------------------------------------------------------------------//
SquareMatrixReal3 reflect(SquareMatrixReal3 r, verif::Rng& g)
{
    int ax = static_cast<int>(g.integer(0, 2));
    if (g.coin())
        for (int j = 0; j < 3; ++j)
            r[ax][j] = -r[ax][j];
    else
        for (int i = 0; i < 3; ++i)
            r[i][ax] = -r[i][ax];
    return r;
}

SignedPermutation random_permutation(verif::Rng& g)
{
    for (;;)
    {
        int perm[3] = {0, 1, 2};
        for (int i = 2; i > 0; --i)
            std::swap(perm[i], perm[g.integer(0, i)]);
        SignedPermutation::SignedAxes ax;
        int nneg = 0;
        char sg[3];
        for (int i = 0; i < 3; ++i)
        {
            sg[i] = g.coin() ? '+' : '-';
            nneg += sg[i] == '-';
        }
        // parity of the permutation
        int inv = (perm[0] > perm[1]) + (perm[0] > perm[2]) + (perm[1] > perm[2]);
        if (((inv + nneg) & 1) != 0)
            continue;  // determinant -1: rejected by the constructor
        ax[Axis::x] = {sg[0], to_axis(perm[0])};
        ax[Axis::y] = {sg[1], to_axis(perm[1])};
        ax[Axis::z] = {sg[2], to_axis(perm[2])};
        return SignedPermutation{ax};
    }
}

Real3 gen_translation(verif::Rng& g, double L)
{
    Real3 u = rand_unit(g);
    int k = static_cast<int>(g.integer(0, 7));
    double m = k == 0 ? 0.0 : k <= 5 ? L * g.loguniform(1e-3, 1e2) : k == 6 ? L * g.loguniform(1e2, 1e6) : g.loguniform(1e-6, 1e6);
    Real3 t{m * u[0], m * u[1], m * u[2]};
    if (g.coin(0.2))
        t[g.integer(0, 2)] = 0;
    return t;
}

template<class S>
void translate_case(Ctx& cx, verif::Rng& g, json base)
{
    Frame f;
    S s = Gen<S>::make(g, f);
    RefQuadric rin = make_ref(s);
    Translation tr{gen_translation(g, f.L)};
    auto s2 = detail::SurfaceTranslator{tr}(s);
    base["surface"] = jsurf(s);
    base["op"] = "translate";
    base["translation"] = jvec(tr.translation());
    std::vector<std::pair<Real3, std::string>> pts;
    for (auto const& p : gen_points(g, rin, f, 6))
        pts.emplace_back(tr.transform_up(p.xd), p.cls);
    judge_points(cx, base, "xform/" + type_name<S>() + "/translate", "C12/transform-sense/translate/" + type_name<S>(), rin, s2,
                 false, qmap(tr), 0.0, pts);
}

template<class S>
void transform_case(Ctx& cx, verif::Rng& g, json base)
{
    Frame f;
    S s = Gen<S>::make(g, f);
    RefQuadric rin = make_ref(s);
    int kind = static_cast<int>(g.integer(0, 4));
    Real3 t = gen_translation(g, f.L);
    std::string kname;
    SquareMatrixReal3 R;
    switch (kind)
    {
        case 0:
            R = harness_rotation(g);
            kname = "rotation";
            break;
        case 1:
            R = reflect(harness_rotation(g), g);
            kname = "reflection";
            break;
        case 2:
        {
            // Transformation(SignedPermutation const&) is declared in Transformation.hh but
            // defined nowhere in liborange: build the matrix column by column with the
            // real rotate_up
            SignedPermutation sp = random_permutation(g);
            for (int j = 0; j < 3; ++j)
            {
                Real3 e{0, 0, 0};
                e[j] = 1;
                Real3 col = sp.rotate_up(e);
                for (int i = 0; i < 3; ++i)
                    R[i][j] = col[i];
            }
        }
            kname = "permutation";
            break;
        case 3: {
            // library-made rotation about an arbitrary axis / cartesian axes
            if (g.coin())
                R = make_rotation(rand_unit(g), Turn{g.uniform(0, 0.5)});
            else
                R = make_rotation(to_axis(int(g.integer(0, 2))), Turn{g.uniform(-1, 1)},
                                  make_rotation(to_axis(int(g.integer(0, 2))), Turn{g.uniform(-1, 1)}));
            kname = "make_rotation";
            break;
        }
        default:
            R = SquareMatrixReal3{Real3{1, 0, 0}, Real3{0, 1, 0}, Real3{0, 0, 1}};
            kname = "pure-translation";
            break;
    }
    Transformation tf{R, t};
    auto s2 = detail::SurfaceTransformer{tf}(s);
    base["surface"] = jsurf(s);
    base["op"] = "transform/" + kname;
    json jr = json::array();
    for (int i = 0; i < 3; ++i)
        jr.push_back(jvec(R[i]));
    base["rotation_rows"] = jr;
    base["translation"] = jvec(t);
    std::vector<std::pair<Real3, std::string>> pts;
    for (auto const& p : gen_points(g, rin, f, 6))
        pts.emplace_back(tf.transform_up(p.xd), p.cls);
    judge_points(cx, base, "xform/" + type_name<S>() + "/" + kname, "C12/transform-sense/transform/" + type_name<S>(), rin, s2,
                 false, qmap(tf), 0.0, pts);
}

//---------------------------------------------------------------------------//
// Simplification chain
template<class S>
void simplify_chain(Ctx& cx, verif::Rng& g, S const& s, Frame const& f, double tol, bool default_ctor, int depth, json base)
{
    Sense sense = g.coin() ? Sense::inside : Sense::outside;
    Sense const before = sense;
    auto result = default_ctor ? SurfaceSimplifier{&sense}(s) : SurfaceSimplifier{&sense, tol}(s);
    RefQuadric rin = make_ref(s);
    base["surface"] = jsurf(s);
    base["op"] = "simplify";
    base["simplify_tol"] = tol;
    base["depth"] = depth;
    std::visit(
        [&](auto const& out) {
            using O = std::decay_t<decltype(out)>;
            if constexpr (std::is_same_v<O, std::monostate>)
            {
                if (sense != before)
                    report_violation(cx, "C12/simplify-flip-without-result/" + type_name<S>(),
                                     "simplifier flipped the sense but returned no new surface", base);
                else if (depth == 0)
                    cx.rep.held_trivial();
                cx.rep.observe("simplify/" + type_name<S>() + "->unchanged");
            }
            else
            {
                bool flip = sense != before;
                cx.rep.observe("simplify/" + type_name<S>() + "->" + type_name<O>() + (flip ? "/flip" : ""));
                std::vector<std::pair<Real3, std::string>> pts;
                for (auto const& p : gen_points(g, rin, f, 6))
                    pts.emplace_back(p.xd, p.cls);
                judge_points(cx, base, "xform/" + type_name<S>() + "/simplify" + (flip ? "-flip" : ""),
                             "C12/transform-sense/simplify/" + type_name<S>() + "->" + type_name<O>(), rin, out, flip, QMap{},
                             tol, pts);
                if (depth < 4)
                    simplify_chain(cx, g, out, f, tol, default_ctor, depth + 1, base);
            }
        },
        result);
}

template<class S>
S scale_coefficients(S const& s, double lam)
{
    auto arr = make_array(s.data());
    for (auto& v : arr)
        v *= lam;
    using SpanT = decltype(s.data());
    return S{SpanT{arr.data(), arr.size()}};
}

double tiny(verif::Rng& g)
{
    return g.coin(0.3) ? 0.0 : sgn_rand(g) * g.loguniform(1e-16, 1e-5);
}

double gen_L_simplify(verif::Rng& g)
{
    return g.loguniform(1e-3, 1e4);
}

void simplify_case(Ctx& cx, verif::Rng& g, json base)
{
    bool default_ctor = g.coin(0.6);
    double tol = default_ctor ? 1e-10 : (g.coin() ? 1e-8 : 1e-6);
    int fam = static_cast<int>(g.integer(0, 19));
    Frame f;
    double lam = sgn_rand(g) * (g.coin() ? 1.0 : g.loguniform(0.1, 10));
    auto run = [&](auto const& s, char const* famname) {
        base["family"] = famname;
        simplify_chain(cx, g, s, f, tol, default_ctor, 0, base);
    };
    auto small_center = [&](double L) {
        return Real3{tiny(g), tiny(g), tiny(g)} * 1.0 + Real3{0, 0, 0} * L;
    };
    switch (fam)
    {
        case 0: {
            f.L = gen_L_simplify(g);
            double p = tiny(g);
            f.c = Real3{0, 0, 0};
            int ax = int(g.integer(0, 2));
            f.c[ax] = p;
            if (ax == 0)
                run(PlaneX{p}, "plane-aligned-near-zero");
            else if (ax == 1)
                run(PlaneY{p}, "plane-aligned-near-zero");
            else
                run(PlaneZ{p}, "plane-aligned-near-zero");
            break;
        }
        case 1: {
            f.L = gen_L_simplify(g);
            f.c = small_center(f.L);
            int ax = int(g.integer(0, 2));
            f.axis = ax;
            if (ax == 0)
                run(CylX{f.c, f.L}, "cyl-near-axis");
            else if (ax == 1)
                run(CylY{f.c, f.L}, "cyl-near-axis");
            else
                run(CylZ{f.c, f.L}, "cyl-near-axis");
            break;
        }
        case 2: {
            f.L = gen_L_simplify(g);
            f.c = small_center(f.L);
            run(Sphere{f.c, f.L}, "sphere-near-origin");
            break;
        }
        case 3: {
            f.L = gen_L_simplify(g);
            f.c = small_center(f.L);
            if (g.coin())
                f.c[g.integer(0, 2)] = f.L * g.uniform(-2, 2);
            double tg = g.loguniform(1e-2, 1e2);
            int ax = int(g.integer(0, 2));
            f.axis = ax;
            if (ax == 0)
                run(ConeX{f.c, tg}, "cone-near-origin");
            else if (ax == 1)
                run(ConeY{f.c, tg}, "cone-near-origin");
            else
                run(ConeZ{f.c, tg}, "cone-near-origin");
            break;
        }
        case 4:
        case 5: {
            Plane p = Gen<Plane>::make(g, f);
            run(p, "plane");
            break;
        }
        case 6: {
            // plane written as a simple quadric, arbitrary (possibly negative) scale, tiny
            // second-order terms
            Plane p = Gen<Plane>::make(g, f);
            SimpleQuadric sq0{p};
            SimpleQuadric sq{Real3{tiny(g) * 1e-6, tiny(g) * 1e-6, tiny(g) * 1e-6}, lam * make_array(sq0.first()), lam * sq0.zeroth()};
            run(sq, "sq-from-plane");
            break;
        }
        case 7: {
            Sphere sp = Gen<Sphere>::make(g, f);
            run(scale_coefficients(SimpleQuadric{sp}, lam), "sq-from-sphere");
            break;
        }
        case 8: {
            int ax = int(g.integer(0, 2));
            SimpleQuadric sq = ax == 0   ? SimpleQuadric{Gen<CylX>::make(g, f)}
                               : ax == 1 ? SimpleQuadric{Gen<CylY>::make(g, f)}
                                         : SimpleQuadric{Gen<CylZ>::make(g, f)};
            run(scale_coefficients(sq, lam), "sq-from-cyl");
            break;
        }
        case 9: {
            int ax = int(g.integer(0, 2));
            SimpleQuadric sq = ax == 0   ? SimpleQuadric{Gen<ConeX>::make(g, f)}
                               : ax == 1 ? SimpleQuadric{Gen<ConeY>::make(g, f)}
                                         : SimpleQuadric{Gen<ConeZ>::make(g, f)};
            run(scale_coefficients(sq, lam), "sq-from-cone");
            break;
        }
        case 10:
        case 11: {
            SimpleQuadric sq = Gen<SimpleQuadric>::make(g, f);
            run(scale_coefficients(sq, g.coin() ? 1.0 : -1.0), "sq-generic");
            break;
        }
        case 12: {
            // general quadric without (or with negligible) cross terms
            SimpleQuadric sq = Gen<SimpleQuadric>::make(g, f);
            GeneralQuadric gq0{scale_coefficients(sq, lam)};
            GeneralQuadric gq{make_array(gq0.second()), Real3{tiny(g) * 1e-6, tiny(g) * 1e-6, tiny(g) * 1e-6},
                              make_array(gq0.first()), gq0.zeroth()};
            run(gq, "gq-from-sq");
            break;
        }
        case 13: {
            Sphere sp = Gen<Sphere>::make(g, f);
            GeneralQuadric gq{scale_coefficients(SimpleQuadric{sp}, lam)};
            run(gq, "gq-from-sphere");
            break;
        }
        case 16:
        case 17: {
            // Structured (degenerate) quadrics with exact zeros and exactly equal coefficients:
            // paraboloids of revolution, elliptic / hyperbolic paraboloids, parabolic cylinders,
            // cylinders / cones / spheres written with arbitrary scale.  These are the inputs on
            // which the Quadric*Converter guards (which coefficient must vanish) decide.
            f.L = g.loguniform(1e-2, 1e2);
            double a = g.loguniform(0.1, 10);
            double bq = g.coin(0.5) ? a : g.loguniform(0.1, 10);
            int ax = int(g.integer(0, 2));
            int u = (ax + 1) % 3, v = (ax + 2) % 3;
            Real3 second{0, 0, 0}, first{0, 0, 0};
            Real3 ctr{g.coin(0.3) ? 0.0 : f.L * g.uniform(-2, 2), g.coin(0.3) ? 0.0 : f.L * g.uniform(-2, 2),
                      g.coin(0.3) ? 0.0 : f.L * g.uniform(-2, 2)};
            int kind = int(g.integer(0, 5));
            second[u] = a;
            second[v] = (kind == 2) ? -bq : bq;  // kind 2: hyperbolic paraboloid / hyperbolic cylinder
            double along2 = 0;  // second-order coefficient along the axis
            double along1 = 0;  // first-order coefficient along the axis
            double h = -a * f.L * f.L * g.uniform(0.2, 2);  // "radius^2" like constant
            switch (kind)
            {
                case 0: along1 = sgn_rand(g) * a * f.L * g.loguniform(0.1, 10); break;  // paraboloid
                case 1: break;  // cylinder (elliptic if a != bq)
                case 2: along1 = g.coin() ? 0.0 : a * f.L * g.uniform(-3, 3); break;
                case 3: along2 = -a * g.loguniform(0.1, 10); h = g.coin() ? 0.0 : h; break;  // cone / hyperboloid
                case 4: along2 = bq; break;  // ellipsoid / sphere
                default: second[v] = 0; along1 = a * f.L * g.uniform(0.2, 3); break;  // parabolic cylinder
            }
            second[ax] = along2;
            // expand a (x - c)^2 terms about the centre
            double zeroth = h;
            for (int k = 0; k < 3; ++k)
            {
                first[k] = -2 * second[k] * ctr[k];
                zeroth += second[k] * ctr[k] * ctr[k];
            }
            first[ax] += along1;
            zeroth -= along1 * ctr[ax];
            f.c = ctr;
            f.axis = ax;
            SimpleQuadric sq{second, first, zeroth};
            if (fam == 16)
                run(scale_coefficients(sq, lam), "sq-structured");
            else
            {
                GeneralQuadric gq{scale_coefficients(sq, lam)};
                run(gq, "gq-structured");
            }
            break;
        }
        default: {
            GeneralQuadric gq = Gen<GeneralQuadric>::make(g, f);
            run(scale_coefficients(gq, g.coin() ? 1.0 : -1.0), "gq-generic");
            break;
        }
    }
}

template<class S>
void xform_one(Ctx& cx, std::uint64_t idx)
{
    std::uint64_t i = idx & ((std::uint64_t(1) << 40) - 1);
    cx.case_index = idx;
    verif::Rng g(verif::mix_seed(cx.args.seed, idx));
    json base{{"seed", cx.args.seed}, {"index", idx}};
    guarded(cx, [&] {
        if (i % 3 == 0)
            translate_case<S>(cx, g, base);
        else
            transform_case<S>(cx, g, base);
    });
}

template<class S>
void cases_for_type(Ctx& cx, std::uint64_t n, int type_id)
{
    for (std::uint64_t i = 0; i < n; ++i)
        xform_one<S>(cx, (std::uint64_t(300 + type_id) << 40) | i);
}

void simplify_one(Ctx& cx, std::uint64_t idx)
{
    cx.case_index = idx;
    verif::Rng g(verif::mix_seed(cx.args.seed, idx));
    json base{{"seed", cx.args.seed}, {"index", idx}};
    guarded(cx, [&] { simplify_case(cx, g, base); });
}
}  // namespace

void run_surface_transforms(Ctx& cx, std::uint64_t n)
{
    int id = 1;
    cases_for_type<PlaneX>(cx, n / 3 + 1, id++);
    cases_for_type<PlaneY>(cx, n / 3 + 1, id++);
    cases_for_type<PlaneZ>(cx, n / 3 + 1, id++);
    cases_for_type<Plane>(cx, n, id++);
    cases_for_type<CCylX>(cx, n / 3 + 1, id++);
    cases_for_type<CCylY>(cx, n / 3 + 1, id++);
    cases_for_type<CCylZ>(cx, n / 3 + 1, id++);
    cases_for_type<CylX>(cx, n / 3 + 1, id++);
    cases_for_type<CylY>(cx, n / 3 + 1, id++);
    cases_for_type<CylZ>(cx, n / 3 + 1, id++);
    cases_for_type<SphereCentered>(cx, n, id++);
    cases_for_type<Sphere>(cx, n, id++);
    cases_for_type<ConeX>(cx, n / 3 + 1, id++);
    cases_for_type<ConeY>(cx, n / 3 + 1, id++);
    cases_for_type<ConeZ>(cx, n / 3 + 1, id++);
    cases_for_type<SimpleQuadric>(cx, n, id++);
    cases_for_type<GeneralQuadric>(cx, n, id++);
    // simplification
    for (std::uint64_t i = 0; i < 4 * n; ++i)
        simplify_one(cx, (std::uint64_t(399) << 40) | i);
}

void xform_index(Ctx& cx, std::uint64_t idx)
{
    switch (idx >> 40)
    {
        case 301: xform_one<PlaneX>(cx, idx); break;
        case 302: xform_one<PlaneY>(cx, idx); break;
        case 303: xform_one<PlaneZ>(cx, idx); break;
        case 304: xform_one<Plane>(cx, idx); break;
        case 305: xform_one<CCylX>(cx, idx); break;
        case 306: xform_one<CCylY>(cx, idx); break;
        case 307: xform_one<CCylZ>(cx, idx); break;
        case 308: xform_one<CylX>(cx, idx); break;
        case 309: xform_one<CylY>(cx, idx); break;
        case 310: xform_one<CylZ>(cx, idx); break;
        case 311: xform_one<SphereCentered>(cx, idx); break;
        case 312: xform_one<Sphere>(cx, idx); break;
        case 313: xform_one<ConeX>(cx, idx); break;
        case 314: xform_one<ConeY>(cx, idx); break;
        case 315: xform_one<ConeZ>(cx, idx); break;
        case 316: xform_one<SimpleQuadric>(cx, idx); break;
        case 317: xform_one<GeneralQuadric>(cx, idx); break;
        case 399: simplify_one(cx, idx); break;
        default: break;
    }
}

}  // namespace surf
