// Shared declarations of engine `surf` (C12): context, reference builders from the
// PUBLIC accessors of the real surface classes, witness helpers.
#pragma once

#include <functional>
#include <string>
#include <variant>
#include <vector>

#include "corecel/Constants.hh"
#include "corecel/cont/Array.hh"
#include "corecel/math/ArrayOperators.hh"
#include "corecel/math/ArrayUtils.hh"
#include "orange/MatrixUtils.hh"
#include "orange/OrangeTypes.hh"
#include "orange/surf/SurfaceSimplifier.hh"
#include "orange/surf/detail/AllSurfaces.hh"
#include "orange/surf/detail/SurfaceTransformer.hh"
#include "orange/surf/detail/SurfaceTranslator.hh"
#include "orange/transform/SignedPermutation.hh"
#include "orange/transform/TransformSimplifier.hh"
#include "orange/transform/Transformation.hh"
#include "orange/transform/Translation.hh"
#include "orange/transform/VariantTransform.hh"

#include "surf_ref.hh"
#include "verif_celer.hh"
#include "verif_common.hh"

namespace surf
{
using namespace celeritas;
using surfref::EPS;
using surfref::Q;
using surfref::Q3;
using surfref::RefInvolute;
using surfref::RefQuadric;
using verif::json;

// QuadraticSolver's documented fuzz on the leading coefficient
// (ipow<2>(Tolerance<>::sqrt_quadratic()), OrangeTypes.hh / QuadraticSolver.hh)
inline double min_a_doc()
{
    double s = Tolerance<double>::sqrt_quadratic();
    return s * s;
}

// Rounding-model constant: number of elementary roundings allowed per abs-sum term
// (a dot product of <= 10 terms evaluated with nested products: < 16 roundings)
constexpr double KR = 16.0;

struct Ctx
{
    verif::Report& rep;
    verif::Args const& args;
    std::uint64_t case_index = 0;  // global running case counter (replay id)
};

// development aid: VERIF_SURF_DEBUG=1 prints every violation (not only the first three
// witnesses per key) to stderr
inline void debug_dump(std::string const& key, json const& w)
{
    static bool const on = std::getenv("VERIF_SURF_DEBUG") != nullptr;
    if (on)
        std::cerr << "VIOL " << key << " " << w.dump() << "\n";
}
inline void report_violation(Ctx& cx, std::string const& key, std::string const& detail, json w)
{
    debug_dump(key, w);
    cx.rep.violation(key, detail, std::move(w));
}

//---------------------------------------------------------------------------//
// Per-case violation bookkeeping: first violation counts as the evaluation, later ones
// are attached to the same case.
struct CaseLog
{
    Ctx& cx;
    json base;
    bool violated = false;
    CaseLog(Ctx& c, json b) : cx(c), base(std::move(b)) {}
    void viol(std::string const& key, std::string const& detail, json extra = json())
    {
        json w = base;
        if (!extra.is_null())
            w["observed"] = std::move(extra);
        debug_dump(key, w);
        if (!violated)
            cx.rep.violation(key, detail, std::move(w));
        else
            cx.rep.violation_in_case(key, detail, std::move(w));
        violated = true;
    }
};

//---------------------------------------------------------------------------//
// Reference quadric from public accessors (equations from the class doc comments)
template<Axis T>
inline RefQuadric make_ref(PlaneAligned<T> const& s)
{
    RefQuadric r;
    r.g[to_int(T)] = 1;
    r.j = -Q(s.position());
    return r;
}
inline RefQuadric make_ref(Plane const& s)
{
    RefQuadric r;
    for (int i = 0; i < 3; ++i)
        r.g[i] = s.normal()[i];
    r.j = -Q(s.displacement());
    return r;
}
template<Axis T>
inline RefQuadric make_ref(CylCentered<T> const& s)
{
    RefQuadric r;
    for (int i = 0; i < 3; ++i)
        if (i != to_int(T))
            r.A[i][i] = 1;
    r.j = -Q(s.radius_sq());
    return r;
}
template<Axis T>
inline RefQuadric make_ref(CylAligned<T> const& s)
{
    RefQuadric r;
    for (int i = 0; i < 3; ++i)
        if (i != to_int(T))
            r.A[i][i] = 1;
    r.o[to_int(CylAligned<T>::u_axis())] = s.origin_u();
    r.o[to_int(CylAligned<T>::v_axis())] = s.origin_v();
    r.j = -Q(s.radius_sq());
    return r;
}
inline RefQuadric make_ref(SphereCentered const& s)
{
    RefQuadric r;
    for (int i = 0; i < 3; ++i)
        r.A[i][i] = 1;
    r.j = -Q(s.radius_sq());
    return r;
}
inline RefQuadric make_ref(Sphere const& s)
{
    RefQuadric r;
    for (int i = 0; i < 3; ++i)
    {
        r.A[i][i] = 1;
        r.o[i] = s.origin()[i];
    }
    r.j = -Q(s.radius_sq());
    return r;
}
template<Axis T>
inline RefQuadric make_ref(ConeAligned<T> const& s)
{
    RefQuadric r;
    for (int i = 0; i < 3; ++i)
    {
        r.A[i][i] = (i == to_int(T)) ? -Q(s.tangent_sq()) : Q(1);
        r.o[i] = s.origin()[i];
    }
    return r;
}
inline RefQuadric make_ref(SimpleQuadric const& s)
{
    RefQuadric r;
    for (int i = 0; i < 3; ++i)
    {
        r.A[i][i] = s.second()[i];
        r.g[i] = s.first()[i];
    }
    r.j = s.zeroth();
    return r;
}
inline RefQuadric make_ref(GeneralQuadric const& s)
{
    RefQuadric r;
    for (int i = 0; i < 3; ++i)
    {
        r.A[i][i] = s.second()[i];
        r.g[i] = s.first()[i];
    }
    // cross terms (xy, yz, zx)
    r.A[0][1] = r.A[1][0] = Q(s.cross()[0]) / 2;
    r.A[1][2] = r.A[2][1] = Q(s.cross()[1]) / 2;
    r.A[0][2] = r.A[2][0] = Q(s.cross()[2]) / 2;
    r.j = s.zeroth();
    return r;
}
inline RefInvolute make_ref(Involute const& s)
{
    RefInvolute r;
    r.ox = s.origin()[0];
    r.oy = s.origin()[1];
    r.rb = s.r_b();
    r.s = (s.sign() == Chirality::left) ? 1 : -1;
    // displacement_angle() returns the constructor's angle for left involutes and
    // (pi - angle) for right ones (Involute.cc, Involute.test.cc "construction")
    r.a = (r.s > 0) ? Q(s.displacement_angle()) : surfref::Q_PI - Q(s.displacement_angle());
    r.tmin = s.tmin();
    r.tmax = s.tmax();
    return r;
}

template<class S>
inline std::string type_name()
{
    return to_cstring(S::surface_type());
}

template<class S>
inline json jsurf(S const& s)
{
    json j;
    j["type"] = type_name<S>();
    json d = json::array(), h = json::array();
    for (auto v : s.data())
    {
        d.push_back(v);
        h.push_back(verif::hexd(v));
    }
    j["data"] = d;
    j["data_hex"] = h;
    return j;
}
inline json jvec(Real3 const& v)
{
    return json{{"v", {v[0], v[1], v[2]}},
                {"hex", {verif::hexd(v[0]), verif::hexd(v[1]), verif::hexd(v[2])}}};
}
inline json jq(Q x)
{
    return surfref::qstr(x);
}

inline Real3 rand_unit(verif::Rng& g)
{
    double d[3];
    g.unit3(d);
    Real3 r{d[0], d[1], d[2]};
    return make_unit_vector(r);
}
inline Real3 qround(Q3 const& x)
{
    return Real3{surfref::qd(x[0]), surfref::qd(x[1]), surfref::qd(x[2])};
}
inline double sgn_rand(verif::Rng& g)
{
    return g.coin() ? 1.0 : -1.0;
}

// Run one case body with the exception policy of the guide
inline void guarded(Ctx& cx, std::function<void()> const& body)
{
    try
    {
        body();
    }
    catch (celeritas::RuntimeError const& e)
    {
        std::string w = e.what();
        if (w.find("not yet implemented") != std::string::npos || w.find("mplement") != std::string::npos)
            cx.rep.inconclusive("not implemented in the code under test");
        else
            cx.rep.inconclusive("rejected input");
    }
    catch (celeritas::DebugError const& e)
    {
        if (verif::is_bounds_assertion(e))
            cx.rep.violation(verif::bounds_key("C12", e), verif::describe(e), json{{"case", cx.case_index}});
        else
        {
            cx.rep.inconclusive("debug-assert: " + verif::describe(e));
            cx.rep.observe("assert:" + verif::describe(e));
        }
    }
}

// entry points implemented in the other translation units
void run_quadric_rays(Ctx& cx, std::uint64_t n_per_type);
void run_lattice(Ctx& cx);
void run_involute(Ctx& cx, std::uint64_t n);
void run_surface_transforms(Ctx& cx, std::uint64_t n_per_type);
void run_point_transforms(Ctx& cx, std::uint64_t n);
// single case by replay id (seed taken from cx.args)
void ray_index(Ctx& cx, std::uint64_t idx);
void inv_index(Ctx& cx, std::uint64_t idx);
void xform_index(Ctx& cx, std::uint64_t idx);
void tf_index(Ctx& cx, std::uint64_t idx);

}  // namespace surf
