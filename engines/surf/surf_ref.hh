// Reference models for engine `surf` (property C12), evaluated in __float128.
//
// Nothing in this header calls celeritas code.  Every surface is described from its
// documented equation (class doc comments in orange/surf/*.hh) in terms of the PUBLIC
// parameters of the constructed object:
//
//   quadric family:   f(x) = u^T A u + g.u + j,   u = x - o          (RefQuadric)
//   involute:         P(t) = o + r_b [ (cos p, sin p) + s t (sin p, -cos p) ],
//                     p = a + s t, s = +1 (left/ccw) or -1 (right/cw), t in [tmin, tmax]
//
// Besides exact values the model returns "abs-sums": the sum of the absolute values of
// the terms of a polynomial.  A double-precision evaluation of that polynomial, in any
// order of summation, has an error of at most (#ops) * eps * abs-sum; all tolerances of
// the monitors are derived from these.
#pragma once

#include <quadmath.h>

#include <algorithm>
#include <cmath>
#include <string>
#include <vector>

namespace surfref
{
using Q = __float128;

inline Q qabs(Q x) { return fabsq(x); }
inline Q qmax(Q a, Q b) { return a > b ? a : b; }
inline Q qmin(Q a, Q b) { return a < b ? a : b; }
inline double qd(Q x) { return static_cast<double>(x); }
static const Q Q_PI = 4 * atanq(Q(1));
static const double EPS = 2.220446049250313e-16;  // 2^-52

struct Q3
{
    Q v[3];
    Q& operator[](int i) { return v[i]; }
    Q const& operator[](int i) const { return v[i]; }
};

inline Q3 q3(double const* p)
{
    return Q3{{Q(p[0]), Q(p[1]), Q(p[2])}};
}
template<class A>
inline Q3 q3a(A const& p)
{
    return Q3{{Q(p[0]), Q(p[1]), Q(p[2])}};
}
inline Q dot(Q3 const& a, Q3 const& b)
{
    return a[0] * b[0] + a[1] * b[1] + a[2] * b[2];
}
inline Q norm(Q3 const& a)
{
    return sqrtq(dot(a, a));
}
inline Q3 axpy(Q3 const& p, Q t, Q3 const& d)
{
    return Q3{{p[0] + t * d[0], p[1] + t * d[1], p[2] + t * d[2]}};
}

//---------------------------------------------------------------------------//
// Quadric family in "centred" form.
struct RefQuadric
{
    Q o[3] = {0, 0, 0};
    Q A[3][3] = {{0, 0, 0}, {0, 0, 0}, {0, 0, 0}};  // symmetric
    Q g[3] = {0, 0, 0};
    Q j = 0;

    bool has_second() const
    {
        for (int i = 0; i < 3; ++i)
            for (int k = 0; k < 3; ++k)
                if (A[i][k] != 0)
                    return true;
        return false;
    }
    // sum of |A_ik| (scale of the second-order part)
    Q s2() const
    {
        Q s = 0;
        for (int i = 0; i < 3; ++i)
            for (int k = 0; k < 3; ++k)
                s += qabs(A[i][k]);
        return s;
    }
    Q g1() const { return qabs(g[0]) + qabs(g[1]) + qabs(g[2]); }
    Q onorm() const { return sqrtq(o[0] * o[0] + o[1] * o[1] + o[2] * o[2]); }

    Q eval(Q3 const& x) const
    {
        Q u[3] = {x[0] - o[0], x[1] - o[1], x[2] - o[2]};
        Q r = j;
        for (int i = 0; i < 3; ++i)
        {
            r += g[i] * u[i];
            for (int k = 0; k < 3; ++k)
                r += A[i][k] * u[i] * u[k];
        }
        return r;
    }
    // abs-sum of the terms of f at x (terms in the centred variables u)
    Q mag(Q3 const& x) const
    {
        Q u[3] = {x[0] - o[0], x[1] - o[1], x[2] - o[2]};
        Q r = qabs(j);
        for (int i = 0; i < 3; ++i)
        {
            r += qabs(g[i] * u[i]);
            for (int k = 0; k < 3; ++k)
                r += qabs(A[i][k] * u[i] * u[k]);
        }
        return r;
    }
    // Bound on the abs-sum of the polynomial EXPANDED about the global origin for any
    // point with |x| <= rho, when the coefficients themselves were obtained by moving the
    // origin by up to `shift` (promotion to SimpleQuadric/GeneralQuadric, translation,
    // rotation): every monomial is bounded by coefficient * (rho + |o| + shift)^k.
    Q mag_expanded(Q rho, Q shift) const
    {
        Q R = rho + onorm() + shift;
        return s2() * R * R + g1() * R + qabs(j);
    }
    Q3 grad(Q3 const& x) const
    {
        Q u[3] = {x[0] - o[0], x[1] - o[1], x[2] - o[2]};
        Q3 r;
        for (int i = 0; i < 3; ++i)
        {
            r[i] = g[i];
            for (int k = 0; k < 3; ++k)
                r[i] += 2 * A[i][k] * u[k];
        }
        return r;
    }
    // abs-sum of the gradient components, as a vector norm
    Q grad_abs(Q3 const& x) const
    {
        Q u[3] = {x[0] - o[0], x[1] - o[1], x[2] - o[2]};
        Q s = 0;
        for (int i = 0; i < 3; ++i)
        {
            Q r = qabs(g[i]);
            for (int k = 0; k < 3; ++k)
                r += 2 * qabs(A[i][k] * u[k]);
            s += r * r;
        }
        return sqrtq(s);
    }

    // f(p + t d) = a t^2 + 2 hb t + c
    struct Ray
    {
        Q a, hb, c;
        Q a_abs, hb_abs, c_abs;
    };
    Ray ray(Q3 const& p, Q3 const& d) const
    {
        Q u[3] = {p[0] - o[0], p[1] - o[1], p[2] - o[2]};
        Ray r{0, 0, j, 0, 0, qabs(j)};
        for (int i = 0; i < 3; ++i)
        {
            r.hb += g[i] * d[i] / 2;
            r.hb_abs += qabs(g[i] * d[i]) / 2;
            r.c += g[i] * u[i];
            r.c_abs += qabs(g[i] * u[i]);
            for (int k = 0; k < 3; ++k)
            {
                r.a += A[i][k] * d[i] * d[k];
                r.hb += A[i][k] * u[i] * d[k];
                r.hb_abs += qabs(A[i][k] * u[i] * d[k]);
                r.c += A[i][k] * u[i] * u[k];
                r.c_abs += qabs(A[i][k] * u[i] * u[k]);
            }
        }
        // The leading coefficient of the axis-aligned cylinders is formed as
        // 1 - (d.axis)^2 (documented in CylAligned.hh: "Because a is calculated by
        // subtraction, this puts a hard limit on the accuracy").  Its rounding error is
        // eps * (scale of second-order coefficients) * |d|^2 whatever the direction, so
        // the abs-sum of `a` is bounded with the full |d|^2, not only the components
        // that enter a.
        r.a_abs = s2() * dot(d, d);
        return r;
    }
};

//---------------------------------------------------------------------------//
// Roots of a t^2 + 2 hb t + c with a classification of how well they are determined
// given that a double-precision solver sees coefficients perturbed by
// kcoef*eps*abs-sum.
struct RayRoots
{
    enum Kind
    {
        linear_none,  // a == 0 (plane) and hb == 0 exactly: no root
        linear_one,  // a == 0: single root -c/(2hb)
        none,  // D clearly negative
        two,  // D clearly positive
        near_tangent,  // |D| inside its own perturbation: undecidable
        near_parallel,  // plane with |hb| inside its perturbation
        fuzz_a  // |a| inside the documented "a ~ 0" fuzz (quadrics only)
    } kind;
    int n = 0;
    Q t[2];  // ascending
    Q tol[2];  // allowed |reported - exact| (state off)
    Q sqrtD = 0;
};

// min_a_doc: QuadraticSolver's documented fuzz, ipow<2>(Tolerance<>::sqrt_quadratic()) =
// 1e-10 (absolute) on the leading coefficient.
// c_extra: additional absolute uncertainty of c (SurfaceState::on: the solver replaces c by
// zero, i.e. perturbs it by |c|).
inline RayRoots solve_ray(RefQuadric::Ray const& r, bool has_second, double min_a_doc, double K, Q c_extra = 0)
{
    RayRoots out;
    Q const e = Q(EPS);
    if (!has_second)
    {
        // plane: 2 hb t + c = 0
        if (r.hb == 0)
        {
            out.kind = RayRoots::linear_none;
            return out;
        }
        if (qabs(r.hb) <= 64 * e * r.hb_abs)
        {
            out.kind = RayRoots::near_parallel;
            return out;
        }
        out.kind = RayRoots::linear_one;
        out.n = 1;
        out.t[0] = -r.c / (2 * r.hb);
        // reported = fl( fl(d - n.p) / fl(n.d) ): numerator error <= k eps c_abs,
        // denominator relative error <= k eps hb_abs/|hb|, one rounding for the division
        out.tol[0] = Q(K) * e * (r.c_abs + 2 * qabs(out.t[0]) * r.hb_abs) / (2 * qabs(r.hb))
                     + 4 * e * qabs(out.t[0]);
        return out;
    }
    // "a ~ 0" zone: the solver switches to the along-surface treatment when the computed
    // |a| < min_a; the computed a carries an error of up to K eps a_abs.
    if (qabs(r.a) < 2 * Q(min_a_doc) + Q(K) * e * r.a_abs)
    {
        out.kind = RayRoots::fuzz_a;
        return out;
    }
    Q D = r.hb * r.hb - r.a * r.c;
    // perturbation of D caused by K eps relative errors in the summands of a, hb, c
    Q dD = Q(K) * e * (2 * qabs(r.hb) * r.hb_abs + qabs(r.a) * r.c_abs + qabs(r.c) * r.a_abs)
           + qabs(r.a) * c_extra;
    if (qabs(D) <= 64 * dD)
    {
        out.kind = RayRoots::near_tangent;
        return out;
    }
    if (D < 0)
    {
        out.kind = RayRoots::none;
        return out;
    }
    out.kind = RayRoots::two;
    out.n = 2;
    Q sD = sqrtq(D);
    out.sqrtD = sD;
    Q q = -(r.hb + (r.hb < 0 ? -sD : sD));
    Q t1, t2;
    if (q != 0)
    {
        t1 = q / r.a;
        t2 = r.c / q;
    }
    else
    {
        t1 = t2 = 0;  // cannot happen with D > 0
    }
    if (t1 > t2)
        std::swap(t1, t2);
    out.t[0] = t1;
    out.t[1] = t2;
    for (int i = 0; i < 2; ++i)
    {
        Q t = out.t[i];
        // (1) coefficient errors propagate through dt = (t^2 da + 2 t dhb + dc)/(2 sqrtD)
        // (2) the solver takes sqrt((hb/a)^2 - c/a): rounding of the radicand
        //     eps (hb^2 + |a c|)/a^2 gives (hb^2 + |ac|)/(2 |a| sqrtD)
        // (3) -hb/a -+ sqrt(.) is a subtraction of two numbers of size (|hb| + sqrtD)/|a|
        // (4) a final relative rounding of the root
        out.tol[i] = Q(K) * e
                         * ((t * t * r.a_abs + 2 * qabs(t) * r.hb_abs + r.c_abs) / (2 * sD)
                            + (r.hb * r.hb + qabs(r.a * r.c)) / (2 * qabs(r.a) * sD)
                            + (qabs(r.hb) + sD) / qabs(r.a))
                     + 4 * e * qabs(t) + c_extra / (2 * sD);
    }
    return out;
}

//---------------------------------------------------------------------------//
// Involute of a circle, bounded in the tangent parameter.
struct RefInvolute
{
    Q ox, oy, rb, a;  // a = start angle on the base circle (constructor's "displacement")
    int s;  // +1 left (counterclockwise), -1 right (clockwise)
    Q tmin, tmax;

    void point(Q t, Q& x, Q& y) const
    {
        Q p = a + s * t;
        Q c = cosq(p), sn = sinq(p);
        x = ox + rb * (c + s * t * sn);
        y = oy + rb * (sn - s * t * c);
    }
    // outward unit normal at parameter t (towards decreasing displacement angle of the
    // parallel involute family == the side that calc_sense calls "outside")
    void normal(Q t, Q& nx, Q& ny) const
    {
        Q p = a + s * t;
        nx = s * sinq(p);
        ny = -s * cosq(p);
    }
    // parameter of the involute family member through (x,y): t_p^2 and the signed
    // displacement-angle difference to this surface, wrapped to (-pi, pi]; positive =
    // "inside" side.  Returns false if the point is inside the base circle.
    bool locate(Q x, Q y, Q& tp, Q& delta) const
    {
        Q dx = x - ox, dy = y - oy;
        Q tsq = (dx * dx + dy * dy) / (rb * rb) - 1;
        if (tsq < 0)
            return false;
        tp = sqrtq(tsq);
        Q psi = atan2q(dy, dx);
        Q a1 = psi + s * (atanq(tp) - tp);
        Q d = s * (a1 - a);
        d = fmodq(d, 2 * Q_PI);
        if (d > Q_PI)
            d -= 2 * Q_PI;
        if (d <= -Q_PI)
            d += 2 * Q_PI;
        delta = d;
        return true;
    }

    struct Root
    {
        Q t;  // curve parameter
        Q sdist;  // distance parameter along the (3-D) ray
        Q sin_alpha;  // |sin| of the crossing angle in the plane
    };
    // g(t) = cross(P(t) - p, d): zero where the line through p with direction d meets the
    // curve
    Q gfun(Q t, Q px, Q py, Q du, Q dv) const
    {
        Q x, y;
        point(t, x, y);
        return (x - px) * dv - (y - py) * du;
    }
    // All crossings of the full line with the curve for t in [lo, hi].
    // g'(t) = rb t (cos p dv - sin p du) vanishes at t = 0 and where p = atan2(dv,du) mod
    // pi; g is monotone between consecutive critical points, so each bracket holds at
    // most one root.  `grazing` returns min over interior critical points of |g| (a
    // double root/tangency indicator, in units of length*|d|).
    std::vector<Root> roots(Q px, Q py, Q du, Q dv, Q lo, Q hi, Q& grazing) const
    {
        std::vector<Root> out;
        std::vector<Q> br;
        lo = qmax(lo, Q(0));
        br.push_back(lo);
        Q beta = atan2q(dv, du);
        // t = s (beta - a + k pi)
        Q base = s * (beta - a);
        Q k0 = ceilq((lo - base) / Q_PI);
        // (for s = -1 the lattice -(beta - a) - k pi is the same set)
        for (Q k = k0 - 1; base + k * Q_PI < hi; k += 1)
        {
            Q tc = base + k * Q_PI;
            if (tc > lo && tc < hi)
                br.push_back(tc);
        }
        br.push_back(hi);
        std::sort(br.begin(), br.end());
        grazing = Q(1e300);
        Q d2 = sqrtq(du * du + dv * dv);
        for (std::size_t i = 0; i + 1 < br.size(); ++i)
        {
            Q tl = br[i], tr = br[i + 1];
            if (!(tr > tl))
                continue;
            Q gl = gfun(tl, px, py, du, dv), gr = gfun(tr, px, py, du, dv);
            if (i > 0)
                grazing = qmin(grazing, qabs(gl));
            if (gl == 0)
            {
                // root exactly at a breakpoint: handled as a root of this bracket
            }
            if ((gl < 0 && gr < 0) || (gl > 0 && gr > 0))
                continue;
            if (gr == 0 && i + 2 < br.size())
                continue;  // will be found as gl == 0 of the next bracket
            // bisection + Newton (safeguarded)
            Q a_ = tl, b_ = tr, ga = gl;
            for (int it = 0; it < 8; ++it)
            {
                Q m = (a_ + b_) / 2;
                Q gm = gfun(m, px, py, du, dv);
                if ((gm < 0) == (ga < 0) && gm != 0)
                {
                    a_ = m;
                    ga = gm;
                }
                else
                    b_ = m;
            }
            Q t = (a_ + b_) / 2;
            for (int it = 0; it < 60; ++it)
            {
                Q gt = gfun(t, px, py, du, dv);
                if ((gt < 0) == (ga < 0) && gt != 0)
                {
                    a_ = t;
                    ga = gt;
                }
                else
                    b_ = t;
                Q p = a + s * t;
                Q gp = rb * t * (cosq(p) * dv - sinq(p) * du);
                Q tn = (gp != 0) ? t - gt / gp : (a_ + b_) / 2;
                if (!(tn > a_ && tn < b_))
                    tn = (a_ + b_) / 2;
                if (qabs(tn - t) <= Q(1e-30) * (1 + qabs(t)) || b_ - a_ <= Q(1e-31) * (1 + qabs(t)))
                {
                    t = tn;
                    break;
                }
                t = tn;
            }
            Root r;
            r.t = t;
            Q x, y;
            point(t, x, y);
            r.sdist = ((x - px) * du + (y - py) * dv) / (d2 * d2);
            Q p = a + s * t;
            r.sin_alpha = qabs(cosq(p) * dv - sinq(p) * du) / d2;
            out.push_back(r);
        }
        return out;
    }
};

inline std::string qstr(Q x)
{
    char buf[64];
    quadmath_snprintf(buf, sizeof buf, "%.30Qg", x);
    return buf;
}

}  // namespace surfref
