// Involute cases: sense, intersections, normal and translation against the parametric
// definition of the class documentation (surf_ref.hh, RefInvolute).
#include "surf_common.hh"

namespace surf
{
namespace
{
using surfref::qabs;
using surfref::qd;
using surfref::Q_PI;

// InvoluteSolver::tol(): convergence tolerance r_b*1e-8 on the perpendicular distance of
// the located curve point from the line; 100x that is the documented "on surface" point
// tolerance (tol_point).
constexpr double INV_TOL = 1e-8;

json jinv(Involute const& s)
{
    json j = jsurf(s);
    j["r_b"] = s.r_b();
    j["displacement_angle"] = s.displacement_angle();
    j["sign"] = (s.sign() == Chirality::left ? "left" : "right");
    j["tmin"] = s.tmin();
    j["tmax"] = s.tmax();
    return j;
}

struct InvGen
{
    double rb, a, tmin, tmax;
    Chirality sign;
    Involute::Real2 origin;
};

InvGen gen_involute(verif::Rng& g)
{
    InvGen r;
    r.rb = g.loguniform(1e-6, 1e6);
    double const twopi = 2 * constants::pi;
    int k = static_cast<int>(g.integer(0, 7));
    r.a = k == 0 ? 0.0 : k == 1 ? twopi : k == 2 ? constants::pi : g.uniform(0, twopi);
    r.sign = g.coin() ? Chirality::left : Chirality::right;
    r.tmin = g.coin(0.2) ? 0.0 : (g.coin() ? g.uniform(0, 8) : g.loguniform(1e-3, 30));
    double w = g.coin(0.3) ? g.loguniform(1e-2, 6.2) : g.uniform(0.05, 6.2);
    r.tmax = r.tmin + w;
    if (!(r.tmax < twopi + r.tmin))
        r.tmax = r.tmin + 6.2;
    double m = g.coin() ? r.rb * g.uniform(0, 2) : r.rb * g.loguniform(1, 1e3);
    double ph = g.uniform(0, twopi);
    r.origin = {m * std::cos(ph), m * std::sin(ph)};
    return r;
}
Involute make_inv(InvGen const& p)
{
    return Involute{p.origin, p.rb, p.a, p.sign, p.tmin, p.tmax};
}

//---------------------------------------------------------------------------//
// Reference sense: +1 outside, -1 inside, 0 untestable (why set)
int ref_sense(RefInvolute const& r, Q x, Q y, Q extra_delta_band, std::string& why, Q* delta_out = nullptr)
{
    Q dx = x - r.ox, dy = y - r.oy;
    Q tsq = (dx * dx + dy * dy) / (r.rb * r.rb) - 1;
    // t_point_sq = dot(xy,xy)/rb^2 - 1 in double: <= 8 eps (1 + tsq) absolute, compared with
    // ipow<2>(tmin), ipow<2>(tmax) (1 eps relative each)
    Q msq = 8 * Q(EPS) * (2 + qabs(tsq) + r.tmax * r.tmax);
    if (tsq < r.tmin * r.tmin - msq || tsq > r.tmax * r.tmax + msq)
        return +1;
    if (tsq < r.tmin * r.tmin + msq || tsq > r.tmax * r.tmax - msq)
    {
        why = "untestable: involute band edge within rounding";
        return 0;
    }
    Q tp, delta;
    if (!r.locate(x, y, tp, delta))
        return +1;
    if (delta_out)
        *delta_out = delta;
    // parallel involutes with displacement angles differing by D are at normal distance
    // r_b*D: the documented on-surface point tolerance r_b*1e-6 is |D| <= 1e-6 (x2 margin);
    // sqrt(t_point_sq) loses eps(1+t^2)/t; acos near +-1 loses sqrt(eps)
    Q band = Q(2 * 100 * INV_TOL) + 64 * Q(EPS) * (1 + tp + qabs(r.a)) + 8 * Q(EPS) * (1 + tp * tp) / tp
             + 4 * sqrtq(Q(EPS)) + extra_delta_band;
    if (qabs(delta) <= band)
    {
        why = "untestable: within the involute on-surface tolerance (r_b*1e-6) of the curve";
        return 0;
    }
    // Zone in which the side is unambiguous: the class documentation defines "inside" as
    // "an involute through the point has a displacement angle greater than this one"; for
    // angles (defined mod 2 pi) that is only meaningful close to the curve.
    Q zone = surfref::qmin(Q(0.5), surfref::qmin(Q(0.5) * (r.tmax - tp), Q(0.25) * (2 * Q_PI - (r.tmax - r.tmin))));
    if (qabs(delta) < zone)
        return delta > 0 ? -1 : +1;
    why = "untestable: involute sense far from the curve is not defined by the property";
    return 0;
}

char const* sense_name(int s)
{
    return s < 0 ? "inside" : s > 0 ? "outside" : "on";
}

//---------------------------------------------------------------------------//
void sense_case(Ctx& cx, verif::Rng& g, std::uint64_t idx)
{
    InvGen p = gen_involute(g);
    Involute s = make_inv(p);
    RefInvolute r = make_ref(s);
    int pc = static_cast<int>(g.integer(0, 9));
    Q x, y;
    std::string posclass;
    if (pc <= 5)
    {
        Q t = Q(g.uniform(p.tmin, p.tmax));
        Q nx, ny;
        r.point(t, x, y);
        r.normal(t, nx, ny);
        double dl = sgn_rand(g) * p.rb * g.loguniform(1e-9, 0.3);
        x += dl * nx;
        y += dl * ny;
        posclass = dl > 0 ? "nearcurve-out" : "nearcurve-in";
    }
    else if (pc == 6)
    {
        // radial band edges
        Q t = g.coin() ? Q(p.tmin) : Q(p.tmax);
        Q tt = t + Q(sgn_rand(g) * g.loguniform(1e-12, 1e-2));
        if (tt < 0)
            tt = 0;
        Q xx, yy;
        RefInvolute r2 = r;
        r2.a = r.a + Q(g.uniform(-0.3, 0.3));
        r2.point(tt, xx, yy);
        x = xx;
        y = yy;
        posclass = "band-edge";
    }
    else if (pc == 7)
    {
        double rr = p.rb * g.uniform(0, 1), ph = g.uniform(0, 6.283185307179586);
        x = r.ox + Q(rr * std::cos(ph));
        y = r.oy + Q(rr * std::sin(ph));
        posclass = "base-circle";
    }
    else if (pc == 8)
    {
        double rr = p.rb * std::sqrt(1 + p.tmax * p.tmax) * g.loguniform(1.001, 1e3), ph = g.uniform(0, 6.283185307179586);
        x = r.ox + Q(rr * std::cos(ph));
        y = r.oy + Q(rr * std::sin(ph));
        posclass = "beyond";
    }
    else
    {
        double t = g.uniform(p.tmin, p.tmax), ph = g.uniform(0, 6.283185307179586);
        double rr = p.rb * std::sqrt(1 + t * t);
        x = r.ox + Q(rr * std::cos(ph));
        y = r.oy + Q(rr * std::sin(ph));
        posclass = "annulus";
    }
    Real3 pos{qd(x), qd(y), g.uniform(-1, 1) * p.rb};
    std::string why;
    Q delta = 0;
    int want = ref_sense(r, Q(pos[0]), Q(pos[1]), 0, why, &delta);
    SignedSense got = s.calc_sense(pos);
    if (want == 0)
    {
        cx.rep.inconclusive(why);
        return;
    }
    if (static_cast<int>(got) != want)
    {
        report_violation(cx, std::string("C12/sense/inv-") + (s.sign() == Chirality::left ? "left" : "right"),
                         "Involute::calc_sense disagrees with the band/displacement-angle definition",
                         json{{"seed", cx.args.seed},
                              {"index", idx},
                              {"surface", jinv(s)},
                              {"pos", jvec(pos)},
                              {"posclass", posclass},
                              {"delta_angle", jq(delta)},
                              {"expected", sense_name(want)},
                              {"got", to_cstring(got)}});
        return;
    }
    cx.rep.held("sense/inv/" + posclass + "/" + (s.sign() == Chirality::left ? "left" : "right") + "/"
                + sense_name(want));
}

//---------------------------------------------------------------------------//
void normal_case(Ctx& cx, verif::Rng& g, std::uint64_t idx)
{
    InvGen p = gen_involute(g);
    Involute s = make_inv(p);
    RefInvolute r = make_ref(s);
    Q t = Q(g.coin(0.15) ? p.tmin + (p.tmax - p.tmin) * g.loguniform(1e-9, 1) : g.uniform(p.tmin, p.tmax));
    Q x, y, nx, ny;
    r.point(t, x, y);
    Real3 pos{qd(x), qd(y), g.uniform(-1, 1) * p.rb};
    // parameter recovered from the ROUNDED point, as the implementation must do
    Q tp, delta;
    if (!r.locate(Q(pos[0]), Q(pos[1]), tp, delta) || tp <= 0)
    {
        cx.rep.inconclusive("untestable: involute normal at the cusp (t = 0)");
        return;
    }
    Q rr = r.rb * sqrtq(1 + tp * tp);
    // angle = sqrt(|xy|^2/rb^2 - 1) + a : error eps(1+t^2)/t from the square root, plus the
    // rounding of the point itself (eps(|o|+r)) mapped to t by r/(rb^2 t)
    Q onorm = sqrtq(r.ox * r.ox + r.oy * r.oy);
    Q tol = 16 * Q(EPS) * ((1 + tp * tp) / tp + (onorm + rr) * rr / (r.rb * r.rb * tp)) + 16 * Q(EPS) * (1 + tp + qabs(r.a))
            + 8 * Q(EPS);
    if (tol > Q(1e-6))
    {
        cx.rep.inconclusive("untestable: involute normal ill-conditioned (near the cusp or huge offset)");
        return;
    }
    r.normal(tp, nx, ny);
    Real3 n = s.calc_normal(pos);
    double err = std::max({qd(qabs(Q(n[0]) - nx)), qd(qabs(Q(n[1]) - ny)), std::fabs(n[2])});
    cx.rep.observe_max("inv_normal_err_over_tol_max", err / qd(tol));
    if (!(err <= qd(tol)))
    {
        report_violation(cx, "C12/normal/inv",
                         "Involute::calc_normal is not the outward unit normal of the parametric curve",
                         json{{"seed", cx.args.seed},
                              {"index", idx},
                              {"surface", jinv(s)},
                              {"pos", jvec(pos)},
                              {"t", jq(tp)},
                              {"normal", jvec(n)},
                              {"ref", {jq(nx), jq(ny)}},
                              {"tol", jq(tol)}});
        return;
    }
    cx.rep.held(std::string("normal/inv/") + (s.sign() == Chirality::left ? "left" : "right")
                + (tp < 0.1 ? "/small-t" : tp > 6 ? "/large-t" : "/mid-t"));
}

std::string classify_miss(Involute const& s, RefInvolute const& r, Q px, Q py, Q du, Q dv, Q t_missed);

//---------------------------------------------------------------------------//
void ray_case(Ctx& cx, verif::Rng& g, std::uint64_t idx)
{
    InvGen p = gen_involute(g);
    Involute s = make_inv(p);
    RefInvolute r = make_ref(s);
    double const rmax = p.rb * std::sqrt(1 + p.tmax * p.tmax);

    // --- position
    Real3 pos;
    SurfaceState st = SurfaceState::off;
    std::string posclass;
    int pc = static_cast<int>(g.integer(0, 9));
    Q tcurve = Q(g.uniform(p.tmin, p.tmax));
    Q cxq, cyq, nxq, nyq;
    r.point(tcurve, cxq, cyq);
    r.normal(tcurve, nxq, nyq);
    if (pc <= 3)
    {
        double rr = rmax * g.uniform(0, 2), ph = g.uniform(0, 6.283185307179586);
        pos = Real3{qd(r.ox) + rr * std::cos(ph), qd(r.oy) + rr * std::sin(ph), g.uniform(-1, 1) * p.rb};
        posclass = "around";
    }
    else if (pc <= 6)
    {
        pos = Real3{qd(cxq), qd(cyq), g.uniform(-1, 1) * p.rb};
        posclass = "on";
        st = g.coin(0.7) ? SurfaceState::on : SurfaceState::off;
    }
    else if (pc <= 8)
    {
        double dl = sgn_rand(g) * p.rb * g.loguniform(1e-9, 0.3);
        pos = Real3{qd(cxq + dl * nxq), qd(cyq + dl * nyq), g.uniform(-1, 1) * p.rb};
        posclass = "nearcurve";
    }
    else
    {
        double rr = rmax * g.loguniform(2, 1e3), ph = g.uniform(0, 6.283185307179586);
        pos = Real3{qd(r.ox) + rr * std::cos(ph), qd(r.oy) + rr * std::sin(ph), 0};
        posclass = "far";
    }
    // --- direction
    Real3 dir;
    std::string dirclass;
    int dc = static_cast<int>(g.integer(0, 9));
    if (dc <= 2)
    {
        dir = rand_unit(g);
        dirclass = "iso";
    }
    else if (dc <= 4)
    {
        double ph = g.uniform(0, 6.283185307179586);
        dir = make_unit_vector(Real3{std::cos(ph), std::sin(ph), 0});
        dirclass = "in-plane";
    }
    else if (dc == 5)
    {
        dir = Real3{0, 0, sgn_rand(g)};
        dirclass = "z-axis";
    }
    else if (dc == 6)
    {
        double ph = g.uniform(0, 6.283185307179586), sm = g.loguniform(1e-9, 1e-2);
        dir = make_unit_vector(Real3{sm * std::cos(ph), sm * std::sin(ph), sgn_rand(g)});
        dirclass = "near-z";
    }
    else if (dc <= 8)
    {
        // aimed at another point of the curve
        Q t2 = Q(g.uniform(p.tmin, p.tmax)), x2, y2;
        r.point(t2, x2, y2);
        Real3 d{qd(x2) - pos[0], qd(y2) - pos[1], g.coin() ? 0.0 : g.uniform(-1, 1) * p.rb};
        if (!(norm(d) > 0))
            d = Real3{1, 0, 0};
        dir = make_unit_vector(d);
        dirclass = "aimed";
    }
    else
    {
        // along the curve tangent (cos p, sin p) at the chosen curve point, slightly tilted
        Q ph = r.a + r.s * tcurve;
        double tilt = g.coin(0.3) ? 0.0 : sgn_rand(g) * g.loguniform(1e-9, 1e-1);
        Real3 d{qd(cosq(ph)) + tilt * qd(nxq), qd(sinq(ph)) + tilt * qd(nyq), 0};
        if (g.coin())
            d = Real3{-d[0], -d[1], 0};
        dir = make_unit_vector(d);
        dirclass = "tangent";
    }

    json base{{"seed", cx.args.seed},
              {"index", idx},
              {"surface", jinv(s)},
              {"pos", jvec(pos)},
              {"dir", jvec(dir)},
              {"state", st == SurfaceState::on ? "on" : "off"},
              {"posclass", posclass},
              {"dirclass", dirclass}};
    CaseLog log(cx, base);

    Q px = pos[0], py = pos[1], du = dir[0], dv = dir[1];
    Q d2 = sqrtq(du * du + dv * dv);
    std::vector<RefInvolute::Root> roots;
    Q grazing = Q(1e300);
    Q const M = Q(1e-4) * (1 + r.tmax);
    Q const p2 = sqrtq((px - r.ox) * (px - r.ox) + (py - r.oy) * (py - r.oy));
    // perpendicular tolerance of a located curve point: solver convergence (x8) + rounding
    // of the point/curve evaluation
    Q const e_perp = 8 * Q(INV_TOL) * r.rb + 64 * Q(EPS) * (p2 + r.rb * (1 + r.tmax) + sqrtq(r.ox * r.ox + r.oy * r.oy));
    if (d2 > 0)
        roots = r.roots(px, py, du, dv, r.tmin - M, r.tmax + M, grazing);

    // classify roots
    struct RR
    {
        Q s, tol, t, sin_alpha;
        int cls;  // 2 required, 1 optional
        bool zero;
        bool matched = false;
    };
    std::vector<RR> rr;
    int nreq = 0;
    bool tangentish = false;
    if (d2 > 0 && grazing <= 4 * e_perp * d2)
        tangentish = true;
    // the line passes an END of the arc within the solver tolerance: whether a crossing
    // exists is decided inside the tolerance
    bool end_grazing = false;
    if (d2 > 0)
    {
        Q g0 = qabs(r.gfun(r.tmin, px, py, du, dv)), g1 = qabs(r.gfun(r.tmax, px, py, du, dv));
        if (g0 <= 4 * e_perp * d2 || g1 <= 4 * e_perp * d2)
            end_grazing = true;
    }
    for (auto const& ro : roots)
    {
        if (ro.sin_alpha < Q(1e-3))
        {
            tangentish = true;
            continue;
        }
        RR q;
        q.s = ro.sdist;
        q.t = ro.t;
        q.sin_alpha = ro.sin_alpha;
        q.tol = 2 * e_perp / (ro.sin_alpha * d2) + 8 * Q(EPS) * qabs(ro.sdist);
        Q tt = surfref::qmax(ro.t, Q(1e-300));
        Q e_t = e_perp / (r.rb * tt * ro.sin_alpha) + 16 * Q(EPS) * (1 + tt);
        bool inside = (e_t <= M) && ro.t >= r.tmin + e_t && ro.t <= r.tmax - e_t;
        q.zero = qabs(q.s) <= 2 * q.tol;
        Q excl = 2 * q.tol;
        if (st == SurfaceState::on)
            excl = surfref::qmax(excl, 4 * Q(100 * INV_TOL) * r.rb / d2);  // documented tol_point = r_b*1e-6 (2-D)
        if (q.s < -2 * q.tol)
            continue;  // behind
        q.cls = (inside && q.s > excl) ? 2 : 1;
        if (q.cls == 2)
            ++nreq;
        rr.push_back(q);
    }
    if (nreq > 3)
    {
        cx.rep.observe("involute_more_than_3_required_crossings");
        cx.rep.inconclusive("untestable: more than 3 crossings exceed Involute::Intersections capacity");
        return;
    }

    auto isect = s.calc_intersections(pos, dir, st);
    std::vector<double> rep;
    for (auto v : isect)
    {
        if (v == no_intersection())
            continue;
        if (!(v > 0) || !std::isfinite(v))
        {
            log.viol("C12/positive-distance/inv",
                     "reported intersection is neither positive nor the no_intersection sentinel",
                     json{{"value", v}});
            continue;
        }
        rep.push_back(v);
    }
    if (log.violated)
        return;
    if (tangentish)
    {
        cx.rep.inconclusive("untestable: near-tangent involute crossing");
        return;
    }
    if (end_grazing)
    {
        cx.rep.inconclusive("untestable: line passes an end of the involute arc within the solver tolerance");
        return;
    }
    json jroots = json::array();
    for (auto const& q : rr)
        jroots.push_back(json{{"s", jq(q.s)}, {"tol", jq(q.tol)}, {"class", q.cls == 2 ? "required" : "optional"}});
    bool shallow_zero = false;
    for (double v : rep)
    {
        RR* hit = nullptr;
        for (auto& q : rr)
            if (!q.matched && qabs(Q(v) - q.s) <= q.tol)
            {
                hit = &q;
                break;
            }
        if (!hit)
        {
            log.viol("C12/on-surface/inv",
                     "the point at the reported distance is not a crossing of the bounded involute (within the "
                     "solver's documented tolerance)",
                     json{{"reported", v}, {"all_reported", rep}, {"exact_crossings", jroots}});
            continue;
        }
        hit->matched = true;
        cx.rep.observe_max("inv_dist_err_over_tol_max", qd(qabs(Q(v) - hit->s) / hit->tol));
        // The solver locates a root to r_b*tol perpendicular to the line, i.e. to
        // r_b*tol/sin(alpha) along it, and excludes distances <= 100 r_b*tol in state on:
        // for shallow crossings (sin(alpha) <= 0.04, x4 margin) the located zero root may
        // legitimately fall outside the exclusion radius.
        if (st == SurfaceState::on && hit->zero && hit->sin_alpha <= Q(0.04))
        {
            shallow_zero = true;
            continue;
        }
        if (st == SurfaceState::on && hit->zero)
            log.viol("C12/on-state-zero-root/inv",
                     "SurfaceState::on returned the crossing the track is on",
                     json{{"reported", v}, {"exact_crossings", jroots}});
    }
    for (auto const& q : rr)
        if (q.cls == 2 && !q.matched)
            log.viol(classify_miss(s, r, px, py, du, dv, q.t) == "even-bracket" ? "C12/missed-crossing/inv"
                                                                                 : "C12/missed-crossing/inv-other",
                     "an exact transversal crossing of the bounded involute at a positive distance was not reported",
                     json{{"missed", jq(q.s)}, {"tol", jq(q.tol)}, {"reported", rep}, {"exact_crossings", jroots}});
    if (log.violated)
        return;
    if (shallow_zero)
    {
        cx.rep.inconclusive("untestable: shallow on-surface involute crossing (root location uncertainty exceeds the "
                            "documented exclusion radius)");
        return;
    }
    cx.rep.held("ray/inv/" + std::to_string(nreq) + "-crossings/" + posclass + "/" + dirclass + "/"
                + (st == SurfaceState::on ? "on" : "off") + "/" + (s.sign() == Chirality::left ? "left" : "right"));
    if (cx.rep.want_sample(6) && nreq >= 2)
    {
        json smp = base;
        smp["reported"] = rep;
        smp["exact_crossings"] = jroots;
        cx.rep.sample(std::move(smp), 6);
    }
}

//---------------------------------------------------------------------------//
// Classification of a missed crossing (used for the violation KEY only, never for the
// verdict): replay the bracket walk documented in InvoluteSolver.hh ({0, beta - a, +pi,
// ...}, beta = arctan(-v/u), brackets without a sign change are skipped) on the exact
// roots of the line/curve function over t >= 0.  "even-bracket": the missed root sat in a
// bracket holding an even number of roots, so no sign change was seen.
std::string classify_miss(Involute const& s, RefInvolute const& r, Q px, Q py, Q du, Q dv, Q t_missed)
{
    Q gr;
    auto all = r.roots(px, py, du, dv, Q(0), r.tmax + Q(7), gr);  // brackets reach tmax + pi
    std::vector<double> ts;
    for (auto const& ro : all)
        ts.push_back(qd(ro.t));
    double const pi = constants::pi;
    double d2 = std::hypot(qd(du), qd(dv));
    double u = r.s * qd(du) / d2, v = qd(dv) / d2;
    double beta = (u != 0) ? std::atan(-v / u) : (-v < 0 ? -0.5 * pi : 0.5 * pi);
    double tl = 0, tu = beta - s.displacement_angle();
    tu += std::max(0.0, -std::floor(tu / pi)) * pi;
    int i = 1;
    double tm = qd(t_missed);
    for (int guard = 0; guard < 10000 && tl < s.tmax(); ++guard)
    {
        int cnt = 0;
        for (double t : ts)
            if (t > tl && t <= tu)
                ++cnt;
        if (tm > tl && tm <= tu)
            return (cnt % 2 == 0) ? "even-bracket" : "odd-bracket";
        tl = tu;
        if (cnt % 2 == 1)
            tu += pi;
        else
        {
            tu += pi / i;
            ++i;
        }
    }
    return "not-bracketed";
}

//---------------------------------------------------------------------------//
void translate_case(Ctx& cx, verif::Rng& g, std::uint64_t idx)
{
    InvGen p = gen_involute(g);
    Involute s = make_inv(p);
    RefInvolute r = make_ref(s);
    Real3 u = rand_unit(g);
    double m = p.rb * g.loguniform(1e-3, 1e3);
    Translation tr{Real3{m * u[0], m * u[1], m * u[2]}};
    Involute s2 = detail::SurfaceTranslator{tr}(s);
    // point near the curve (daughter frame)
    Q t = Q(g.uniform(p.tmin, p.tmax)), x, y, nx, ny;
    r.point(t, x, y);
    r.normal(t, nx, ny);
    double dl = sgn_rand(g) * p.rb * g.loguniform(1e-5, 0.2);
    Real3 xd{qd(x + dl * nx), qd(y + dl * ny), g.uniform(-1, 1) * p.rb};
    Real3 xp = tr.transform_up(xd);
    // exact daughter point of the (double) parent point
    Q xq = Q(xp[0]) - Q(tr.translation()[0]), yq = Q(xp[1]) - Q(tr.translation()[1]);
    // the translated origin fl(o + t) is off by eps(|o|+|t|): angle band += that / r_b
    Q extra = 16 * Q(EPS) * (sqrtq(r.ox * r.ox + r.oy * r.oy) + Q(m) + sqrtq(xq * xq + yq * yq)) / r.rb;
    std::string why;
    int want = ref_sense(r, xq, yq, extra, why);
    if (want == 0)
    {
        cx.rep.inconclusive(why);
        return;
    }
    SignedSense got = s2.calc_sense(xp);
    if (static_cast<int>(got) != want)
    {
        report_violation(cx, std::string("C12/transform-sense/translate/inv-") + (s.sign() == Chirality::left ? "left" : "right"),
                         "sense of the translated involute at the translated point differs from the original's "
                         "sense at the original point",
                         json{{"seed", cx.args.seed},
                              {"index", idx},
                              {"surface", jinv(s)},
                              {"translated", jinv(s2)},
                              {"translation", jvec(tr.translation())},
                              {"point_daughter", jvec(xd)},
                              {"point_parent", jvec(xp)},
                              {"expected", sense_name(want)},
                              {"original_calc_sense", to_cstring(s.calc_sense(xd))},
                              {"got", to_cstring(got)}});
        return;
    }
    cx.rep.held(std::string("xform/inv/translate/inv/") + (s.sign() == Chirality::left ? "left" : "right") + "/"
                + sense_name(want));
}

void transformer_case(Ctx& cx, verif::Rng& g)
{
    InvGen p = gen_involute(g);
    Involute s = make_inv(p);
    Transformation tf;
    Involute s2 = detail::SurfaceTransformer{tf}(s);  // throws "not implemented"
    (void)s2;
    cx.rep.observe("involute_transformer_returned");
    cx.rep.held_trivial();
}
}  // namespace

void inv_index(Ctx& cx, std::uint64_t idx)
{
    std::uint64_t i = idx & ((std::uint64_t(1) << 40) - 1);
    cx.case_index = idx;
    verif::Rng g(verif::mix_seed(cx.args.seed, idx));
    int kind = static_cast<int>(i % 10);
    guarded(cx, [&] {
        if (kind < 4)
            ray_case(cx, g, idx);
        else if (kind < 7)
            sense_case(cx, g, idx);
        else if (kind < 8)
            normal_case(cx, g, idx);
        else if (kind < 10 && !(i % 1000 == 9))
            translate_case(cx, g, idx);
        else
            transformer_case(cx, g);
    });
}

void run_involute(Ctx& cx, std::uint64_t n)
{
    for (std::uint64_t i = 0; i < n; ++i)
        inv_index(cx, (std::uint64_t(100) << 40) | i);
}

}  // namespace surf
