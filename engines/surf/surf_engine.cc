// Engine `surf` (property C12): surface primitives are self-consistent; transforms
// preserve their point sets.  See surf_ref.hh (reference models in __float128),
// surf_monitor.hh (ray/sense/normal monitor), surf_gen.hh (generators).
#include "surf_common.hh"

using namespace surf;

int main(int argc, char** argv)
{
    verif::Args args = verif::parse_args(argc, argv);
    if (args.property.empty())
        args.property = "C12";
    if (args.property != "C12")
    {
        std::cerr << "surf_engine serves C12 only\n";
        return 2;
    }
    verif::Report rep("C12", "surf", args);
    rep.set_rule(
        "Each case = one real evaluation judged online against a __float128 reference built from the "
        "surface's public parameters. ray cases: random surface of one of 18 types (scales log-uniform over "
        "12 decades, centres displaced by up to 1e6 radii), position class {near, far, on, nearsurf-in/out, "
        "centre, axis, lattice-on} x direction class {iso, axis, tangent, near-tangent, ruling, ruling-fuzz, "
        "ruling-tilted, normal, aimed, lattice} x SurfaceState {on, off}: calc_intersections is matched "
        "against the exact roots (reported distances positive, on the surface within a derived rounding "
        "tolerance, no missed transversal crossing, zero root excluded in state on), calc_sense against "
        "sign f at the start point and between crossings (must flip), calc_normal against the unit gradient "
        "at every crossing. xform cases: SurfaceTranslator / SurfaceTransformer (rotation, reflection, signed "
        "permutation, pure translation) / SurfaceSimplifier (chain, with returned sense flip) applied to a "
        "random surface; the real calc_sense of the result at transformed points must equal sign f_in, "
        "flipped as reported. tf cases: transform_up/down, rotate_up/down of Translation, Transformation, "
        "SignedPermutation (all 48 signed axis triples) against quad references and as round trips; "
        "make_rotation/orthonormalize orthonormality; TransformSimplifier displacement bound. A coverage cell "
        "is kind/surface-type/branch/position-class/direction-class/state (ray), kind/type/operation/result-type/"
        "position-class (xform), kind/operation/class (tf). Non-trivial = the reference could judge the case "
        "(outside every tolerance band); cases inside a band are counted inconclusive.");
    rep.assume("libquadmath __float128 arithmetic (113-bit) is exact enough that its own rounding (1e-34) is "
               "negligible against the double-precision bands (>= 1e-16)");
    rep.assume("the surface equations and sign conventions are those printed in the class doc comments of "
               "orange/surf/*.hh (f<0 inside, f>0 outside; outward normal = +grad f)");
    rep.assume("rounding model: a double evaluation of a polynomial has error <= 16 eps * (sum of |terms|)");

    if (!args.replay.empty())
    {
        // replay: re-run exactly the (seed, index) cases named in a witness file
        std::ifstream f(args.replay);
        json w;
        try
        {
            f >> w;
        }
        catch (std::exception const& e)
        {
            std::cerr << "cannot parse replay file: " << e.what() << "\n";
            return 2;
        }
        for (auto const& wi : w.value("witnesses", json::array()))
        {
            json const& c = wi.contains("case") ? wi["case"] : wi;
            verif::Args a2 = args;
            a2.seed = c.value("seed", args.seed);
            Ctx cx{rep, a2};
            if (!c.contains("index"))
            {
                run_point_transforms(cx, 0);  // permutation enumeration
                continue;
            }
            std::uint64_t idx = c["index"].get<std::uint64_t>();
            std::uint64_t cat = idx >> 40;
            std::cerr << "replaying seed=" << a2.seed << " index=" << idx << "\n";
            if (cat >= 1 && cat <= 17)
                ray_index(cx, idx);
            else if (cat == 100)
                inv_index(cx, idx);
            else if (cat == 200)
                run_lattice(cx);
            else if (cat >= 301 && cat <= 399)
                xform_index(cx, idx);
            else if (cat == 500)
                run_point_transforms(cx, 0);
            else if (cat == 600)
                tf_index(cx, idx);
        }
        return rep.finish();
    }

    Ctx cx{rep, args};
    std::string only = args.get("only", "");
    auto want = [&](char const* k) { return only.empty() || only == k; };

    if (want("ray"))
        run_quadric_rays(cx, args.budget(100000, 3000000));
    if (want("lattice"))
        run_lattice(cx);
    if (want("inv"))
        run_involute(cx, args.budget(150000, 4500000));
    if (want("xform"))
        run_surface_transforms(cx, args.budget(10000, 300000));
    if (want("tf"))
        run_point_transforms(cx, args.budget(100000, 3000000));
    return rep.finish();
}
