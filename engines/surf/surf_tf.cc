// Point-transform laws: Translation, Transformation, SignedPermutation (transform_up /
// transform_down / rotate_up / rotate_down), rotation-matrix builders, TransformSimplifier.
#include "surf_gen.hh"

namespace surf
{
namespace
{
using surfref::qabs;
using surfref::qd;

struct QM
{
    Q R[3][3];
    Q t[3];
};
QM qm(SquareMatrixReal3 const& R, Real3 const& t)
{
    QM m;
    for (int i = 0; i < 3; ++i)
    {
        m.t[i] = t[i];
        for (int k = 0; k < 3; ++k)
            m.R[i][k] = R[i][k];
    }
    return m;
}
json jmat(SquareMatrixReal3 const& R)
{
    json j = json::array();
    for (int i = 0; i < 3; ++i)
        j.push_back(jvec(R[i]));
    return j;
}
Real3 gen_point(verif::Rng& g)
{
    Real3 u = rand_unit(g);
    double m = g.coin(0.05) ? 0.0 : g.loguniform(1e-6, 1e6);
    Real3 x{m * u[0], m * u[1], m * u[2]};
    if (g.coin(0.2))
        x[g.integer(0, 2)] = 0;
    return x;
}
double maxabs_offdiag_RtR(SquareMatrixReal3 const& R)
{
    double w = 0;
    for (int i = 0; i < 3; ++i)
        for (int k = 0; k < 3; ++k)
        {
            Q s = 0;
            for (int l = 0; l < 3; ++l)
                s += Q(R[l][i]) * Q(R[l][k]);
            w = std::max(w, qd(qabs(s - (i == k ? 1 : 0))));
        }
    return w;
}

// |got - ref| <= tol componentwise, returns worst ratio
double cmp(Real3 const& got, Q const* ref, Q const* tol)
{
    double w = 0;
    for (int i = 0; i < 3; ++i)
        w = std::max(w, qd(qabs(Q(got[i]) - ref[i]) / tol[i]));
    return w;
}

//---------------------------------------------------------------------------//
void transformation_case(Ctx& cx, verif::Rng& g, std::uint64_t idx)
{
    int kind = static_cast<int>(g.integer(0, 3));
    SquareMatrixReal3 R;
    std::string kname;
    if (kind == 0)
    {
        R = harness_rotation(g);
        kname = "rotation";
    }
    else if (kind == 1)
    {
        R = harness_rotation(g);
        int ax = int(g.integer(0, 2));
        for (int j = 0; j < 3; ++j)
            R[ax][j] = -R[ax][j];
        kname = "reflection";
    }
    else if (kind == 2)
    {
        R = make_rotation(rand_unit(g), Turn{g.uniform(0, 0.5)});
        kname = "make_rotation-axis";
    }
    else
    {
        R = make_rotation(to_axis(int(g.integer(0, 2))), Turn{g.uniform(-1, 1)},
                          make_rotation(to_axis(int(g.integer(0, 2))), Turn{g.uniform(-1, 1)},
                                        make_rotation(to_axis(int(g.integer(0, 2))), Turn{g.uniform(-1, 1)})));
        kname = "make_rotation-composed";
    }
    Real3 t = gen_point(g);
    Real3 x = gen_point(g);
    Transformation tf{R, t};
    json base{{"seed", cx.args.seed}, {"index", idx}, {"kind", kname}, {"rotation_rows", jmat(R)}, {"translation", jvec(t)}, {"x", jvec(x)}};
    CaseLog log(cx, base);
    // rotation matrices stay orthonormal: library builders are a handful of products of
    // sines/cosines: |R^T R - I| <= 32 eps
    double orth = maxabs_offdiag_RtR(R);
    cx.rep.observe_max("orthonormality_defect_over_eps", orth / EPS);
    if (kind >= 2 && !(orth <= 32 * EPS))
        log.viol("C12/orthonormal/" + kname, "rotation matrix built by the library is not orthonormal", json{{"defect", orth}});

    QM m = qm(R, t);
    Q up[3], tol_up[3], rup[3], tol_r[3], dn[3], tol_dn[3], rdn[3];
    for (int i = 0; i < 3; ++i)
    {
        up[i] = m.t[i];
        rup[i] = 0;
        Q ab = qabs(m.t[i]);
        for (int k = 0; k < 3; ++k)
        {
            up[i] += m.R[i][k] * Q(x[k]);
            rup[i] += m.R[i][k] * Q(x[k]);
            ab += qabs(m.R[i][k] * Q(x[k]));
        }
        // 3 fma + products: <= 8 roundings of the abs-sum
        tol_up[i] = 8 * Q(EPS) * ab + Q(1e-300);
        tol_r[i] = 8 * Q(EPS) * (ab - qabs(m.t[i])) + Q(1e-300);
    }
    for (int i = 0; i < 3; ++i)
    {
        dn[i] = 0;
        rdn[i] = 0;
        Q ab = 0, abr = 0;
        for (int k = 0; k < 3; ++k)
        {
            dn[i] += m.R[k][i] * (Q(x[k]) - m.t[k]);
            rdn[i] += m.R[k][i] * Q(x[k]);
            ab += qabs(m.R[k][i]) * (qabs(Q(x[k])) + qabs(m.t[k]));
            abr += qabs(m.R[k][i] * Q(x[k]));
        }
        tol_dn[i] = 8 * Q(EPS) * ab + Q(1e-300);
        (void)abr;
    }
    Real3 gup = tf.transform_up(x), gdn = tf.transform_down(x), grup = tf.rotate_up(x), grdn = tf.rotate_down(x);
    double w1 = cmp(gup, up, tol_up), w2 = cmp(gdn, dn, tol_dn), w3 = cmp(grup, rup, tol_r);
    Q tol_rd[3];
    for (int i = 0; i < 3; ++i)
    {
        Q abr = 0;
        for (int k = 0; k < 3; ++k)
            abr += qabs(m.R[k][i] * Q(x[k]));
        tol_rd[i] = 8 * Q(EPS) * abr + Q(1e-300);
    }
    double w4 = cmp(grdn, rdn, tol_rd);
    cx.rep.observe_max("transform_err_over_tol_max", std::max({w1, w2, w3, w4}));
    if (!(w1 <= 1))
        log.viol("C12/transform-up/Transformation", "transform_up != R x + t", json{{"got", jvec(gup)}});
    if (!(w2 <= 1))
        log.viol("C12/transform-down/Transformation", "transform_down != R^T (x - t)", json{{"got", jvec(gdn)}});
    if (!(w3 <= 1))
        log.viol("C12/rotate-up/Transformation", "rotate_up != R d", json{{"got", jvec(grup)}});
    if (!(w4 <= 1))
        log.viol("C12/rotate-down/Transformation", "rotate_down != R^T d", json{{"got", jvec(grdn)}});
    // round trips: down(up(x)) == x.  Each leg errs by 8 eps (|x| + |t|) (norm-wise), and
    // R^T R differs from I by `orth`
    double scale = norm(x) + norm(t);
    double rt_tol = (32 * EPS + 2 * orth) * scale + 1e-300;
    Real3 rt = tf.transform_down(gup), rt2 = tf.transform_up(gdn);
    double e1 = 0, e2 = 0, e3 = 0;
    Real3 rr = tf.rotate_down(grup);
    for (int i = 0; i < 3; ++i)
    {
        e1 = std::max(e1, std::fabs(rt[i] - x[i]));
        e2 = std::max(e2, std::fabs(rt2[i] - x[i]));
        e3 = std::max(e3, std::fabs(rr[i] - x[i]));
    }
    cx.rep.observe_max("roundtrip_err_over_tol_max", std::max(e1, e2) / rt_tol);
    if (!(e1 <= rt_tol) || !(e2 <= rt_tol))
        log.viol("C12/round-trip/Transformation", "transform_down(transform_up(x)) != x",
                 json{{"down_up", jvec(rt)}, {"up_down", jvec(rt2)}, {"tol", rt_tol}});
    if (!(e3 <= (32 * EPS + 2 * orth) * norm(x) + 1e-300))
        log.viol("C12/round-trip/Transformation-rotate", "rotate_down(rotate_up(d)) != d", json{{"got", jvec(rr)}});
    // inverse transformation
    Transformation inv = tf.calc_inverse();
    Real3 iv = inv.transform_up(gup);
    double e4 = 0;
    for (int i = 0; i < 3; ++i)
        e4 = std::max(e4, std::fabs(iv[i] - x[i]));
    if (!(e4 <= 2 * rt_tol))
        log.viol("C12/round-trip/Transformation-calc_inverse", "calc_inverse().transform_up(transform_up(x)) != x",
                 json{{"got", jvec(iv)}, {"tol", 2 * rt_tol}});
    if (!log.violated)
        cx.rep.held("tf/transformation/" + kname + "/" + (norm(t) > 1e3 * norm(x) ? "t>>x" : norm(x) > 1e3 * norm(t) ? "x>>t" : "x~t"));
}

void translation_case(Ctx& cx, verif::Rng& g, std::uint64_t idx)
{
    Real3 t = gen_point(g), x = gen_point(g);
    Translation tr{t};
    json base{{"seed", cx.args.seed}, {"index", idx}, {"translation", jvec(t)}, {"x", jvec(x)}};
    CaseLog log(cx, base);
    Real3 up = tr.transform_up(x), dn = tr.transform_down(x);
    for (int i = 0; i < 3; ++i)
    {
        // one rounding each
        if (!(qabs(Q(up[i]) - (Q(x[i]) + Q(t[i]))) <= Q(EPS) * qabs(Q(x[i]) + Q(t[i]))))
            log.viol("C12/transform-up/Translation", "transform_up != x + t", json{{"got", jvec(up)}});
        if (!(qabs(Q(dn[i]) - (Q(x[i]) - Q(t[i]))) <= Q(EPS) * qabs(Q(x[i]) - Q(t[i]))))
            log.viol("C12/transform-down/Translation", "transform_down != x - t", json{{"got", jvec(dn)}});
    }
    Real3 rt = tr.transform_down(up);
    for (int i = 0; i < 3; ++i)
        if (!(std::fabs(rt[i] - x[i]) <= 2 * EPS * (std::fabs(x[i]) + std::fabs(t[i]))))
            log.viol("C12/round-trip/Translation", "transform_down(transform_up(x)) != x", json{{"got", jvec(rt)}});
    Real3 const& ru = tr.rotate_up(x);
    Real3 const& rd = tr.rotate_down(x);
    if (ru != x || rd != x)
        log.viol("C12/rotate/Translation", "rotate_up/down of a translation is not the identity");
    Translation inv = tr.calc_inverse();
    Real3 iv = inv.transform_up(up);
    for (int i = 0; i < 3; ++i)
        if (!(std::fabs(iv[i] - x[i]) <= 2 * EPS * (std::fabs(x[i]) + std::fabs(t[i]))))
            log.viol("C12/round-trip/Translation-calc_inverse", "calc_inverse round trip", json{{"got", jvec(iv)}});
    if (!log.violated)
        cx.rep.held(std::string("tf/translation/") + (norm(t) > 1e3 * norm(x) ? "t>>x" : norm(x) > 1e3 * norm(t) ? "x>>t" : "x~t"));
}

//---------------------------------------------------------------------------//
// All 48 signed axis triples: 24 proper ones must round-trip exactly, 24 improper ones are
// rejected by the constructor (documented CELER_VALIDATE).
void permutation_enumeration(Ctx& cx)
{
    verif::Rng g(verif::mix_seed(cx.args.seed, 0x5e12));
    int perms[6][3] = {{0, 1, 2}, {0, 2, 1}, {1, 0, 2}, {1, 2, 0}, {2, 0, 1}, {2, 1, 0}};
    for (int p = 0; p < 6; ++p)
        for (int sbits = 0; sbits < 8; ++sbits)
        {
            SignedPermutation::SignedAxes ax;
            int M[3][3] = {{0, 0, 0}, {0, 0, 0}, {0, 0, 0}};
            for (int i = 0; i < 3; ++i)
            {
                bool neg = (sbits >> i) & 1;
                ax[to_axis(i)] = {neg ? '-' : '+', to_axis(perms[p][i])};
                // documented: row i of the daughter-to-parent matrix has +-1 at the given axis
                M[i][perms[p][i]] = neg ? -1 : 1;
            }
            int det = M[0][0] * (M[1][1] * M[2][2] - M[1][2] * M[2][1]) - M[0][1] * (M[1][0] * M[2][2] - M[1][2] * M[2][0])
                      + M[0][2] * (M[1][0] * M[2][1] - M[1][1] * M[2][0]);
            json base{{"seed", cx.args.seed}, {"perm", {perms[p][0], perms[p][1], perms[p][2]}}, {"signbits", sbits}};
            cx.case_index = (std::uint64_t(500) << 40) | std::uint64_t(p * 8 + sbits);
            try
            {
                SignedPermutation sp{ax};
                if (det != 1)
                {
                    report_violation(cx, "C12/permutation-accepts-improper", "SignedPermutation accepted a matrix with determinant -1", base);
                    continue;
                }
                CaseLog log(cx, base);
                for (int rep = 0; rep < 8; ++rep)
                {
                    Real3 x = rep == 0 ? Real3{0, 0, 0} : gen_point(g);
                    Real3 up = sp.rotate_up(x), dn = sp.rotate_down(x);
                    for (int i = 0; i < 3; ++i)
                    {
                        double eu = 0, ed = 0;
                        for (int k = 0; k < 3; ++k)
                        {
                            eu += M[i][k] * x[k];
                            ed += M[k][i] * x[k];
                        }
                        if (up[i] != eu)
                            log.viol("C12/rotate-up/SignedPermutation", "rotate_up != R d (exactly)", json{{"x", jvec(x)}, {"got", jvec(up)}});
                        if (dn[i] != ed)
                            log.viol("C12/rotate-down/SignedPermutation", "rotate_down != R^T d (exactly)", json{{"x", jvec(x)}, {"got", jvec(dn)}});
                    }
                    Real3 rt = sp.transform_down(sp.transform_up(x)), rt2 = sp.rotate_up(sp.rotate_down(x));
                    if (rt != x || rt2 != x)
                        log.viol("C12/round-trip/SignedPermutation", "signed permutation does not round-trip exactly",
                                 json{{"x", jvec(x)}, {"down_up", jvec(rt)}, {"up_down", jvec(rt2)}});
                }
                // storage and permutation() round trips
                auto data = sp.data();
                SignedPermutation sp2{SignedPermutation::StorageSpan{data.data(), 1}};
                if (sp2 != sp || SignedPermutation{sp.permutation()} != sp)
                    log.viol("C12/round-trip/SignedPermutation-storage", "data()/permutation() do not reconstruct the permutation");
                if (!log.violated)
                    cx.rep.held("tf/permutation/proper/p" + std::to_string(p) + "s" + std::to_string(sbits));
            }
            catch (RuntimeError const&)
            {
                if (det == 1)
                    report_violation(cx, "C12/permutation-rejects-proper", "SignedPermutation rejected a proper signed permutation", base);
                else
                    cx.rep.held("tf/permutation/improper-rejected");
            }
        }
    // quarter-turn permutations agree with make_rotation of the same angle
    for (int a = 0; a < 3; ++a)
        for (int q = 0; q < 4; ++q)
        {
            SignedPermutation sp = make_permutation(to_axis(a), QuarterTurn{q});
            SquareMatrixReal3 R = make_rotation(to_axis(a), Turn{0.25 * q});
            bool ok = true;
            for (int j = 0; j < 3; ++j)
            {
                Real3 e{0, 0, 0};
                e[j] = 1;
                Real3 c = sp.rotate_up(e);
                for (int i = 0; i < 3; ++i)
                    if (std::fabs(c[i] - R[i][j]) > 4 * EPS)
                        ok = false;
            }
            json base{{"axis", a}, {"quarter_turns", q}};
            if (!ok)
                report_violation(cx, "C12/make_permutation", "make_permutation differs from make_rotation by the same angle", base);
            else
                cx.rep.held("tf/make_permutation/a" + std::to_string(a) + "q" + std::to_string(q));
        }
}

//---------------------------------------------------------------------------//
void orthonormalize_case(Ctx& cx, verif::Rng& g, std::uint64_t idx)
{
    SquareMatrixReal3 R = harness_rotation(g);
    double p = g.loguniform(1e-12, 1e-2);
    for (int i = 0; i < 3; ++i)
        for (int k = 0; k < 3; ++k)
            R[i][k] += p * g.uniform(-1, 1);
    SquareMatrixReal3 in = R;
    orthonormalize(&R);
    double orth = maxabs_offdiag_RtR(R);
    // modified Gram-Schmidt on a matrix with condition number ~1: defect a few eps
    if (!(orth <= 64 * EPS))
    {
        report_violation(cx, "C12/orthonormal/orthonormalize", "orthonormalize result is not orthonormal",
                         json{{"seed", cx.args.seed}, {"index", idx}, {"input_rows", jmat(in)}, {"output_rows", jmat(R)}, {"defect", orth}});
        return;
    }
    double d = 0;
    for (int i = 0; i < 3; ++i)
        for (int k = 0; k < 3; ++k)
            d = std::max(d, std::fabs(R[i][k] - in[i][k]));
    if (!(d <= 8 * p + 64 * EPS))
    {
        report_violation(cx, "C12/orthonormal/orthonormalize-moved", "orthonormalize moved the matrix by more than its non-orthonormality",
                         json{{"seed", cx.args.seed}, {"index", idx}, {"input_rows", jmat(in)}, {"output_rows", jmat(R)}, {"moved", d}, {"perturbation", p}});
        return;
    }
    cx.rep.held(std::string("tf/orthonormalize/") + (p < 1e-9 ? "tiny" : p < 1e-5 ? "small" : "visible"));
}

// make_rotation(axis, turn) against Rodrigues' formula in quad
void make_rotation_case(Ctx& cx, verif::Rng& g, std::uint64_t idx)
{
    Real3 ax = rand_unit(g);
    int k = int(g.integer(0, 5));
    double turn = k == 0 ? 0.0 : k == 1 ? 0.5 : k == 2 ? 0.25 : k == 3 ? g.loguniform(1e-12, 1e-3) : g.uniform(0, 0.5);
    SquareMatrixReal3 R = make_rotation(ax, Turn{turn});
    Q th = 2 * surfref::Q_PI * Q(turn);
    Q c = cosq(th), s = sinq(th);
    Q n[3] = {ax[0], ax[1], ax[2]};
    Q K[3][3] = {{0, -n[2], n[1]}, {n[2], 0, -n[0]}, {-n[1], n[0], 0}};
    double w = 0;
    for (int i = 0; i < 3; ++i)
        for (int j = 0; j < 3; ++j)
        {
            Q ref = (i == j ? c : Q(0)) + (1 - c) * n[i] * n[j] + s * K[i][j];
            w = std::max(w, qd(qabs(Q(R[i][j]) - ref)));
        }
    cx.rep.observe_max("make_rotation_err_over_eps", w / EPS);
    // each entry is a sum of two products of correctly rounded sin/cos: <= 8 eps
    if (!(w <= 8 * EPS))
    {
        report_violation(cx, "C12/make_rotation", "make_rotation(axis, turn) differs from Rodrigues' rotation formula",
                         json{{"seed", cx.args.seed}, {"index", idx}, {"axis", jvec(ax)}, {"turn", turn}, {"rows", jmat(R)}, {"err", w}});
        return;
    }
    cx.rep.held(std::string("tf/make_rotation/") + (k <= 2 ? "special-angle" : k == 3 ? "tiny-angle" : "generic"));
}

// TransformSimplifier: the simplified transform moves no point within the unit length
// scale by more than eps (documented derivation in TransformSimplifier.hh): translation
// dropped iff |t| <= eps, rotation dropped iff it displaces unit-distance points by <= eps.
void transform_simplifier_case(Ctx& cx, verif::Rng& g, std::uint64_t idx)
{
    double eps = g.coin() ? 1e-8 : g.loguniform(1e-10, 1e-3);
    Tolerance<> tol = Tolerance<>::from_relative(eps, 1.0);
    TransformSimplifier simp{tol};
    int k = int(g.integer(0, 3));
    Real3 u = rand_unit(g);
    double tm = g.coin() ? eps * g.loguniform(1e-3, 1e3) : g.loguniform(1e-6, 1e3);
    Real3 t{tm * u[0], tm * u[1], tm * u[2]};
    VariantTransform vin, vout;
    SquareMatrixReal3 R{Real3{1, 0, 0}, Real3{0, 1, 0}, Real3{0, 0, 1}};
    std::string kname;
    if (k == 0)
    {
        Translation tr{t};
        vout = simp(tr);
        kname = "translation";
    }
    else
    {
        double ang = g.coin() ? eps * g.loguniform(1e-3, 1e3) : g.uniform(0, 3.1);
        R = make_rotation(rand_unit(g), Turn{std::min(0.5, ang / (2 * constants::pi))});
        if (k == 3)
        {
            int ax = int(g.integer(0, 2));
            for (int j = 0; j < 3; ++j)
                R[ax][j] = -R[ax][j];
        }
        Transformation tf{R, t};
        vout = simp(tf);
        kname = k == 3 ? "reflection" : "rotation";
    }
    json base{{"seed", cx.args.seed}, {"index", idx}, {"kind", kname}, {"eps", eps}, {"rotation_rows", jmat(R)}, {"translation", jvec(t)}};
    // apply both to points with |x| <= 1
    double worst = 0;
    std::string outkind;
    for (int rep = 0; rep < 6; ++rep)
    {
        Real3 x = rand_unit(g);
        double m = rep == 0 ? 1.0 : g.uniform(0, 1);
        x = Real3{m * x[0], m * x[1], m * x[2]};
        Real3 y0;
        for (int i = 0; i < 3; ++i)
            y0[i] = R[i][0] * x[0] + R[i][1] * x[1] + R[i][2] * x[2] + t[i];
        Real3 y1 = std::visit(
            [&](auto const& tr) -> Real3 {
                using T = std::decay_t<decltype(tr)>;
                if constexpr (std::is_same_v<T, NoTransformation>)
                {
                    outkind = "none";
                    return x;
                }
                else if constexpr (std::is_same_v<T, Translation>)
                {
                    outkind = "translation";
                    return tr.transform_up(x);
                }
                else if constexpr (std::is_same_v<T, Transformation>)
                {
                    outkind = "transformation";
                    return tr.transform_up(x);
                }
                else
                {
                    outkind = "other";
                    return tr.transform_up(x);
                }
            },
            vout);
        double d = 0;
        for (int i = 0; i < 3; ++i)
            d += (y1[i] - y0[i]) * (y1[i] - y0[i]);
        worst = std::max(worst, std::sqrt(d));
    }
    // dropped translation <= eps and dropped rotation <= eps at unit distance, plus rounding
    // The rotation test compares trace(R) (rounding error <= 12 EPS) with 3 - eps^2: angles
    // below sqrt(12 EPS) = 5e-8 cannot be told from zero ("no rotational simplifications may
    // be performed when the geometry tolerance is less than the square root of machine
    // precision", TransformSimplifier.hh), so the rotational allowance is max(eps, 5.2e-8).
    double allow = (eps + std::max(eps, std::sqrt(12 * EPS))) * (1 + 1e-6) + 64 * EPS * (1 + tm);
    cx.rep.observe_max("transform_simplifier_displacement_over_allow", worst / allow);
    if (!(worst <= allow))
    {
        base["displacement"] = worst;
        base["result_kind"] = outkind;
        report_violation(cx, "C12/transform-simplifier/" + kname, "simplified transform moves a point inside the unit length scale by more than the tolerance", base);
        return;
    }
    cx.rep.held("tf/transform-simplifier/" + kname + "->" + outkind);
}
}  // namespace

void tf_index(Ctx& cx, std::uint64_t idx)
{
    std::uint64_t i = idx & ((std::uint64_t(1) << 40) - 1);
    cx.case_index = idx;
    verif::Rng g(verif::mix_seed(cx.args.seed, idx));
    int k = int(i % 10);
    guarded(cx, [&] {
        if (k < 4)
            transformation_case(cx, g, idx);
        else if (k < 6)
            translation_case(cx, g, idx);
        else if (k < 7)
            orthonormalize_case(cx, g, idx);
        else if (k < 8)
            make_rotation_case(cx, g, idx);
        else
            transform_simplifier_case(cx, g, idx);
    });
}

void run_point_transforms(Ctx& cx, std::uint64_t n)
{
    guarded(cx, [&] { permutation_enumeration(cx); });
    for (std::uint64_t i = 0; i < n; ++i)
        tf_index(cx, (std::uint64_t(600) << 40) | i);
}

}  // namespace surf
