// Generators of real surface objects (inputs satisfy every CELER_EXPECT of the
// constructors they feed) and of positions/directions relative to them.
#pragma once

#include "surf_common.hh"

namespace surf
{
//---------------------------------------------------------------------------//
// Frame of a generated surface: characteristic length and a reference point around which
// positions are scattered.
struct Frame
{
    double L = 1;  // characteristic length (radius, semi-axis, ...)
    Real3 c{0, 0, 0};  // centre of interest
    int axis = -1;  // symmetry axis (cylinders, cones), -1 if none
    double tangent = 0;  // cone tangent
    std::string family;  // generator sub-family (part of the witness)
};

inline double gen_scale(verif::Rng& g)
{
    // 12 decades, log-uniform
    return g.loguniform(1e-6, 1e6);
}
// centre: half of the time within a few L of the global origin, otherwise displaced by up
// to 1e6 L (cancellation between |pos|, |origin| and the radius)
inline Real3 gen_center(verif::Rng& g, double L)
{
    Real3 u = rand_unit(g);
    double m = g.coin() ? L * g.uniform(0, 2) : L * g.loguniform(1, 1e6);
    return Real3{m * u[0], m * u[1], m * u[2]};
}

template<class S>
struct Gen;

template<Axis T>
struct Gen<PlaneAligned<T>>
{
    static PlaneAligned<T> make(verif::Rng& g, Frame& f)
    {
        f.L = gen_scale(g);
        double p = g.coin(0.1) ? 0.0 : sgn_rand(g) * gen_scale(g);
        f.c = Real3{0, 0, 0};
        f.c[to_int(T)] = p;
        f.axis = to_int(T);
        f.family = "plane-aligned";
        return PlaneAligned<T>{p};
    }
};
template<>
struct Gen<Plane>
{
    static Plane make(verif::Rng& g, Frame& f)
    {
        f.L = gen_scale(g);
        Real3 n = rand_unit(g);
        int k = static_cast<int>(g.integer(0, 3));
        if (k == 1)
        {
            // nearly axis-aligned: tiny off-axis components
            int ax = static_cast<int>(g.integer(0, 2));
            for (int i = 0; i < 3; ++i)
                n[i] = (i == ax) ? sgn_rand(g) : sgn_rand(g) * g.loguniform(1e-14, 1e-3);
            f.family = "plane-near-axis";
        }
        else if (k == 2)
        {
            int ax = static_cast<int>(g.integer(0, 2));
            n = Real3{0, 0, 0};
            n[ax] = sgn_rand(g);
            f.family = "plane-on-axis";
        }
        else
            f.family = "plane-general";
        n = make_unit_vector(n);
        double d = g.coin(0.1) ? 0.0 : sgn_rand(g) * gen_scale(g);
        f.c = Real3{d * n[0], d * n[1], d * n[2]};
        return Plane{n, d};
    }
};
template<Axis T>
struct Gen<CylCentered<T>>
{
    static CylCentered<T> make(verif::Rng& g, Frame& f)
    {
        f.L = gen_scale(g);
        f.c = Real3{0, 0, 0};
        f.axis = to_int(T);
        f.family = "cyl-centered";
        return CylCentered<T>{f.L};
    }
};
template<Axis T>
struct Gen<CylAligned<T>>
{
    static CylAligned<T> make(verif::Rng& g, Frame& f)
    {
        f.L = gen_scale(g);
        f.c = gen_center(g, f.L);
        f.axis = to_int(T);
        f.family = "cyl-aligned";
        CylAligned<T> s{f.c, f.L};
        f.c[to_int(T)] = 0;
        return s;
    }
};
template<>
struct Gen<SphereCentered>
{
    static SphereCentered make(verif::Rng& g, Frame& f)
    {
        f.L = gen_scale(g);
        f.c = Real3{0, 0, 0};
        f.family = "sphere-centered";
        return SphereCentered{f.L};
    }
};
template<>
struct Gen<Sphere>
{
    static Sphere make(verif::Rng& g, Frame& f)
    {
        f.L = gen_scale(g);
        f.c = gen_center(g, f.L);
        f.family = "sphere";
        return Sphere{f.c, f.L};
    }
};
template<Axis T>
struct Gen<ConeAligned<T>>
{
    static ConeAligned<T> make(verif::Rng& g, Frame& f)
    {
        f.L = gen_scale(g);
        f.c = gen_center(g, f.L);
        f.axis = to_int(T);
        f.tangent = g.loguniform(1e-3, 1e3);
        f.family = "cone";
        return ConeAligned<T>{f.c, f.tangent};
    }
};

// Simple quadric about a centre c:  s * sum_i sg_i w_i (x_i - c_i)^2 + sum_i e_i (x_i -
// c_i) + k, expanded in double (the stored coefficients DEFINE the surface; the reference
// is built from them).  The overall scale s is O(1) in 80% of the cases: the quadratic
// solver's a~0 fuzz is absolute, i.e. the classes assume leading coefficients of order
// one (cf. the TODO "normalize so that largest eigenvalue is unity" in SimpleQuadric.cc).
struct SqParts
{
    Real3 second, first;
    double zeroth;
};
inline SqParts gen_sq_parts(verif::Rng& g, Frame& f)
{
    f.L = g.loguniform(1e-4, 1e4);
    f.c = gen_center(g, f.L);
    double s = g.coin(0.8) ? g.loguniform(0.1, 10) : g.loguniform(1e-9, 1e6);
    int fam = static_cast<int>(g.integer(0, 5));
    Real3 w;
    for (int i = 0; i < 3; ++i)
        w[i] = g.uniform(0.1, 1.0);
    w[g.integer(0, 2)] = 1.0;
    Real3 sg{1, 1, 1};
    Real3 e{0, 0, 0};
    double k = 0;
    double L2 = f.L * f.L;
    int ax = static_cast<int>(g.integer(0, 2));
    switch (fam)
    {
        case 0:  // ellipsoid
            k = -L2;
            f.family = "sq-ellipsoid";
            break;
        case 1:  // hyperboloid of one sheet
            sg[ax] = -1;
            k = -L2;
            f.family = "sq-hyperboloid1";
            break;
        case 2:  // hyperboloid of two sheets
            sg[ax] = -1;
            k = L2;
            f.family = "sq-hyperboloid2";
            break;
        case 3:  // elliptic cylinder
            sg[ax] = 0;
            k = -L2;
            f.family = "sq-ellcyl";
            break;
        case 4:  // elliptic / hyperbolic paraboloid
            sg[ax] = 0;
            e[ax] = sgn_rand(g) * f.L * g.uniform(0.3, 3);
            if (g.coin(0.3))
                sg[(ax + 1) % 3] = -1;
            k = 0;
            f.family = "sq-paraboloid";
            break;
        default:  // elliptic cone
            sg[ax] = -1;
            k = 0;
            f.family = "sq-cone";
            break;
    }
    f.axis = ax;
    SqParts p;
    p.zeroth = s * k;
    for (int i = 0; i < 3; ++i)
    {
        double a = s * sg[i] * w[i];
        double ei = s * e[i];
        p.second[i] = a;
        p.first[i] = -2 * a * f.c[i] + ei;
        p.zeroth += a * f.c[i] * f.c[i] - ei * f.c[i];
    }
    return p;
}
template<>
struct Gen<SimpleQuadric>
{
    static SimpleQuadric make(verif::Rng& g, Frame& f)
    {
        SqParts p = gen_sq_parts(g, f);
        return SimpleQuadric{p.second, p.first, p.zeroth};
    }
};

// proper rotation from three successive axis rotations built with plain trigonometry in
// the harness (NOT with the library's make_rotation)
inline SquareMatrixReal3 harness_rotation(verif::Rng& g)
{
    SquareMatrixReal3 r{Real3{1, 0, 0}, Real3{0, 1, 0}, Real3{0, 0, 1}};
    for (int k = 0; k < 3; ++k)
    {
        double th = g.coin(0.2) ? sgn_rand(g) * g.loguniform(1e-12, 1e-2) : g.uniform(-3.14159, 3.14159);
        double c = std::cos(th), s = std::sin(th);
        int u = (k + 1) % 3, v = (k + 2) % 3;
        SquareMatrixReal3 m{Real3{1, 0, 0}, Real3{0, 1, 0}, Real3{0, 0, 1}};
        m[u][u] = c;
        m[u][v] = -s;
        m[v][u] = s;
        m[v][v] = c;
        SquareMatrixReal3 t;
        for (int i = 0; i < 3; ++i)
            for (int j = 0; j < 3; ++j)
            {
                t[i][j] = 0;
                for (int l = 0; l < 3; ++l)
                    t[i][j] += m[i][l] * r[l][j];
            }
        r = t;
    }
    // one Gram-Schmidt sweep so that |R^T R - I| is a few eps
    for (int i = 0; i < 3; ++i)
    {
        for (int p = 0; p < i; ++p)
        {
            double d = dot_product(r[i], r[p]);
            for (int j = 0; j < 3; ++j)
                r[i][j] -= d * r[p][j];
        }
        r[i] = make_unit_vector(r[i]);
    }
    return r;
}

template<>
struct Gen<GeneralQuadric>
{
    static GeneralQuadric make(verif::Rng& g, Frame& f)
    {
        // an axis-aligned quadric about the origin, rotated by R and moved to c:
        // f(x) = (x-c)^T R D R^T (x-c) + (R e).(x-c) + k
        Frame f0;
        SqParts p = gen_sq_parts(g, f0);
        f = f0;
        f.family = "gq-rotated-" + f0.family;
        // undo the expansion done by gen_sq_parts: recover D, e, k about f0.c
        Real3 D = p.second;
        Real3 e;
        double k = p.zeroth;
        for (int i = 0; i < 3; ++i)
        {
            e[i] = p.first[i] + 2 * D[i] * f0.c[i];
            k += -D[i] * f0.c[i] * f0.c[i] - e[i] * f0.c[i] + 0.0;
        }
        // (k is now the constant about the centre up to rounding; any rounding merely
        // defines a slightly different quadric)
        SquareMatrixReal3 R = harness_rotation(g);
        double A[3][3];
        for (int i = 0; i < 3; ++i)
            for (int j = 0; j < 3; ++j)
            {
                A[i][j] = 0;
                for (int l = 0; l < 3; ++l)
                    A[i][j] += R[i][l] * D[l] * R[j][l];
            }
        Real3 Re{0, 0, 0};
        for (int i = 0; i < 3; ++i)
            for (int l = 0; l < 3; ++l)
                Re[i] += R[i][l] * e[l];
        Real3 const& c = f.c;
        Real3 abc{A[0][0], A[1][1], A[2][2]};
        Real3 def{2 * A[0][1], 2 * A[1][2], 2 * A[0][2]};
        Real3 ghi;
        double jj = k;
        for (int i = 0; i < 3; ++i)
        {
            double Ac = A[i][0] * c[0] + A[i][1] * c[1] + A[i][2] * c[2];
            ghi[i] = -2 * Ac + Re[i];
            jj += Ac * c[i] - Re[i] * c[i];
        }
        f.axis = -1;
        return GeneralQuadric{abc, def, ghi, jj};
    }
};

//---------------------------------------------------------------------------//
// A point on the surface: shoot a reference ray from a random point near the centre and
// take an exact root (quad), rounded to double.
inline bool point_on_surface(verif::Rng& g, RefQuadric const& ref, Frame const& f, Real3& out, Real3& unit_normal)
{
    for (int attempt = 0; attempt < 12; ++attempt)
    {
        Real3 u = rand_unit(g);
        Real3 w = rand_unit(g);
        double m = f.L * g.uniform(0, 3);
        Q3 p{{Q(f.c[0]) + Q(m * u[0]), Q(f.c[1]) + Q(m * u[1]), Q(f.c[2]) + Q(m * u[2])}};
        Q3 d = surfref::q3a(w);
        auto ray = ref.ray(p, d);
        Q t;
        if (!ref.has_second())
        {
            if (surfref::qabs(ray.hb) < Q(1e-3))
                continue;
            t = -ray.c / (2 * ray.hb);
        }
        else
        {
            if (surfref::qabs(ray.a) < Q(1e-6) * ref.s2())
                continue;
            Q D = ray.hb * ray.hb - ray.a * ray.c;
            if (D <= 0)
                continue;
            Q sD = sqrtq(D);
            t = (-ray.hb + (g.coin() ? sD : -sD)) / ray.a;
        }
        Q3 x = surfref::axpy(p, t, d);
        Q3 gr = ref.grad(x);
        Q gn = surfref::norm(gr);
        if (gn == 0)
            continue;
        out = qround(x);
        unit_normal = make_unit_vector(Real3{surfref::qd(gr[0] / gn), surfref::qd(gr[1] / gn), surfref::qd(gr[2] / gn)});
        if (!std::isfinite(out[0] + out[1] + out[2]))
            continue;
        return true;
    }
    return false;
}

// unit vector perpendicular to n
inline Real3 perp_to(verif::Rng& g, Real3 const& n)
{
    for (;;)
    {
        Real3 r = rand_unit(g);
        Real3 c = cross_product(n, r);
        if (norm(c) > 0.1)
            return make_unit_vector(c);
    }
}

// a direction with (numerically) vanishing second-order coefficient d^T A d, if the
// surface has one
inline bool asymptotic_dir(verif::Rng& g, RefQuadric const& ref, Real3& out)
{
    double A[3][3];
    for (int i = 0; i < 3; ++i)
        for (int k = 0; k < 3; ++k)
            A[i][k] = surfref::qd(ref.A[i][k]);
    auto quad = [&](Real3 const& a, Real3 const& b) {
        double s = 0;
        for (int i = 0; i < 3; ++i)
            for (int k = 0; k < 3; ++k)
                s += A[i][k] * a[i] * b[k];
        return s;
    };
    for (int attempt = 0; attempt < 8; ++attempt)
    {
        Real3 d1 = rand_unit(g), d2 = rand_unit(g);
        // (d1 + x d2): q22 x^2 + 2 q12 x + q11 = 0
        double q11 = quad(d1, d1), q12 = quad(d1, d2), q22 = quad(d2, d2);
        double x;
        if (q22 == 0)
        {
            if (q12 == 0)
                continue;
            x = -q11 / (2 * q12);
        }
        else
        {
            double D = q12 * q12 - q22 * q11;
            if (D < 0)
                continue;
            double sD = std::sqrt(D);
            double qq = -(q12 + (q12 < 0 ? -sD : sD));
            x = (g.coin() && qq != 0) ? q11 / qq : qq / q22;
        }
        Real3 d{d1[0] + x * d2[0], d1[1] + x * d2[1], d1[2] + x * d2[2]};
        double nn = norm(d);
        if (!(nn > 1e-6) || !std::isfinite(nn))
            continue;
        out = make_unit_vector(d);
        return true;
    }
    return false;
}

struct PosDir
{
    Real3 pos, dir;
    SurfaceState state = SurfaceState::off;
    std::string posclass, dirclass;
};

// Draw a position class and a direction class for the surface (ref, frame)
inline PosDir gen_posdir(verif::Rng& g, RefQuadric const& ref, Frame const& f)
{
    PosDir r;
    Real3 onp{0, 0, 0}, nrm{0, 0, 1};
    bool have_on = false;
    int pc = static_cast<int>(g.integer(0, 9));
    // 0-1 near, 2 far, 3-5 on, 6-7 nearsurf, 8 centre, 9 on-axis/apex-line
    if (pc >= 3 && pc <= 7)
    {
        have_on = point_on_surface(g, ref, f, onp, nrm);
        if (!have_on)
            pc = 0;
    }
    if (pc <= 1)
    {
        for (int i = 0; i < 3; ++i)
            r.pos[i] = f.c[i] + f.L * g.uniform(-3, 3);
        r.posclass = "near";
    }
    else if (pc == 2)
    {
        Real3 u = rand_unit(g);
        double m = f.L * g.loguniform(10, 1e6);
        for (int i = 0; i < 3; ++i)
            r.pos[i] = f.c[i] + m * u[i];
        r.posclass = "far";
    }
    else if (pc <= 5)
    {
        r.pos = onp;
        r.posclass = "on";
        r.state = g.coin(0.7) ? SurfaceState::on : SurfaceState::off;
    }
    else if (pc <= 7)
    {
        double dl = sgn_rand(g) * f.L * g.loguniform(1e-13, 1e-2);
        for (int i = 0; i < 3; ++i)
            r.pos[i] = onp[i] + dl * nrm[i];
        r.posclass = dl > 0 ? "nearsurf-out" : "nearsurf-in";
    }
    else if (pc == 8)
    {
        r.pos = f.c;
        r.posclass = "centre";
    }
    else
    {
        r.pos = f.c;
        if (f.axis >= 0)
            r.pos[f.axis] += f.L * g.uniform(-3, 3);
        r.posclass = "axis";
    }

    int dc = static_cast<int>(g.integer(0, 9));
    // 0-2 iso, 3 axis-parallel, 4-5 tangent family, 6-7 ruling (a~0), 8 radial, 9 aim
    if ((dc == 4 || dc == 5 || dc == 8) && !have_on)
        dc = 0;
    if (dc <= 2)
    {
        r.dir = rand_unit(g);
        r.dirclass = "iso";
    }
    else if (dc == 3)
    {
        r.dir = Real3{0, 0, 0};
        r.dir[g.integer(0, 2)] = sgn_rand(g);
        r.dirclass = "axis";
    }
    else if (dc <= 5)
    {
        Real3 t = perp_to(g, nrm);
        double tilt = g.coin(0.3) ? 0.0 : sgn_rand(g) * g.loguniform(1e-12, 1e-1);
        Real3 d{t[0] + tilt * nrm[0], t[1] + tilt * nrm[1], t[2] + tilt * nrm[2]};
        r.dir = make_unit_vector(d);
        r.dirclass = tilt == 0 ? "tangent" : "near-tangent";
    }
    else if (dc <= 7)
    {
        Real3 d;
        if (ref.has_second() && asymptotic_dir(g, ref, d))
        {
            // exactly along the ruling, or tilted by a small angle (inside or just outside
            // the documented fuzz a < 1e-10 <=> angle < 1e-5)
            double tilt = g.coin(0.25) ? 0.0 : g.loguniform(1e-9, 1e-1);
            Real3 p = perp_to(g, d);
            Real3 dd{d[0] + tilt * p[0], d[1] + tilt * p[1], d[2] + tilt * p[2]};
            r.dir = make_unit_vector(dd);
            r.dirclass = tilt == 0 ? "ruling" : (tilt < 2e-5 ? "ruling-fuzz" : "ruling-tilted");
        }
        else
        {
            r.dir = rand_unit(g);
            r.dirclass = "iso";
        }
    }
    else if (dc == 8)
    {
        double s = sgn_rand(g);
        r.dir = Real3{s * nrm[0], s * nrm[1], s * nrm[2]};
        r.dirclass = "normal";
    }
    else
    {
        Real3 tgt, n2;
        if (point_on_surface(g, ref, f, tgt, n2))
        {
            Real3 d{tgt[0] - r.pos[0], tgt[1] - r.pos[1], tgt[2] - r.pos[2]};
            double nn = norm(d);
            if (nn > 0 && std::isfinite(nn))
            {
                r.dir = make_unit_vector(d);
                r.dirclass = "aimed";
                return r;
            }
        }
        r.dir = rand_unit(g);
        r.dirclass = "iso";
    }
    return r;
}

}  // namespace surf
