// Ray / sense / normal cases for the quadric family (planes, cylinders, spheres, cones,
// simple and general quadrics), plus the exact "lattice" cases where the start point lies
// exactly on the surface in double arithmetic.
#include "surf_gen.hh"
#include "surf_monitor.hh"

namespace surf
{
namespace
{
template<class S>
void ray_one(Ctx& cx, std::uint64_t idx)
{
    cx.case_index = idx;
    verif::Rng g(verif::mix_seed(cx.args.seed, idx));
    guarded(cx, [&] {
        Frame f;
        S s = Gen<S>::make(g, f);
        RefQuadric ref = make_ref(s);
        PosDir pd = gen_posdir(g, ref, f);
        json gen{{"seed", cx.args.seed}, {"index", idx}, {"family", f.family}, {"posclass", pd.posclass},
                 {"dirclass", pd.dirclass}};
        check_quadric_ray(cx, s, pd.pos, pd.dir, pd.state, pd.posclass, pd.dirclass, gen);
    });
}

template<class S>
void rays_for_type(Ctx& cx, std::uint64_t n, int type_id)
{
    for (std::uint64_t i = 0; i < n; ++i)
        ray_one<S>(cx, (std::uint64_t(type_id) << 40) | i);
}

//---------------------------------------------------------------------------//
// Lattice cases: small-integer geometry so that c == 0 (and often hb, the discriminant)
// are EXACT in double; exercises the root-selection comparisons at exact zero.
struct LatticeDirs
{
    std::vector<Real3> dirs;
    LatticeDirs()
    {
        for (int ax = 0; ax < 3; ++ax)
            for (double s : {1.0, -1.0})
            {
                Real3 d{0, 0, 0};
                d[ax] = s;
                dirs.push_back(d);
            }
        for (int ax = 0; ax < 3; ++ax)
            for (double s1 : {0.6, -0.6})
                for (double s2 : {0.8, -0.8})
                {
                    Real3 d{0, 0, 0};
                    d[(ax + 1) % 3] = s1;
                    d[(ax + 2) % 3] = s2;
                    dirs.push_back(d);
                    Real3 e{0, 0, 0};
                    e[(ax + 1) % 3] = s2;
                    e[(ax + 2) % 3] = s1;
                    dirs.push_back(e);
                }
    }
};

template<class S>
void lattice_cases(Ctx& cx, S const& s, Real3 const& pos, char const* fam, std::uint64_t& k)
{
    static LatticeDirs const ld;
    for (auto const& d : ld.dirs)
        for (SurfaceState st : {SurfaceState::off, SurfaceState::on})
        {
            cx.case_index = (std::uint64_t(200) << 40) | k++;
            guarded(cx, [&] {
                json gen{{"seed", cx.args.seed}, {"index", cx.case_index}, {"family", fam}};
                check_quadric_ray(cx, s, pos, d, st, "lattice-on", "lattice", gen);
            });
        }
}

Real3 rand_int3(verif::Rng& g, int m)
{
    return Real3{double(g.integer(-m, m)), double(g.integer(-m, m)), double(g.integer(-m, m))};
}
}  // namespace

void run_lattice(Ctx& cx)
{
    verif::Rng g(verif::mix_seed(cx.args.seed, 0x1a77));
    std::uint64_t k = 0;
    int const reps = static_cast<int>(cx.args.budget(40, 400));
    for (int rep = 0; rep < reps; ++rep)
    {
        Real3 o = rand_int3(g, 50);
        Real3 p = rand_int3(g, 50);
        Real3 u{p[0] - o[0], p[1] - o[1], p[2] - o[2]};
        double r2 = u[0] * u[0] + u[1] * u[1] + u[2] * u[2];
        if (r2 > 0)
        {
            lattice_cases(cx, Sphere::from_radius_sq(o, r2), p, "lattice-sphere", k);
            Real3 pc{u[0], u[1], u[2]};
            lattice_cases(cx, SphereCentered::from_radius_sq(r2), pc, "lattice-sphere-centered", k);
        }
        {
            double c2 = u[0] * u[0] + u[1] * u[1];
            if (c2 > 0)
            {
                lattice_cases(cx, CylZ::from_radius_sq(o, c2), p, "lattice-cylz", k);
                lattice_cases(cx, CCylZ::from_radius_sq(c2), Real3{u[0], u[1], p[2]}, "lattice-ccylz", k);
            }
            double cx2 = u[1] * u[1] + u[2] * u[2];
            if (cx2 > 0)
            {
                lattice_cases(cx, CylX::from_radius_sq(o, cx2), p, "lattice-cylx", k);
                lattice_cases(cx, CCylX::from_radius_sq(cx2), Real3{p[0], u[1], u[2]}, "lattice-ccylx", k);
            }
            double cy2 = u[0] * u[0] + u[2] * u[2];
            if (cy2 > 0)
            {
                lattice_cases(cx, CylY::from_radius_sq(o, cy2), p, "lattice-cyly", k);
                lattice_cases(cx, CCylY::from_radius_sq(cy2), Real3{u[0], p[1], u[2]}, "lattice-ccyly", k);
            }
        }
        {
            // cone along z through p: tsq = (ux^2 + uy^2)/uz^2 exact when uz is a power of 2
            double uz = std::ldexp(1.0, int(g.integer(0, 3))) * sgn_rand(g);
            Real3 q{p[0], p[1], o[2] + uz};
            double num = u[0] * u[0] + u[1] * u[1];
            if (num > 0)
            {
                double tsq = num / (uz * uz);
                lattice_cases(cx, ConeZ::from_tangent_sq(o, tsq), q, "lattice-conez", k);
                lattice_cases(cx, ConeX::from_tangent_sq(Real3{o[2], o[0], o[1]}, tsq), Real3{q[2], q[0], q[1]},
                              "lattice-conex", k);
                lattice_cases(cx, ConeY::from_tangent_sq(Real3{o[1], o[2], o[0]}, tsq), Real3{q[1], q[2], q[0]},
                              "lattice-coney", k);
            }
        }
        {
            // planes through the lattice point
            lattice_cases(cx, PlaneX{p[0]}, p, "lattice-px", k);
            lattice_cases(cx, PlaneY{p[1]}, p, "lattice-py", k);
            lattice_cases(cx, PlaneZ{p[2]}, p, "lattice-pz", k);
            Real3 n{0, 0, 0};
            int ax = int(g.integer(0, 2));
            n[ax] = sgn_rand(g);
            lattice_cases(cx, Plane{n, n[ax] * p[ax]}, p, "lattice-plane", k);
        }
        {
            // simple quadric with integer coefficients; constant chosen so that f(p) == 0
            Real3 abc = rand_int3(g, 3), def = rand_int3(g, 5);
            if (g.coin(0.3))
                abc = Real3{0, 0, 0};  // a plane written as a quadric
            if (abc[0] != 0 || abc[1] != 0 || abc[2] != 0 || def[0] != 0 || def[1] != 0 || def[2] != 0)
            {
                double gq = 0;
                for (int i = 0; i < 3; ++i)
                    gq -= abc[i] * p[i] * p[i] + def[i] * p[i];
                lattice_cases(cx, SimpleQuadric{abc, def, gq}, p, "lattice-sq", k);
                Real3 cr = rand_int3(g, 3);
                double jq = gq - (cr[0] * p[0] * p[1] + cr[1] * p[1] * p[2] + cr[2] * p[2] * p[0]);
                lattice_cases(cx, GeneralQuadric{abc, cr, def, jq}, p, "lattice-gq", k);
            }
        }
    }
}

void ray_index(Ctx& cx, std::uint64_t idx)
{
    switch (idx >> 40)
    {
        case 1: ray_one<PlaneX>(cx, idx); break;
        case 2: ray_one<PlaneY>(cx, idx); break;
        case 3: ray_one<PlaneZ>(cx, idx); break;
        case 4: ray_one<Plane>(cx, idx); break;
        case 5: ray_one<CCylX>(cx, idx); break;
        case 6: ray_one<CCylY>(cx, idx); break;
        case 7: ray_one<CCylZ>(cx, idx); break;
        case 8: ray_one<CylX>(cx, idx); break;
        case 9: ray_one<CylY>(cx, idx); break;
        case 10: ray_one<CylZ>(cx, idx); break;
        case 11: ray_one<SphereCentered>(cx, idx); break;
        case 12: ray_one<Sphere>(cx, idx); break;
        case 13: ray_one<ConeX>(cx, idx); break;
        case 14: ray_one<ConeY>(cx, idx); break;
        case 15: ray_one<ConeZ>(cx, idx); break;
        case 16: ray_one<SimpleQuadric>(cx, idx); break;
        case 17: ray_one<GeneralQuadric>(cx, idx); break;
        default: break;
    }
}

void run_quadric_rays(Ctx& cx, std::uint64_t n)
{
    int id = 1;
    rays_for_type<PlaneX>(cx, n / 3 + 1, id++);
    rays_for_type<PlaneY>(cx, n / 3 + 1, id++);
    rays_for_type<PlaneZ>(cx, n / 3 + 1, id++);
    rays_for_type<Plane>(cx, n, id++);
    rays_for_type<CCylX>(cx, n / 3 + 1, id++);
    rays_for_type<CCylY>(cx, n / 3 + 1, id++);
    rays_for_type<CCylZ>(cx, n / 3 + 1, id++);
    rays_for_type<CylX>(cx, n / 3 + 1, id++);
    rays_for_type<CylY>(cx, n / 3 + 1, id++);
    rays_for_type<CylZ>(cx, n / 3 + 1, id++);
    rays_for_type<SphereCentered>(cx, n, id++);
    rays_for_type<Sphere>(cx, n, id++);
    rays_for_type<ConeX>(cx, n / 3 + 1, id++);
    rays_for_type<ConeY>(cx, n / 3 + 1, id++);
    rays_for_type<ConeZ>(cx, n / 3 + 1, id++);
    rays_for_type<SimpleQuadric>(cx, n, id++);
    rays_for_type<GeneralQuadric>(cx, n, id++);
}

}  // namespace surf
