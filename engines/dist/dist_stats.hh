// Statistics used by the `dist` engine (property C15).  Everything here is written from the
// textbook definitions (series / continued fraction of the incomplete gamma function,
// Pearson chi-square, exact-variance z statistics) and cross-checked at start-up against
// closed forms and numerical quadrature (self_check); nothing is shared with celeritas.
#pragma once

#include <cmath>
#include <cstdint>
#include <cstring>
#include <limits>
#include <sstream>
#include <string>
#include <vector>

namespace dstat
{
constexpr double inf = std::numeric_limits<double>::infinity();

//---------------------------------------------------------------------------//
// Regularised incomplete gamma functions P(a,x), Q(a,x) = 1-P, a > 0.
// Series for x < a+1, modified-Lentz continued fraction otherwise (Abramowitz & Stegun
// 6.5.29 / 6.5.31).  Whichever is computed directly keeps full *relative* accuracy, so
// small upper tails (p-values) do not suffer cancellation.
inline void gamma_pq(double a, double x, double& p, double& q)
{
    if (!(x > 0))
    {
        p = 0;
        q = 1;
        return;
    }
    if (std::isinf(x))
    {
        p = 1;
        q = 0;
        return;
    }
    double const lpre = -x + a * std::log(x) - std::lgamma(a);
    if (x < a + 1)
    {
        double ap = a, del = 1 / a, sum = del;
        for (int n = 0; n < 2000000; ++n)
        {
            ap += 1;
            del *= x / ap;
            sum += del;
            if (std::fabs(del) < std::fabs(sum) * 1e-17)
                break;
        }
        p = sum * std::exp(lpre);
        if (p > 1)
            p = 1;
        q = 1 - p;
    }
    else
    {
        double const tiny = 1e-300;
        double b = x + 1 - a, c = 1 / tiny, d = 1 / b, h = d;
        for (int i = 1; i < 2000000; ++i)
        {
            double an = -double(i) * (double(i) - a);
            b += 2;
            d = an * d + b;
            if (std::fabs(d) < tiny)
                d = tiny;
            c = b + an / c;
            if (std::fabs(c) < tiny)
                c = tiny;
            d = 1 / d;
            double del = d * c;
            h *= del;
            if (std::fabs(del - 1) < 1e-16)
                break;
        }
        q = std::exp(lpre) * h;
        if (q > 1)
            q = 1;
        p = 1 - q;
    }
}
inline double gamma_p(double a, double x)
{
    double p, q;
    gamma_pq(a, x, p, q);
    return p;
}
inline double gamma_q(double a, double x)
{
    double p, q;
    gamma_pq(a, x, p, q);
    return q;
}

// Standard normal CDF / survival through erfc (no cancellation in either tail)
inline double norm_cdf(double z)
{
    return 0.5 * std::erfc(-z * 0.7071067811865475244);
}
inline double norm_sf(double z)
{
    return 0.5 * std::erfc(z * 0.7071067811865475244);
}
// P(a < Z <= b) without cancellation
inline double norm_between(double a, double b)
{
    if (a >= 0)
        return norm_sf(a) - norm_sf(b);
    if (b <= 0)
        return norm_cdf(b) - norm_cdf(a);
    return 1 - norm_cdf(a) - norm_sf(b);
}
inline double two_sided_p(double z)
{
    return std::erfc(std::fabs(z) * 0.7071067811865475244);
}
// chi-square survival function
inline double chi2_sf(double x, double dof)
{
    return gamma_q(0.5 * dof, 0.5 * x);
}

//---------------------------------------------------------------------------//
// Monotone map double <-> ordered 64-bit key; bisection over keys finds a quantile in at
// most 64 CDF evaluations whatever the scale (1e-300 ... 1e300) of the answer.
inline std::int64_t ord_key(double x)
{
    std::int64_t b;
    std::memcpy(&b, &x, sizeof b);
    return b < 0 ? std::int64_t(0x8000000000000000ull) - b : b;
}
inline double ord_val(std::int64_t k)
{
    std::int64_t b = k < 0 ? std::int64_t(0x8000000000000000ull) - k : k;
    double x;
    std::memcpy(&x, &b, sizeof x);
    return x;
}
// smallest double x in [lo,hi] with F(x) >= q  (F non-decreasing)
template<class F>
inline double quantile_bisect(F&& cdf, double q, double lo, double hi)
{
    double const big = std::numeric_limits<double>::max();
    std::int64_t a = ord_key(std::max(lo, -big)), b = ord_key(std::min(hi, big));
    while (a < b)
    {
        std::int64_t m = std::int64_t((__int128(a) + __int128(b)) >> 1);  // floor, no overflow
        if (cdf(ord_val(m)) >= q)
            b = m;
        else
            a = m + 1;
    }
    return ord_val(a);
}

//---------------------------------------------------------------------------//
// Cross-checks of the special functions against closed forms and quadrature.
inline bool self_check(std::string& why)
{
    std::ostringstream os;
    bool ok = true;
    auto expect = [&](char const* what, double got, double ref, double rel) {
        if (!(std::fabs(got - ref) <= rel * std::fabs(ref) + 1e-300))
        {
            ok = false;
            os << what << ": got " << got << " expected " << ref << "; ";
        }
    };
    // P(1,x) = 1-exp(-x);  P(1/2,x) = erf(sqrt x)
    for (double x : {1e-8, 0.3, 1.9, 2.5, 30.0})
    {
        expect("P(1,x)", gamma_p(1, x), -std::expm1(-x), 1e-13);
        expect("Q(1,x)", gamma_q(1, x), std::exp(-x), 1e-13);
        expect("P(.5,x)", gamma_p(0.5, x), std::erf(std::sqrt(x)), 1e-13);
        expect("Q(.5,x)", gamma_q(0.5, x), std::erfc(std::sqrt(x)), 1e-12);
    }
    // integer a: Q(n,x) = exp(-x) sum_{k<n} x^k/k!
    for (int n : {2, 5, 40, 1000, 20000})
        for (double f : {0.5, 0.9, 1.0, 1.1, 1.5})
        {
            double x = f * n;
            if (n >= 1000)
                x = n + (f - 1.0) * 8 * std::sqrt(double(n));
            long double sum = 0, lx = std::log((long double)x);
            for (int k = 0; k < n; ++k)
                sum += std::exp(k * lx - (long double)x - std::lgamma((long double)k + 1));
            double qref = double(sum);
            if (qref > 1e-280)
            {
                expect("Q(n,x)", gamma_q(n, x), qref, n >= 1000 ? 1e-8 : 1e-11);
                expect("P(n,x)", gamma_p(n, x), double(1 - sum), n >= 1000 ? 1e-8 : 1e-11);
            }
        }
    // non-integer small a by quadrature: int_0^x t^(a-1) e^-t dt = (1/a) int_0^(x^a) exp(-s^(1/a)) ds
    for (double a : {0.05, 0.3, 0.9, 2.7})
        for (double x : {1e-3, 0.2, 1.0, 4.0})
        {
            double S = std::pow(x, a);
            int const M = 200000;
            long double acc = 0;
            for (int i = 0; i <= M; ++i)
            {
                double s = S * i / M;
                double f = std::exp(-std::pow(s, 1 / a));
                acc += f * ((i == 0 || i == M) ? 1 : (i % 2 ? 4 : 2));
            }
            double integ = double(acc) * S / M / 3 / a;
            // Simpson on a function with a sqrt-like cusp at 0 for a>1 : modest accuracy
            expect("P(a,x) quadrature", gamma_p(a, x), integ / std::tgamma(a), 2e-5);
        }
    // chi-square critical values (standard tables)
    expect("chi2 1", chi2_sf(3.841458820694124, 1), 0.05, 1e-10);
    expect("chi2 10", chi2_sf(18.307038053275146, 10), 0.05, 1e-10);
    expect("chi2 100", chi2_sf(124.34211340400407, 100), 0.05, 1e-9);
    expect("chi2 2", chi2_sf(2 * 20.0, 2), std::exp(-20.0), 1e-12);
    // normal
    expect("Phi(1.96)", norm_cdf(1.959963984540054), 0.975, 1e-13);
    expect("sf(6)", norm_sf(6.0), 9.865876450376946e-10, 1e-11);
    expect("between", norm_between(-1, 2), norm_cdf(2) - norm_cdf(-1), 1e-14);
    // quantile
    {
        double x = quantile_bisect([](double t) { return -std::expm1(-t); }, 0.5, 0, inf);
        expect("quantile", x, std::log(2.0), 1e-15);
    }
    why = os.str();
    return ok;
}

}  // namespace dstat
